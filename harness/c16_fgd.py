"""C16 helpers: canonical dumps of FGD definitions, the normal forms the three formats promise,
structured FGD generators and the round-trip oracles evaluated on the implementation.

Everything here imports srctools lazily (after common.import_impl())."""
from __future__ import annotations
import io, contextlib, warnings, string


# --------------------------------------------------------------------------- canonical dumps

def _type_name(t):
    return t if isinstance(t, str) else 'VT:' + t.name


def canon_kv(kv):
    vl = None
    has_list = not isinstance(kv._type, str) and kv._type.name in ('SPAWNFLAGS', 'CHOICES')
    if has_list and not kv.val_list:
        vl = []          # an empty list and None are the same thing (copy() turns one into the other)
    elif kv.val_list is not None:
        vl = [[v[0], v[1]] + ([bool(v[2])] if len(v) == 4 else []) + [sorted(v[-1])] for v in kv.val_list]
    return {'name': kv.name, 'type': _type_name(kv._type), 'disp': kv.disp_name, 'default': kv.default,
            'desc': kv.desc, 'vals': vl, 'ro': bool(kv.readonly), 'rep': bool(kv.reportable)}


def canon_io(io_):
    return {'name': io_.name, 'type': _type_name(io_._type), 'desc': io_.desc}


def canon_helper(h):
    t = type(h).__name__
    name = getattr(h, 'name', None) if h.TYPE is None else h.TYPE.value
    return [t, name, list(h.export())]


def kv_effective_order(ent):
    """Order in which export() writes the keyvalues: orderby() helper arguments when present, else kv_order."""
    by = []
    for h in ent.helpers:
        if h.TYPE is not None and h.TYPE.value == 'orderby':
            by += [a.casefold() for a in h.export()]
    order = {n: i for i, n in enumerate(by or ent.kv_order)}
    names = list(ent.keyvalues)
    return sorted(names, key=lambda n: order.get(n, 2 ** 64))   # stable, like export()


def canon_ent(ent, deep_bases=False, _seen=None):
    from srctools.fgd import EntityDef
    bases = []
    for b in ent.bases:
        if isinstance(b, EntityDef):
            if deep_bases:
                seen = (_seen or ()) + (ent.classname.casefold(),)
                if b.classname.casefold() in seen:
                    bases.append(['loop', b.classname])
                else:
                    bases.append(['ent', canon_ent(b, True, seen)])
            else:
                bases.append(['ent', b.classname])
        else:
            bases.append(['str', b])
    res = None if (isinstance(ent.resources, tuple) and ent.resources == ()) else \
        [[r.filename, r.type.name, sorted(r.tags)] for r in ent.resources]
    return {
        'type': ent.type.name, 'classname': ent.classname, 'alias': bool(ent.is_alias), 'desc': ent.desc,
        'bases': bases,
        'helpers': [canon_helper(h) for h in ent.helpers],
        'kv': [[n, [[sorted(t), canon_kv(kv)] for t, kv in ent.keyvalues[n].items()]] for n in kv_effective_order(ent)],
        'inp': [[n, [[sorted(t), canon_io(v)] for t, v in m.items()]] for n, m in ent.inputs.items()],
        'out': [[n, [[sorted(t), canon_io(v)] for t, v in m.items()]] for n, m in ent.outputs.items()],
        'res': res,
    }


def canon_fgd(fgd, deep_bases=False):
    d = {k: canon_ent(e, deep_bases) for k, e in fgd.entities.items()}
    d['@mapsize'] = [fgd.map_size_min, fgd.map_size_max]
    d['@matexcl'] = sorted(str(p) for p in fgd.mat_exclusions)
    d['@tagmatexcl'] = sorted([sorted(t), sorted(str(p) for p in ps)] for t, ps in fgd.tagged_mat_exclusions.items() if ps)
    d['@visgroups'] = sorted([k, v.name, (v.parent or 'Auto'), sorted(v.ents)] for k, v in fgd.auto_visgroups.items())
    return d


# --------------------------------------------------------------------------- normal forms

def io_decay_name(tname):
    from srctools.fgd import ValueTypes, VALUE_TO_IO_DECAY
    if not tname.startswith('VT:'):
        return tname
    t = ValueTypes[tname[3:]]
    if t is ValueTypes.BOOL:
        return tname
    return 'VT:' + VALUE_TO_IO_DECAY[t].name


def tok_decode(body):
    """What the tokenizer reads from the inside of a quoted string (Tokenizer._handle_string, escapes on)."""
    from srctools.tokenizer import ESCAPES
    out, i, last_cr = [], 0, False
    while i < len(body):
        c = body[i]; i += 1
        if c == '\r':
            out.append('\n'); last_cr = True; continue
        if c == '\n':
            if last_cr:
                last_cr = False; continue
            out.append('\n'); continue
        last_cr = False
        if c == '\\' and i < len(body):
            e = body[i]; i += 1
            if e == '\n':
                continue
            out.append(ESCAPES[e] if e in ESCAPES else '\\' + e)
            continue
        out.append(c)
    return ''.join(out)


def plain_readback(s):
    """Documented result of writing `s` WITHOUT custom syntax and reading it back: only newlines are escaped
    (as \\n), a double quote becomes two single quotes, and whatever backslash sequences the text itself contains
    are interpreted by the reader."""
    return tok_decode(s.replace('\n', '\\n').replace('"', "''"))


def norm_text(c, custom_syntax, label_spawnflags=True):
    """What `parse(export(fgd))` is documented to give back, from the canonical dump `c` of one entity:
    I/O types decay, a boolean always has a default, spawnflags have no display name of their own,
    newlines inside choice/flag names become spaces; without custom syntax tags, extension helpers and
    resources are dropped and `"` inside long strings is written as `''`."""
    import copy
    from srctools.fgd import HelperTypes
    c = copy.deepcopy(c)
    ext = custom_syntax

    def txt(s):
        return s if ext else plain_readback(s)

    c['desc'] = txt(c['desc'])
    c['bases'] = [['name', b[1] if b[0] != 'ent' or isinstance(b[1], str) else b[1]['classname']] for b in c['bases']]
    if c['alias'] and not ext:
        c['alias'] = False
    helpers = []
    for h in c['helpers']:
        is_ext = h[1] in ('appliesto', 'orderby', 'autovis')
        if is_ext and not ext:
            continue
        helpers.append(h)
    c['helpers'] = helpers
    for n, variants in c['kv']:
        for tv in variants:
            if not ext:
                tv[0] = []
            kv = tv[1]
            if kv['type'] == 'VT:SPAWNFLAGS':
                kv['disp'] = kv['name']
                for v in kv['vals'] or []:
                    v[1] = txt(v[1].replace('\n', ' '))
                    if not ext:
                        v[-1] = []
            else:
                kv['disp'] = txt(kv['disp'])
            kv['default'] = txt(kv['default'])
            if kv['type'] == 'VT:CHOICES':
                for v in kv['vals'] or []:
                    v[0] = txt(v[0])
                    v[1] = plain_readback(v[1].replace('\n', ' '))
                    if not ext:
                        v[-1] = []
            if kv['type'] == 'VT:BOOL':
                d = kv['default']
                if not d:
                    kv['default'] = '0'
                elif d.casefold() == 'yes':
                    kv['default'] = '1'
                elif d.casefold() == 'no':
                    kv['default'] = '0'
            kv['desc'] = txt(kv['desc'])
            if kv['vals'] is None and kv['type'] in ('VT:CHOICES', 'VT:SPAWNFLAGS'):
                kv['vals'] = []
    for key in ('inp', 'out'):
        for n, variants in c[key]:
            for tv in variants:
                if not ext:
                    tv[0] = []
                tv[1]['type'] = io_decay_name(tv[1]['type'])
                tv[1]['desc'] = txt(tv[1]['desc'])
    if not ext:
        c['res'] = None
    elif c['res'] is not None:
        c['res'] = [list(r) for r in c['res']]
    return c


def norm_parsed(c):
    """Canonical dump of a re-parsed entity brought to the same shape as norm_text's output."""
    import copy
    c = copy.deepcopy(c)
    c['bases'] = [['name', b[1] if isinstance(b[1], str) else b[1]['classname']] for b in c['bases']]
    return c


def norm_binary(c, cbase_name='_CBaseEntity_'):
    """What the binary database keeps of one entity (`strip`): no descriptions, no helpers, no key order,
    no `reportable`, spawnflags without default, bases by name (none -> CBaseEntity)."""
    import copy
    c = copy.deepcopy(c)
    c['desc'] = ''
    c['helpers'] = []
    names = [b[1] if isinstance(b[1], str) else b[1]['classname'] for b in c['bases']]
    c['bases'] = [['name', n] for n in names] or ([] if c['classname'].casefold() == cbase_name.casefold() else [['name', cbase_name]])
    for n, variants in c['kv']:
        for tv in variants:
            kv = tv[1]
            kv['desc'] = ''
            kv['rep'] = False
            if kv['type'] == 'VT:SPAWNFLAGS':
                kv['default'] = ''
                kv['vals'] = [list(v) for v in (kv['vals'] or [])]
            kv['default'] = kv['default'] or ''
    c['kv'] = sorted(c['kv'])
    for key in ('inp', 'out'):
        for n, variants in c[key]:
            for tv in variants:
                tv[1]['desc'] = ''
        c[key] = sorted(c[key])
    if c['res'] is not None and not c['res']:
        c['res'] = None
    return c


def norm_binary_loaded(c):
    import copy
    c = copy.deepcopy(c)
    c['bases'] = [['name', b[1] if isinstance(b[1], str) else b[1]['classname']] for b in c['bases']]
    c['kv'] = sorted(c['kv'])
    c['inp'] = sorted(c['inp'])
    c['out'] = sorted(c['out'])
    return c


def first_diff(a, b, path=''):
    """Path + values of the first difference between two JSON-like values (None if equal)."""
    if type(a) != type(b):
        return f'{path}: {a!r} != {b!r}'[:400]
    if isinstance(a, dict):
        for k in sorted(set(a) | set(b), key=str):
            if k not in a or k not in b:
                return f'{path}.{k}: only on one side'
            d = first_diff(a[k], b[k], f'{path}.{k}')
            if d:
                return d
        return None
    if isinstance(a, list):
        for i, (x, y) in enumerate(zip(a, b)):
            d = first_diff(x, y, f'{path}[{i}]')
            if d:
                return d
        if len(a) != len(b):
            return f'{path}: length {len(a)} != {len(b)}'
        return None
    if a != b:
        ra, rb = repr(a), repr(b)
        if len(ra) > 150: ra = ra[:70] + f'...<{len(ra)}>...' + ra[-60:]
        if len(rb) > 150: rb = rb[:70] + f'...<{len(rb)}>...' + rb[-60:]
        return f'{path}: {ra} != {rb}'
    return None


# --------------------------------------------------------------------------- implementation runners

def parse_text(text, eval_bases=True):
    """Parse FGD text with the implementation (as FGD.parse does), utf8."""
    from srctools.fgd import FGD
    from srctools.filesys import VirtualFileSystem
    fs = VirtualFileSystem({'t.fgd': text})
    fgd = FGD()
    with warnings.catch_warnings():
        warnings.simplefilter('ignore')
        fgd.parse_file(fs, fs['t.fgd'], eval_bases=eval_bases, encoding='utf8')
    if not eval_bases:
        fgd.apply_bases()
    return fgd


def exc_str(e):
    return f'{type(e).__name__}: {" ".join(str(e).split())[:200]}'


class Hang(Exception):
    pass


HANGS = [0]


def cpu_guarded(fn, cpu=1.0, retry_factor=4, wall=90.0):
    """Run fn() under a watchdog that measures PROCESS CPU time (ITIMER_PROF), not wall-clock time, so that a loaded
    machine cannot make a terminating call look like a hang; gc is off inside the window; a hit is retried once with
    `retry_factor` times the budget before Hang is raised. A generous wall-clock backstop (ITIMER_REAL) remains."""
    import signal, gc, time
    last = None
    for budget in (cpu, cpu * retry_factor):
        def on_prof(*a):
            raise Hang(f'used more than {budget:.1f}s of CPU time')
        def on_alarm(*a):
            raise Hang(f'did not finish within {wall:.0f}s wall-clock (CPU used {time.process_time() - t0:.1f}s)')
        old_p = signal.signal(signal.SIGPROF, on_prof)
        old_a = signal.signal(signal.SIGALRM, on_alarm)
        was_gc = gc.isenabled()
        gc.disable()
        t0 = time.process_time()
        signal.setitimer(signal.ITIMER_PROF, budget)
        signal.setitimer(signal.ITIMER_REAL, wall)
        try:
            return fn()
        except Hang as h:
            last = h
        finally:
            signal.setitimer(signal.ITIMER_PROF, 0)
            signal.setitimer(signal.ITIMER_REAL, 0)
            signal.signal(signal.SIGPROF, old_p)
            signal.signal(signal.SIGALRM, old_a)
            if was_gc:
                gc.enable()
    HANGS[0] += 1
    raise last


def export_guarded(fgd, seconds=2.0, **kw):
    """fgd.export(**kw) under the CPU-time watchdog: a writer loop that never advances would otherwise eat all memory."""
    return cpu_guarded(lambda: fgd.export(**kw), cpu=seconds)


def text_roundtrip(fgd, custom_syntax, label_spawnflags, field_equality=True):
    """The property for the text format. Returns (problems, info); each problem is (key, what)."""
    probs = []
    info = {}
    before = {k: canon_ent(e) for k, e in fgd.entities.items()}
    try:
        t1 = export_guarded(fgd, custom_syntax=custom_syntax, label_spawnflags=label_spawnflags)
    except Exception as e:
        return [('export-raises', 'export raised ' + exc_str(e))], info
    info['len'] = len(t1)
    info['plus'] = t1.count('" +\n')
    try:
        f2 = parse_text(t1)
    except Exception as e:
        return [('reparse-fails', f'exported text cannot be parsed back: {exc_str(e)}')], info
    after = {k: canon_ent(e) for k, e in f2.entities.items()}
    if field_equality:
        if list(sorted(before)) != list(sorted(after)):
            probs.append(('entity-set', f'entity set changed: {sorted(set(before) ^ set(after))[:5]}'))
        else:
            for k in before:
                want = norm_text(before[k], custom_syntax, label_spawnflags)
                got = norm_parsed(after[k])
                d = first_diff(want, got, k)
                if d:
                    probs.append(('field-differs', 'definition changed by export->parse: ' + d))
                    break
    try:
        t2 = export_guarded(f2, custom_syntax=custom_syntax, label_spawnflags=label_spawnflags)
    except Exception as e:
        return probs + [('export-raises', 'second export raised ' + exc_str(e))], info
    if field_equality and custom_syntax and t2 != t1:
        i = next((i for i, (a, b) in enumerate(zip(t1, t2)) if a != b), min(len(t1), len(t2)))
        probs.append(('text-not-fixed', f'export(parse(export(f))) != export(f) at offset {i}: {t1[max(0,i-40):i+40]!r} vs {t2[max(0,i-40):i+40]!r}'))
    if not (field_equality and custom_syntax):
        # normal form reached after one pass: the second pass must be a fixed point
        try:
            f3 = parse_text(t2)
            t3 = export_guarded(f3, custom_syntax=custom_syntax, label_spawnflags=label_spawnflags)
            if t3 != t2:
                i = next((i for i, (a, b) in enumerate(zip(t2, t3)) if a != b), min(len(t2), len(t3)))
                probs.append(('text-not-fixed', f'second export->parse->export not a fixed point at offset {i}: {t2[max(0,i-40):i+40]!r} vs {t3[max(0,i-40):i+40]!r}'))
        except Exception as e:
            probs.append(('reparse-fails', f're-exported text cannot be parsed back: {exc_str(e)}'))
    return probs, info


def binary_roundtrip(fgd):
    """serialise -> unserialise -> get_fgd vs strip(fgd). `fgd` must be in engine form. Returns problems."""
    import copy
    from srctools import _engine_db as edb
    want = {k: norm_binary(canon_ent(e)) for k, e in fgd.entities.items()}
    buf = io.BytesIO()
    work = copy.deepcopy(fgd)
    try:
        with contextlib.redirect_stdout(io.StringIO()), warnings.catch_warnings():
            warnings.simplefilter('ignore')
            edb.serialise(work, buf)
    except Exception as e:
        return [('serialise-raises', 'serialise raised ' + exc_str(e))], None
    data = buf.getvalue()
    try:
        db = edb.unserialise(io.BytesIO(data))
        back = db.get_fgd()
    except Exception as e:
        return [('unserialise-fails', 'serialised database cannot be read back: ' + exc_str(e))], data
    got = {k: norm_binary_loaded(canon_ent(e)) for k, e in back.entities.items()}
    probs = []
    if sorted(want) != sorted(got):
        probs.append(('bin-entity-set', f'entity set changed by the binary format: {sorted(set(want) ^ set(got))[:5]}'))
    else:
        for k in want:
            d = first_diff(want[k], got[k], k)
            if d:
                probs.append(('bin-field-differs', 'definition changed by serialise->unserialise: ' + d))
                break
    return probs, data


# --------------------------------------------------------------------------- generators

IDENT0 = string.ascii_letters + '_'
IDENT = string.ascii_letters + string.digits + '_'
NASTY = ['"', '\\', '\t', '\n', "'", '?', '/', ':', '+', '[', ']', '=', '{', '}', ',', '\r', 'é', '\U0001F600', '(', ')', ';', '#', '@']


def ident(rng, lo=1, hi=10):
    return rng.choice(IDENT0) + ''.join(rng.choice(IDENT) for _ in range(rng.randrange(lo - 1, hi)))


PLAIN_MODE = [False]   # set by gen_fgd(opts['plain']): no backslash / CR (text the original FGD syntax can carry)


def free_text(rng, n, spaces=True, nasty=0.15):
    """Text for positions written through _write_longstring / escape_text."""
    out = []
    for _ in range(n):
        r = rng.random()
        if r < nasty:
            c = rng.choice(NASTY)
            if PLAIN_MODE[0] and c in '\\\r':
                c = "'"
            out.append(c)
        elif spaces and r < nasty + 0.12:
            out.append(' ')
        else:
            out.append(rng.choice(string.ascii_letters + string.digits + '.-_'))
    return ''.join(out)


def long_text(rng, kind=None):
    """Strings around / beyond the 1000-character split limit of _write_longstring."""
    kind = kind or rng.choice(['nospace', 'nospace-nasty', 'spaced', 'newlines', 'boundary', 'early-space'])
    if PLAIN_MODE[0]:
        return _long_text(rng, kind).replace('\\', '/').replace('\r', ' ')
    return _long_text(rng, kind)


def _long_text(rng, kind):
    n = rng.choice([990, 999, 1000, 1001, 1500, 2000, 2500, 3000]) + rng.randrange(-3, 4)
    if kind == 'nospace':
        return free_text(rng, n, spaces=False, nasty=0.0)
    if kind == 'nospace-nasty':
        return ''.join(rng.choice('"\\\t\n' + 'abcdef') if rng.random() < 0.3 else rng.choice(string.ascii_letters) for _ in range(n))
    if kind == 'spaced':
        return free_text(rng, n, spaces=True, nasty=0.05)
    if kind == 'newlines':
        return '\n'.join(free_text(rng, rng.randrange(0, 300), nasty=0.02) for _ in range(n // 150 + 1))
    if kind == 'early-space':
        return free_text(rng, rng.randrange(0, 130)) + ' ' + free_text(rng, n, spaces=False, nasty=0.1)
    # boundary: a special character placed so that its escape pair straddles a multiple of the limit
    k = rng.choice([1, 1, 2])
    pre = rng.choice([997, 998, 999, 1000]) + 1000 * (k - 1)
    return 'a' * pre + rng.choice(['"', '\\', '\t', '\n', '\\\\', '""', '\\"']) + 'b' * rng.randrange(0, 700)


ENGINE_MODE = [False]     # the binary format cannot hold '\x1f' (STRING_SEP, asserted by BinStrDict.serialise)
EDGE_CORES = ['', '5', '-17', '1.5', '0', '--', '-', '.', 'abc', 'a_b1', '1e5', '+1']
EDGE_WS = ['\n', '\r', '\r\n', ' ', '\t', '\x0b', '\x0c', '\x01', '\x1c', '\x1f', '\x7f', '\x85', '\xa0', '\u2028']


def edge_texts():
    """Every class of text the writer treats specially (all digits, digits with - / ., empty, plain identifier, ...)
    with a single leading / trailing / inner blank or control character."""
    out = []
    for core in EDGE_CORES:
        out.append(core)
        for ws in EDGE_WS:
            out += [core + ws, ws + core, core + ws + core]
    seen, res = set(), []
    for t in out:
        if t not in seen:
            seen.add(t); res.append(t)
    return res


def plain_default(rng):
    if rng.random() < 0.12 and not ENGINE_MODE[0]:
        t = rng.choice(edge_texts())
        if not (PLAIN_MODE[0] and ('\\' in t or '\r' in t)):
            return t
    r = rng.random()
    if r < 0.25:
        return ''
    if r < 0.5:
        return str(rng.randrange(-50, 5000))
    if r < 0.6:
        return rng.choice(['0.5', '-1.25', '1e5', '255 255 255', '0 0 0', '--', '-', '1-2'])
    if r < 0.66:
        # integer-looking text that is not the canonical spelling of its value: a writer that goes through
        # int()/float() instead of copying the text changes these
        return rng.choice(['-0', '007', '00', '-00', '0018446744073709551616', '-007', '0-', '1-', '00-1',
                           '+5', '1_000', '٣', '-0.0', '0.50', '1.', '.5', '1e+05', ' 5', '5 '])
    if r < 0.75:
        return free_text(rng, rng.randrange(1, 14), nasty=0.4)
    return ''.join(rng.choice(string.ascii_letters + string.digits + " .-_/'?*!@#$%^&()[]{}:;,<>|~`+=") for _ in range(rng.randrange(1, 14)))


def gen_tags(rng, p=0.3):
    if rng.random() > p:
        return frozenset()
    n = rng.randrange(1, 4)
    out = set()
    for _ in range(n):
        out.add(rng.choice(['', '', '!', '+', '-']) + rng.choice(['HL2', 'EP1', 'P2', 'CSGO', 'MBASE', 'SINCE_L4D', 'UNTIL_ASW', 'TF2']))
    # validate_tags rejects the same tag with two prefixes
    seen, res = set(), set()
    for t in out:
        b = t.lstrip('!-+')
        if b not in seen:
            seen.add(b); res.add(t)
    return frozenset(res)


def gen_kv(rng, name, opts):
    from srctools.fgd import KVDef, ValueTypes
    all_types = list(ValueTypes)
    typ = opts.get('force_type') or rng.choice(all_types)
    long_p = opts.get('long_p', 0.05)
    def text(empty_p=0.25):
        r = rng.random()
        if r < empty_p:
            return ''
        if r < empty_p + long_p:
            return long_text(rng)
        return free_text(rng, rng.randrange(1, 60))
    if typ is ValueTypes.SPAWNFLAGS:
        vals = []
        for p in sorted(rng.sample(range(0, 24), rng.randrange(0, 6))):
            nm = (free_text(rng, rng.randrange(1, 30)) if rng.random() > long_p else long_text(rng)).lstrip() or 'x'
            vals.append((1 << p, nm, rng.random() < 0.5, gen_tags(rng, 0.15) if opts.get('tags') else frozenset()))
        return KVDef(name, typ, name, '', '', vals, rng.random() < 0.1, rng.random() < 0.1)
    if typ is ValueTypes.CHOICES:
        vals, seen = [], set()
        for _ in range(rng.randrange(0, 6)):
            v = rng.choice([str(rng.randrange(-3, 40)), '0.5', ident(rng), 'a b', '', '1e3', "it's", '+1', ' 1', '1_0', '-.5', 'inf',
                            free_text(rng, rng.randrange(1, 8), nasty=0.5)] + ([rng.choice(edge_texts())] * 3 if not PLAIN_MODE[0] else []))
            if v in seen:
                continue
            seen.add(v)
            nm = free_text(rng, rng.randrange(0 if opts.get('empty_choice_names') else 1, 30), nasty=0.1).replace('\\', '/').replace('\r', ' ')
            vals.append((v, nm, gen_tags(rng, 0.15) if opts.get('tags') else frozenset()))
        return KVDef(name, typ, text(), plain_default(rng), text(), vals, rng.random() < 0.1, rng.random() < 0.1)
    return KVDef(name, typ, text(), plain_default(rng), text(), None, rng.random() < 0.15, rng.random() < 0.15)


HELPER_SAMPLES = [
    ('halfgridsnap', []), ('size', ['-8 -8 -8', '8 8 8']), ('bbox', ['-4 -4 0', '4 4 16']), ('color', ['255 128 0']),
    ('sphere', ['radius']), ('sphere', ['_inner', '255 0 0']), ('line', ['255 255 255', 'targetname', 'target']),
    ('origin', ['pt']), ('vecline', ['pt']), ('sidelist', ['sides']), ('wirebox', ['mins', 'maxs']),
    ('iconsprite', ['editor/x.vmt']), ('studio', ['models/x.mdl']), ('studioprop', []), ('lightprop', ['models/l.mdl']),
    ('sprite', []), ('instance', []), ('decal', []), ('overlay', []), ('light', []), ('lightcone', []),
    ('keyframe', []), ('animator', []), ('quadbounds', []), ('worldtext', []), ('sweptplayerhull', []),
    ('appliesto', ['HL2', 'EP1']), ('orderby', ['b', 'a']), ('frustum', ['fov', 'near', 'far', 'color', '-1']),
    ('cylinder', ['255 255 255', 'targetname', 'target', 'radius', 'targetname', 'target', 'radius2']),
    ('obb', ['mins', 'maxs']), ('unknownthing', ['a', 'b c']), ('otherhelper', []),
]


def gen_helpers(rng, kv_names):
    from srctools.fgd import HelperTypes, HELPER_IMPL, UnknownHelper
    out = []
    for _ in range(rng.choice([0, 0, 1, 1, 2, 3])):
        name, args = rng.choice(HELPER_SAMPLES)
        if name == 'orderby':
            args = list(kv_names)
            rng.shuffle(args)
            args = args[:rng.randrange(0, len(args) + 1)]
            if not args:
                continue
        try:
            ht = HelperTypes(name)
        except ValueError:
            out.append(UnknownHelper(name, list(args)))
            continue
        try:
            out.append(HELPER_IMPL[ht].parse(list(args)))
        except Exception:
            continue
    # at most one orderby
    seen = False
    res = []
    for h in out:
        if h.TYPE is not None and h.TYPE.value == 'orderby':
            if seen:
                continue
            seen = True
        res.append(h)
    return res


def gen_fgd(rng, opts=None):
    """A random FGD built through the object API. opts: tags (tagged variants), long_p, n_ents,
    aliases, empty_choice_names, engine (shape accepted by the binary serialiser)."""
    from srctools.fgd import FGD, EntityDef, EntityTypes, IODef, ValueTypes, Resource, RESTYPE_TO_NAME
    from srctools.const import FileType
    opts = dict(opts or {})
    PLAIN_MODE[0] = bool(opts.get('plain'))
    ENGINE_MODE[0] = bool(opts.get('engine'))
    fgd = FGD()
    n_ents = opts.get('n_ents') or rng.randrange(1, 7)
    used = set()
    ents = []
    engine = opts.get('engine', False)
    for i in range(n_ents):
        while True:
            cn = ident(rng, 2, 12)
            if cn.casefold() not in used and cn.casefold() not in ('input', 'output'):
                used.add(cn.casefold())
                break
        kind = rng.choice([t for t in EntityTypes if t is not EntityTypes.EXTEND])
        ent = EntityDef(kind, cn)
        is_alias = bool(ents) and opts.get('aliases', True) and rng.random() < 0.15
        if is_alias:
            ent.is_alias = True
            ent.bases = [rng.choice(ents)]
            ent.type = ent.bases[0].type
        elif ents and not engine and rng.random() < 0.5:
            ent.bases = rng.sample(ents, min(len(ents), rng.randrange(1, 3)))
        if rng.random() < 0.6 and not engine:
            ent.desc = long_text(rng) if rng.random() < opts.get('long_p', 0.05) else free_text(rng, rng.randrange(1, 80))
        kv_names = []
        if not is_alias or rng.random() < 0.3:
            for _ in range(rng.randrange(0, 7)):
                nm = ident(rng)
                if nm.casefold() in kv_names or nm.casefold() in ('input', 'output'):
                    continue
                kv_names.append(nm.casefold())
                variants = {}
                ntag = 1
                if opts.get('tags') and rng.random() < 0.3:
                    ntag = rng.randrange(1, 4)
                for j in range(ntag):
                    tags = gen_tags(rng, 1.0 if (opts.get('tags') and (ntag > 1 or rng.random() < 0.3)) else 0.0)
                    if tags in variants:
                        continue
                    o = dict(opts)
                    if engine:
                        o['force_type'] = rng.choice([t for t in ValueTypes if t is not ValueTypes.CHOICES])
                    variants[tags] = gen_kv(rng, nm, o)
                ent.keyvalues[nm.casefold()] = variants
            ent.kv_order = list(kv_names)
            if rng.random() < 0.2:
                rng.shuffle(ent.kv_order)
            for coll in (ent.inputs, ent.outputs):
                for _ in range(rng.randrange(0, 4)):
                    nm = ident(rng)
                    if nm.casefold() in coll:
                        continue
                    variants = {}
                    for j in range(rng.randrange(1, 3) if opts.get('tags') and rng.random() < 0.2 else 1):
                        tags = gen_tags(rng, 1.0 if (opts.get('tags') and j > 0) else 0.0)
                        if tags in variants:
                            continue
                        d = '' if rng.random() < 0.4 else (long_text(rng) if rng.random() < opts.get('long_p', 0.05) else free_text(rng, rng.randrange(1, 60)))
                        variants[tags] = IODef(nm, rng.choice(list(ValueTypes)), '' if engine else d)
                    coll[nm.casefold()] = variants
        if not engine:
            ent.helpers = gen_helpers(rng, kv_names)
        if rng.random() < 0.35:
            res = []
            for _ in range(rng.randrange(0, 4)):
                res.append(Resource(free_text(rng, rng.randrange(1, 30)),
                                    rng.choice(list(FileType) if engine else sorted(RESTYPE_TO_NAME, key=lambda t: t.name)),
                                    gen_tags(rng, 0.3)))
            ent.resources = res if (res or not engine) else ()
        fgd.entities[cn.casefold()] = ent
        ents.append(ent)
    if not engine:
        if rng.random() < 0.2:
            fgd.map_size_min, fgd.map_size_max = -16384, 16384
    return fgd


def engine_pad(rng, fgd, n_strings=560):
    """Bring a generated FGD into the shape serialise() expects: `_CBaseEntity_` present and at least
    SHARED_STRINGS (512) distinct strings over all entities (serialise asserts this)."""
    from srctools.fgd import EntityDef, EntityTypes, KVDef, ValueTypes, IODef
    base = EntityDef(EntityTypes.BASE, '_CBaseEntity_')
    for nm in ('targetname', 'origin', 'angles'):
        base.keyvalues[nm] = {frozenset(): KVDef(nm, ValueTypes.STRING, nm.title(), '', '')}
    base.inputs['kill'] = {frozenset(): IODef('Kill')}
    total = 0
    for j in range(100):
        if total * 2 >= n_strings:
            break
        pad = EntityDef(EntityTypes.POINT, f'zz_padding{j}')
        for _ in range(200):
            nm = f'padkey{total:04d}'
            pad.keyvalues[nm] = {frozenset(): KVDef(nm, ValueTypes.STRING, f'Pad {total}', '', '')}
            total += 1
        fgd.entities[pad.classname.casefold()] = pad
    fgd.entities['_cbaseentity_'] = base
    return fgd
