"""C19 — all filesystem backends resolve names alike; chains honour priority."""
import io, itertools, os, shutil, tempfile, zipfile
from common import codes, uncodes

PID = 'C19'
GENS = ['fsys', 'fswalk']
DRIVERS = ['drv_c19']
PROPS = 'Srctools.Props.C19'
RULE = ("file sets: all subsets of size <= 2 (3 in thorough) of a 16-name universe with mixed case, nested folders and names that are "
        "prefixes of others (mat / materials / materials2, a / A) that are pairwise case-fold-distinct and free of file/folder clashes, "
        "plus random sets of up to 8 names from a component pool (ASCII; a share with non-ASCII names, without the VPK backend), plus sets with "
        "case-duplicate names (Virtual/Zip only). Each set is materialised as dict (VirtualFileSystem), zip file, VPK file and temp "
        "directory. Queries: every stored name in all spellings {as is, upper, lower, swapcase} x {/, \\, mixed}, non-normalised spellings "
        "(./x, a//b, a/../a/x), absent names, folder names. Folders: '' and every folder prefix in the same spellings, with and without "
        "trailing separator, partial names (mat for materials) and absent ones. Chains: up to 4 members drawn from (backend, set, prefix), "
        "all orders of the chosen members (built with add_sys and random priority flags); operation histories on ONE chain object "
        "(add_sys with both priorities, systems.pop(i), chain[q] / q in chain / walk_folder interleaved, with the pattern ask-missing, "
        "append a member that has it, ask again), compared step by step with a state-machine model. A case = (set, backend/chain, query or folder); "
        "non-trivial = the set has >= 2 names or the spelling differs from the stored one; distinct by content.")
TRUSTED = ["model: C19.lookupV/Z/P, walkV/Z/P, chainLookup, chainWalk (lean/Srctools/Model/C19.lean) re-state filesys.py by hand over "
           "Python-dict semantics; the folder matching of walk_folder is regenerated from the source by tools/gen_fswalk.py",
           "zipfile and srctools.vpk are used as black boxes to materialise the same names and bytes (VPK round trip is property C13)"]
NOT_MODELLED = ['VPK iteration order with case-duplicate names (ext/dir grouping); VPK names with empty parts or trailing dots',
                'zip directory entries other than by their trailing slash', 'Windows path rules',
                'FileSystemChain over non-normalised member prefixes with parent references']
ASSUMPTIONS = ['str.casefold acts character by character and maps neither to nor from the two slash characters',
               'stored names are normalised relative paths (no ., .., empty component, backslash) for the agreement theorems',
               'the temp directory is on a case-sensitive file system']

UNIVERSE = ['a', 'A.txt', 'b.txt', 'mat/a.vmt', 'Mat/b.vmt', 'materials/a.vmt', 'Materials/B.VMT', 'materials2/a.vmt', 'mat/sub/c.txt',
            'MAT/SUB/d.txt', 'materials/mat/x', 'm', 'models/props/a.mdl', 'Models/b.mdl', 'mat.txt', 'sub/mat/y.txt']
DIRS = ['materials', 'Materials', 'mat', 'MAT', 'models', 'a', 'A', 'sub', 'Sub', 'materials2', 'x']
LEAVES = ['a.vmt', 'A.VMT', 'b.txt', 'mat.txt', 'readme', 'x.y.z', 'a', 'materials', 'B.txt']
UDIRS = ['Straße', 'Été', 'mat']
ULEAVES = ['é.txt', 'STRASSE', 'İx.vmt', 'a.vmt']


def fold_table(strings):
    cs = sorted({c for s in strings for c in s if c.casefold() != c})
    return [[ord(c), codes(c.casefold())] for c in cs]


def ok_set(names):
    """pairwise fold-distinct, no name is a folder of another (case-insensitively)."""
    f = [n.casefold() for n in names]
    if len(set(f)) != len(f):
        return False
    for a in f:
        for b in f:
            if a != b and b.startswith(a + '/'):
                return False
    # the real directory: exact-case clashes between a file and a folder
    return True


def gen_sets(ctx):
    """-> list of (names, with_vpk)"""
    out = []
    k = ctx.budget(2, 3)
    for n in range(1, k + 1):
        for sub in itertools.combinations(UNIVERSE, n):
            if ok_set(sub):
                out.append((list(sub), True))
    rng = ctx.rng
    for i in range(ctx.budget(400, 3000)):
        uni = rng.random() < 0.2
        names = []
        for _ in range(rng.randrange(1, 9)):
            d = [rng.choice(UDIRS if uni and rng.random() < 0.5 else DIRS) for _ in range(rng.choice([0, 1, 1, 2, 2, 3]))]
            names.append('/'.join(d + [rng.choice(ULEAVES if uni and rng.random() < 0.5 else LEAVES)]))
            if not ok_set(names):
                names.pop()
        if names:
            out.append((names, not uni))
    return out


def spellings(n, rng, full=True):
    cases = [n, n.upper(), n.lower(), n.swapcase()]
    out = []
    for c in cases:
        out.append(c)
        if '/' in c:
            out.append(c.replace('/', '\\'))
            if full and c.count('/') > 1:
                out.append(c.replace('/', '\\', 1))
    return out


def folders_of(names):
    ds = set()
    for n in names:
        parts = n.split('/')
        for i in range(1, len(parts)):
            ds.add('/'.join(parts[:i]))
    return sorted(ds)


def gen_queries(names, rng):
    qs = []
    for n in names:
        qs += spellings(n, rng)
        qs += ['./' + n, n.replace('/', '//', 1) if '/' in n else n + '/', 'zz/../' + n, n + 'x', n[:-1], n + '/x']
    for d in folders_of(names):
        qs += [d, d + '/']
    qs += ['', 'nope.txt', 'nope/a.vmt', '.', '/']
    return list(dict.fromkeys(qs))


def gen_folders(names, rng):
    ds = ['']
    for d in folders_of(names):
        for s in spellings(d, rng, full=False):
            ds += [s, s + '/']
        ds += [d[:-1], d + 'x', d[: max(1, len(d) // 2)], d + '//', './' + d]
    for n in names[:3]:
        ds += [n, n.split('/')[0][:2]]
    ds += ['nope', '.', '/', 'mat', 'MAT/']
    return list(dict.fromkeys(ds))


# ----------------------------------------------------------------------------------------- materialisation

class World:
    """One file set as four filesystems."""
    def __init__(self, fsmod, base, idx, names, ids, with_vpk):
        from srctools.vpk import VPK
        self.names, self.ids, self.with_vpk = names, ids, with_vpk
        data = {n: b'id=%d' % i for n, i in zip(names, ids)}
        self.fs = {}
        self.fs['V'] = fsmod.VirtualFileSystem(dict(data))
        zpath = os.path.join(base, f's{idx}.zip')
        with zipfile.ZipFile(zpath, 'w') as z:
            for n in names:
                z.writestr(n, data[n])
        self.fs['Z'] = fsmod.ZipFileSystem(zpath)
        if with_vpk:
            ppath = os.path.join(base, f's{idx}_dir.vpk')
            v = VPK(ppath, mode='w')
            for n in names:
                v.add_file(n, data[n])
            v.write_dirfile()
            self.fs['P'] = fsmod.VPKFileSystem(ppath)
        self.root = os.path.join(base, f'd{idx}')
        self.raw_ok = True
        try:
            for n in names:
                p = os.path.join(self.root, n)
                os.makedirs(os.path.dirname(p), exist_ok=True)
                with open(p, 'wb') as f:
                    f.write(data[n])
            os.makedirs(self.root, exist_ok=True)
            self.fs['R'] = fsmod.RawFileSystem(self.root)
        except OSError:
            self.raw_ok = False   # exact-case file/folder clash on disk

    def close(self):
        z = self.fs.get('Z')
        if z is not None:
            z.zip.close()

    def kinds(self):
        return [k for k in 'VZPR' if k in self.fs]


def _read_id(h):
    with h:
        d = h.read()
    return int(d[3:])


def _err(e, fsmod):
    if isinstance(e, fsmod.RootEscapeError):
        return 'escape'
    if isinstance(e, (FileNotFoundError, IsADirectoryError, NotADirectoryError)):
        return 'notfound'
    return f'exc:{type(e).__name__}:{e}'[:80]


def obs_lookup(fsmod, fs, q):
    """[path, id] | 'notfound' | 'escape' — through fs[q].open_bin(); cross-checked with `in` and fs.open_bin(q)."""
    extra = None
    try:
        f = fs[q]
        r = [codes(f.path), _read_id(f.open_bin())]
    except Exception as e:
        r = _err(e, fsmod)
    try:
        ex = q in fs
    except Exception as e:
        ex = _err(e, fsmod)
    try:
        direct = _read_id(fs.open_bin(q))
    except Exception as e:
        direct = _err(e, fsmod)
    found = isinstance(r, list)
    if ex != (found if r != 'escape' else 'escape') or (direct != r[1] if found else direct != r):
        extra = {'lookup': r if not found else [uncodes(r[0]), r[1]], 'in': ex, 'open_bin': direct}
    return r, extra


def obs_walk(fsmod, fs, d, cap=400):
    try:
        res = []
        for f in itertools.islice(fs.walk_folder(d), cap):
            try:
                i = _read_id(f.open_bin())
            except Exception as e:
                i = _err(e, fsmod)
            res.append([codes(f.path), i])
        return sorted(res, key=lambda x: (x[0], str(x[1])))
    except Exception as e:
        return _err(e, fsmod)


def canon_walk(w):
    return sorted(w, key=lambda x: (x[0], str(x[1]))) if isinstance(w, list) else w


# ----------------------------------------------------------------------------------------- the property, directly

def in_folder(d, n):
    return d == '' or n.startswith(d + '/')


def norm_folder(d):
    d = d.replace('\\', '/')
    return d[:-1] if d.endswith('/') and not d.endswith('//') else d


def check_single(ctx, world, kind, fsmod, setdesc, queries_domain, folders_domain):
    """Direct statement of the property on one backend. Domains: case x slash spellings of stored and absent
    normalised names; folder prefixes in those spellings with at most one trailing separator."""
    fs = world.fs[kind]
    names, ids = world.names, world.ids
    fold = (lambda s: s) if kind == 'R' else (lambda s: s.casefold())
    by = {fold(n): i for n, i in zip(names, ids)}
    for q in queries_domain:
        want = by.get(fold(q.replace('\\', '/')))
        r, _ = obs_lookup(fsmod, fs, q)
        got = r[1] if isinstance(r, list) else None
        if got != want:
            ctx.witness('lookup-disagree', f'{kind}: looking up {q!r} in the file set {names} gives {short(r)}, expected '
                        f'{"the content of " + repr(names[ids.index(want)]) if want is not None else "not found"}',
                        {'set': setdesc, 'backend': kind, 'query': q})
    for d in folders_domain:
        nd = fold(norm_folder(d))
        want = sorted(fold(n) for n in names if in_folder(nd, fold(n)))
        w = obs_walk(fsmod, fs, d)
        got = sorted(fold(uncodes(x[0])) for x in w) if isinstance(w, list) else w
        if got != want:
            key = 'walk-root-empty' if d == '' else ('walk-case' if isinstance(got, list) and set(got) < set(want) else 'walk-partial-name')
            ctx.witness(key, f'{kind}: walk_folder({d!r}) over {names} lists {got}, expected exactly the files inside that folder {want}',
                        {'set': setdesc, 'backend': kind, 'folder': d})
        elif isinstance(w, list):
            for x in w:
                p = uncodes(x[0])
                r, _ = obs_lookup(fsmod, fs, p)
                if not isinstance(r, list) or r[1] != x[1] or by.get(fold(p.replace('\\', '/'))) != x[1]:
                    ctx.witness('walk-unsound', f'{kind}: walk_folder({d!r}) over {names} lists {p!r} but looking that name up gives {short(r)}',
                                {'set': setdesc, 'backend': kind, 'folder': d})


def short(v):
    if isinstance(v, list) and v and all(isinstance(x, int) for x in v):
        return uncodes(v)
    if isinstance(v, list):
        return [short(x) for x in v]
    return v


# ----------------------------------------------------------------------------------------- chains

def gen_chains(ctx, worlds, rng, n):
    """-> list of (members [(kind, world index, prefix)], build plan [(member index, priority)])"""
    out = []
    for _ in range(n):
        k = rng.choice([1, 2, 2, 3, 3, 4])
        cand = []
        for _ in range(k):
            wi = rng.randrange(len(worlds))
            w = worlds[wi]
            kind = rng.choice(w.kinds())
            ds = folders_of(w.names)
            if ds and rng.random() < 0.6:
                pf = rng.choice(ds)
                x = rng.random()
                if x < 0.25:
                    pf = pf.swapcase()
                elif x < 0.4:
                    pf += '/'
                elif x < 0.5:
                    pf = pf.replace('/', '\\')
            else:
                pf = rng.choice(['', '', 'nope'])
            cand.append((kind, wi, pf))
        perms = list(itertools.permutations(range(k)))
        if len(perms) > ctx.budget(6, 24):
            perms = rng.sample(perms, ctx.budget(6, 24))
        for perm in perms:
            members = [cand[i] for i in perm]
            out.append(members)
    return out


def build_chain(fsmod, worlds, members, rng):
    """Build through add_sys with random priority flags so that the final order is `members`."""
    chain = fsmod.FileSystemChain()
    order = []           # indices into members in current chain order
    todo = list(range(len(members)))
    # insert so that the final order is 0..n-1: choose a contiguous block growing from a random start
    start = rng.randrange(len(members)) if members else 0
    lo = hi = start
    seq = [(start, False)]
    while lo > 0 or hi < len(members) - 1:
        if lo > 0 and (hi == len(members) - 1 or rng.random() < 0.5):
            lo -= 1
            seq.append((lo, True))
        else:
            hi += 1
            seq.append((hi, False))
    for i, prio in seq:
        kind, wi, pf = members[i]
        chain.add_sys(worlds[wi].fs[kind], pf, priority=prio)
    got = [(s, p) for s, p in chain.systems]
    want = [(worlds[wi].fs[kind], pf) for kind, wi, pf in members]
    ok = len(got) == len(want) and all(a[0] is b[0] and a[1] == b[1] for a, b in zip(got, want))
    return chain, ok, seq


def check_chain(ctx, fsmod, worlds, members, chain, queries, folders, desc, build=None):
    """Direct statement for chains over V/Z/P members whose prefixes are normalised folder names (any case, either slash,
    optional trailing separator)."""
    if any(k == 'R' for k, _, _ in members):
        return
    def pre(pf):
        return norm_folder(pf).casefold()
    sets = []
    prefix_case_differs = False      # open finding: relpath() is case-sensitive on POSIX
    for kind, wi, pf in members:
        w = worlds[wi]
        sets.append((pre(pf), {n.casefold(): i for n, i in zip(w.names, w.ids)}))
        if any(d != norm_folder(pf) and d.casefold() == pre(pf) for d in folders_of(w.names)):
            prefix_case_differs = True
    for q in queries:
        fq = q.replace('\\', '/').casefold()
        want = None
        for p, by in sets:
            full = (p + '/' + fq) if p else fq
            if full in by:
                want = by[full]
                break
        r, _ = obs_lookup(fsmod, chain, q)
        got = r[1] if isinstance(r, list) else None
        if got != want:
            ctx.witness('chain-lookup', f'chain {desc}: looking up {q!r} gives {short(r)}, expected content id {want} (first member that has it)',
                        {'chain': desc, 'query': q, 'build': build})
    for d in folders:
        fd = norm_folder(d).casefold()
        want = {}
        for p, by in sets:
            full = '/'.join(x for x in (p, fd) if x)
            for n, i in by.items():
                if in_folder(full, n) and in_folder(p, n):
                    rel = n[len(p) + 1:] if p else n
                    want.setdefault(rel, i)
        w = obs_walk(fsmod, chain, d)
        got = sorted((uncodes(x[0]).casefold(), x[1]) for x in w) if isinstance(w, list) else w
        if got != sorted(want.items()):
            if prefix_case_differs:
                ctx.count('chain:walk:open-finding-prefix-case')
                if ctx.hist['chain:walk:open-finding-prefix-case'] > 3:
                    continue      # keep room for other witnesses
            ctx.witness('chain-walk-prefix-case' if prefix_case_differs else 'chain-walk', f'chain {desc}: walk_folder({d!r}) lists {got}, expected each name once, relative to the member prefix, '
                        f'with the first member\'s content: {sorted(want.items())}', {'chain': desc, 'folder': d, 'build': build})


# ----------------------------------------------------------------------------------------- chains as histories

def chain_oracle(worlds, members):
    """What the statement of the property demands of a chain whose members are `members` NOW (V/Z/P members only):
    -> (want_lookup(q), want_walk(d), prefix_case_differs) or None when a directory member is present."""
    if any(k == 'R' for k, _, _ in members):
        return None
    sets, differs = [], False
    for kind, wi, pf in members:
        w = worlds[wi]
        p = norm_folder(pf).casefold()
        sets.append((p, {n.casefold(): i for n, i in zip(w.names, w.ids)}))
        if any(d != norm_folder(pf) and d.casefold() == p for d in folders_of(w.names)):
            differs = True

    def want_lookup(q):
        fq = q.replace('\\', '/').casefold()
        for p, by in sets:
            full = (p + '/' + fq) if p else fq
            if full in by:
                return by[full]
        return None

    def want_walk(d):
        fd = norm_folder(d).casefold()
        want = {}
        for p, by in sets:
            full = '/'.join(x for x in (p, fd) if x)
            for n, i in by.items():
                if in_folder(full, n) and in_folder(p, n):
                    want.setdefault(n[len(p) + 1:] if p else n, i)
        return sorted(want.items())
    return want_lookup, want_walk, differs


def gen_history(ctx, worlds, rng):
    """One operation history for ONE chain object (starting empty).
    ops: ['add', kind, world index, prefix, priority] ['pop', i] ['lookup', q] ['in', q] ['walk', d] ['walkrep', d]"""
    def cand():
        wi = rng.randrange(len(worlds))
        w = worlds[wi]
        kind = rng.choice(w.kinds())
        ds = folders_of(w.names)
        pf = ''
        if ds and rng.random() < 0.45:
            pf = rng.choice(ds)
            x = rng.random()
            if x < 0.15:
                pf = pf.swapcase()
            elif x < 0.3:
                pf += '/'
            elif x < 0.4:
                pf = pf.replace('/', '\\')
        return (kind, wi, pf)

    def rel_names(c):
        kind, wi, pf = c
        p = norm_folder(pf).casefold()
        out = []
        for n in worlds[wi].names:
            if in_folder(p, n.casefold()):
                out.append(n[len(p) + 1:] if p else n)
        return out
    cands = [cand() for _ in range(rng.randrange(2, 6))]
    qpool = []
    for c in cands:
        for n in rel_names(c)[:3]:
            qpool.append(rng.choice([n, n, n.swapcase(), n.replace('/', '\\')]))
    qpool = (qpool or ['a']) + ['nope.txt']
    rng.shuffle(qpool)
    qpool = qpool[:6]
    dpool = [''] + [d for q in qpool for d in folders_of([q.replace('\\', '/')])][:3]
    ops, inchain = [], []
    for _ in range(rng.randrange(0, 3)):
        c = rng.choice(cands)
        pr = rng.random() < 0.3
        ops.append(['add', c[0], c[1], c[2], pr])
        inchain.insert(0, c) if pr else inchain.append(c)
    for _ in range(rng.randrange(8, 22)):
        x = rng.random()
        if x < 0.22:
            # the pattern "ask, then add a member that has it, then ask again with the same spelling"
            c = rng.choice(cands)
            names = rel_names(c)
            q = rng.choice(names) if names and rng.random() < 0.8 else rng.choice(qpool)
            if rng.random() < 0.3:
                q = q.swapcase()
            pr = rng.random() < 0.35
            ask = rng.choice(['lookup', 'lookup', 'in'])
            ops += [[ask, q], ['add', c[0], c[1], c[2], pr], [rng.choice(['lookup', 'lookup', 'in']), q]]
            inchain.insert(0, c) if pr else inchain.append(c)
            if rng.random() < 0.4:
                i = 0 if pr else len(inchain) - 1
                ops += [['pop', i], ['lookup', q]]
                inchain.pop(i)
        elif x < 0.62:
            ops.append([rng.choice(['lookup', 'lookup', 'lookup', 'in']), rng.choice(qpool)])
        elif x < 0.74:
            c = rng.choice(cands)
            pr = rng.random() < 0.5
            ops.append(['add', c[0], c[1], c[2], pr])
            inchain.insert(0, c) if pr else inchain.append(c)
        elif x < 0.84:
            i = rng.choice([0, 0, 0, len(inchain) - 1, rng.randrange(0, 5)])
            if i < 0:
                i = 0
            ops.append(['pop', i])
            if i < len(inchain):
                inchain.pop(i)
        elif x < 0.94:
            ops.append(['walk', rng.choice(dpool)])
        else:
            ops.append(['walkrep', rng.choice(dpool)])
    return ops


def run_history(fsmod, worlds, ops, on_witness=None, ctx=None):
    """Execute `ops` on one FileSystemChain. Returns the observations in the driver's shape. At every query the direct
    statement of the property is evaluated against the member list as it is NOW; on_witness(key, what, step, op)."""
    chain = fsmod.FileSystemChain()
    members = []          # the trivial list model of add_sys / systems.pop
    obs = []
    for step, op in enumerate(ops):
        tag = op[0]
        if tag == 'add':
            _, kind, wi, pf, pr = op
            chain.add_sys(worlds[wi].fs[kind], pf, priority=pr)
            members.insert(0, (kind, wi, pf)) if pr else members.append((kind, wi, pf))
            obs.append('done')
            continue
        if tag == 'pop':
            try:
                chain.systems.pop(op[1])
                obs.append('done')
            except IndexError:
                obs.append('poperror')
            if op[1] < len(members):
                members.pop(op[1])
            continue
        orc = chain_oracle(worlds, members)
        desc = [[k, worlds[wi].names, pf] for k, wi, pf in members]
        if tag in ('lookup', 'in'):
            q = op[1]
            if tag == 'lookup':
                r, extra = obs_lookup(fsmod, chain, q)
                if extra and on_witness:
                    on_witness('chain-lookup', f'history step {step}: chain[{q!r}], {q!r} in chain and chain.open_bin({q!r}) are inconsistent: {extra}', step, op)
                got = r[1] if isinstance(r, list) else None
            else:
                try:
                    r = bool(q in chain)
                except Exception as e:
                    r = _err(e, fsmod)
                got = r
            obs.append(r)
            if orc and on_witness:
                want = orc[0](q)
                bad = (got != want) if tag == 'lookup' else (got != (want is not None))
                if bad:
                    on_witness('chain-lookup', f'history step {step}: after {short_ops(ops[:step])} the chain {desc} answers {tag}({q!r}) = {short(r)}, '
                               f'but the first member that has it now gives content id {want}', step, op)
        else:
            d = op[1]
            if tag == 'walk':
                w = obs_walk(fsmod, chain, d)
            else:
                class _R:
                    def __init__(s, c): s.c = c
                    def walk_folder(s, f): return s.c.walk_folder_repeat(f)
                w = obs_walk(fsmod, _R(chain), d)
            obs.append(w)
            if orc and on_witness and tag == 'walk':
                want = orc[1](d)
                got = sorted((uncodes(x[0]).casefold(), x[1]) for x in w) if isinstance(w, list) else w
                if got != want:
                    on_witness('chain-walk-prefix-case' if orc[2] else 'chain-walk',
                               f'history step {step}: after {short_ops(ops[:step])} the chain {desc} lists walk_folder({d!r}) = {got}, expected {want}', step, op)
    return obs


def short_ops(ops):
    return [op if op[0] != 'add' else ['add', op[1], f'set{op[2]}', op[3], 'priority' if op[4] else 'append'] for op in ops
            if op[0] in ('add', 'pop') or True][-8:]


def hist_input(worlds, ops, step=None):
    used = sorted({op[2] for op in ops if op[0] == 'add'})
    remap = {wi: j for j, wi in enumerate(used)}
    return {'history': {'sets': [worlds[wi].names for wi in used],
                        'ops': [[op[0], op[1], remap[op[2]], op[3], op[4]] if op[0] == 'add' else list(op) for op in ops]},
            'step': step}


def run_histories(ctx, drv, fsmod):
    rng = ctx.rng
    base = os.path.realpath(tempfile.mkdtemp(prefix='c19h_'))
    cwd0 = os.getcwd()
    os.chdir(base)
    reqs, pend = [], []
    try:
        next_id = 0
        for bi in range(ctx.budget(30, 250)):
            worlds = []
            tries = 0
            while len(worlds) < 4 and tries < 40:
                tries += 1
                names = []
                for _ in range(rng.randrange(1, 6)):
                    if rng.random() < 0.5:
                        names.append(rng.choice(UNIVERSE))
                    else:
                        d = [rng.choice(DIRS) for _ in range(rng.choice([0, 1, 1, 2]))]
                        names.append('/'.join(d + [rng.choice(LEAVES)]))
                    if len(set(names)) != len(names) or not ok_set(names):
                        names.pop()
                if not names:
                    continue
                ids = list(range(next_id, next_id + len(names)))
                next_id += len(names)
                worlds.append(World(fsmod, base, f'h{bi}_{len(worlds)}', names, ids, True))
            for hi in range(ctx.budget(8, 12)):
                ops = gen_history(ctx, worlds, rng)

                def on_witness(key, what, step, op, ops=ops, worlds=worlds):
                    if key == 'chain-walk-prefix-case':
                        ctx.count('chain:walk:open-finding-prefix-case')
                        if ctx.hist['chain:walk:open-finding-prefix-case'] > 3:
                            return
                    ctx.witness(key, what, hist_input(worlds, ops[:step + 1], step))
                obs = run_history(fsmod, worlds, ops, on_witness)
                for op in ops:
                    ctx.count('history:op:' + op[0] + ((':priority' if op[4] else ':append') if op[0] == 'add' else ''))
                ctx.count('history:len=%d0s' % (len(ops) // 10))
                ctx.case({'history': hist_input(worlds, ops)['history']}, nontrivial=True, sample_every=401)
                ctx.evaluations += len(ops) - 1
                texts = [n for w in worlds for n in w.names] + [op[1] for op in ops if op[0] not in ('add', 'pop')] + [op[3] for op in ops if op[0] == 'add']
                reqs.append({'op': 'hist', 'fold': fold_table(texts), 'cwd': codes(base), 'cfg': None,
                             'sets': [{'files': [[codes(n), i] for n, i in zip(w.names, w.ids)], 'root': codes(w.root)} for w in worlds],
                             'ops': [[op[0], op[1], op[2], codes(op[3]), op[4]] if op[0] == 'add' else
                                     ['pop', op[1]] if op[0] == 'pop' else
                                     ['lookup' if op[0] == 'in' else op[0], codes(op[1])] for op in ops]})
                pend.append(([w.names for w in worlds], ops, obs))
            for w in worlds:
                w.close()
    finally:
        os.chdir(cwd0)
        shutil.rmtree(base, ignore_errors=True)
    if drv is None:
        return
    for (names, ops, obs), rep in zip(pend, drv.batch(reqs)):
        ctx.traces_vs_impl += 1
        if isinstance(rep, dict) and 'error' in rep:
            ctx.disagree({'sets': names, 'ops': ops}, None, rep['error'], 'driver error')
            continue
        for step, (op, a, b) in enumerate(zip(ops, obs, rep)):
            if op[0] == 'in':
                b = 'escape' if b == 'escape' else (b != 'notfound')
            elif op[0] in ('walk', 'walkrep'):
                b = canon_walk(b)
            if a != b:
                ctx.disagree({'sets': names, 'ops': ops[:step + 1]}, short(a), short(b), f'history step {step}: {op[0]}')
                break


# ----------------------------------------------------------------------------------------- main flow

def run_all(ctx, drv, fsmod):
    rng = ctx.rng
    base = os.path.realpath(tempfile.mkdtemp(prefix='c19_'))
    cwd0 = os.getcwd()
    os.chdir(base)
    try:
        sets = gen_sets(ctx)
        # batches of sets share one driver request (chains draw members from the batch)
        B = 6
        reqs, pend = [], []
        next_id = 0
        for bi in range(0, len(sets), B):
            batch = sets[bi:bi + B]
            worlds = []
            for j, (names, with_vpk) in enumerate(batch):
                ids = list(range(next_id, next_id + len(names)))
                next_id += len(names)
                worlds.append(World(fsmod, base, bi + j, names, ids, with_vpk))
            allnames = [n for w in worlds for n in w.names]
            # queries / folders: per world own, union for the request
            per_q = [gen_queries(w.names, rng) for w in worlds]
            per_d = [gen_folders(w.names, rng) for w in worlds]
            queries = list(dict.fromkeys(q for l in per_q for q in l))
            folders = list(dict.fromkeys(d for l in per_d for d in l))
            if len(queries) > 260:
                queries = queries[:130] + rng.sample(queries[130:], 130)
            if len(folders) > 120:
                folders = folders[:60] + rng.sample(folders[60:], 60)
            single_obs = []
            for wi, w in enumerate(worlds):
                o = {}
                desc = {'names': w.names}
                for kind in w.kinds():
                    fs = w.fs[kind]
                    lk = []
                    for q in queries:
                        r, extra = obs_lookup(fsmod, fs, q)
                        lk.append(r)
                        if extra:
                            ctx.disagree({'set': desc, 'backend': kind, 'q': q}, extra, None, 'fs[q] / q in fs / fs.open_bin(q) inconsistent')
                        ctx.count(f'lookup:{kind}:' + ('found' if isinstance(r, list) else r))
                    wk = [obs_walk(fsmod, fs, d) for d in folders]
                    for x in wk:
                        ctx.count(f'walk:{kind}:' + ('n=%d' % min(len(x), 4) if isinstance(x, list) else x))
                    o[kind] = {'lookup': lk, 'walk': wk}
                    tag = kind + '|' + '|'.join(w.names) + '|'
                    stored = set(w.names)
                    for q in queries:      # every (set, backend, query/folder) is a compared case
                        ctx.case(tag + 'q|' + q, nontrivial=len(w.names) >= 2 or q not in stored, sample_every=50021)
                    for d in folders:
                        ctx.case(tag + 'd|' + d, nontrivial=True, sample_every=50021)
                    # direct property
                    qdom = [q for n in w.names for q in spellings(n, rng)] + [q for q in ('nope.txt', 'nope/a.vmt') ] + \
                           [n + 'x' for n in w.names] + folders_of(w.names)
                    ddom = [''] + [s + t for d in folders_of(w.names) for s in spellings(d, rng, full=False) for t in ('', '/')] + \
                           [d[:-1] for d in folders_of(w.names) if len(d) > 1] + [d + 'x' for d in folders_of(w.names)] + ['nope']
                    if kind == 'R':
                        qdom = [q for q in qdom if q.replace('\\', '/') in w.names or q.replace('\\', '/').casefold() not in {n.casefold() for n in w.names}]
                        exact = set(folders_of(w.names))
                        fl = {d.casefold() for d in exact}
                        ddom = [d for d in ddom if norm_folder(d) in exact or norm_folder(d) == '' or norm_folder(d).casefold() not in fl]
                    check_single(ctx, w, kind, fsmod, desc, list(dict.fromkeys(qdom)), list(dict.fromkeys(ddom)))
                    ctx.case({'set': w.names, 'backend': kind}, nontrivial=len(w.names) >= 2, sample_every=211)
                single_obs.append(o)
                ctx.count('sets:size=%d' % min(len(w.names), 5))
            chains = gen_chains(ctx, worlds, rng, ctx.budget(5, 8))
            chain_obs = []
            cq = queries[:: max(1, len(queries) // 60)]
            cd = folders[:: max(1, len(folders) // 40)]
            for members in chains:
                chain, ok, seq = build_chain(fsmod, worlds, members, rng)
                desc = [[k, worlds[wi].names, pf] for k, wi, pf in members]
                if not ok:
                    ctx.disagree({'chain': desc}, [repr(s) for s in chain.systems], 'insertion order model', 'add_sys(priority=...) order')
                lk = [obs_lookup(fsmod, chain, q)[0] for q in cq]
                wrep, wded = [], []
                for d in cd:
                    class _R:  # walk_folder_repeat through the same observer
                        def __init__(s, c): s.c = c
                        def walk_folder(s, f): return s.c.walk_folder_repeat(f)
                    wrep.append(obs_walk(fsmod, _R(chain), d))
                    wded.append(obs_walk(fsmod, chain, d))
                chain_obs.append({'lookup': lk, 'walkrep': wrep, 'walk': wded})
                ctx.evaluations += len(lk) + 2 * len(cd) - 1
                ctx.count('chains:len=%d' % len(members))
                for r in lk:
                    ctx.count('chain:lookup:' + ('found' if isinstance(r, list) else r))
                # direct property over chain-relative names
                rel_q, rel_d = [], ['']
                for k, wi, pf in members:
                    p = norm_folder(pf).casefold()
                    for n in worlds[wi].names:
                        if in_folder(p, n.casefold()):
                            r_ = n[len(p) + 1:] if p else n
                            rel_q += [r_, r_.swapcase(), r_.replace('/', '\\')]
                            rel_d += folders_of([r_])
                check_chain(ctx, fsmod, worlds, members, chain, list(dict.fromkeys(rel_q + ['nope.txt'])), list(dict.fromkeys(rel_d)), desc,
                            build=[[i, bool(pr)] for i, pr in seq])
                ctx.case({'chain': desc}, nontrivial=True, sample_every=97)
            reqs.append({'op': 'fs', 'fold': fold_table(allnames + queries + folders + [pf for m in chains for _, _, pf in m]),
                         'cwd': codes(base), 'cfg': None,
                         'sets': [{'files': [[codes(n), i] for n, i in zip(w.names, w.ids)], 'root': codes(w.root)} for w in worlds],
                         'queries': [codes(q) for q in queries], 'folders': [codes(d) for d in folders],
                         'single': list(range(len(worlds))),
                         'chains': [[[k, wi, codes(pf)] for k, wi, pf in m] for m in chains],
                         })
            pend.append((worlds, queries, folders, single_obs, chains, chain_obs, cq, cd))
            for w in worlds:
                w.close()
        if drv is None:
            return
        # chains use sub-sampled queries: send those as separate requests
        creqs = []
        for (worlds, queries, folders, single_obs, chains, chain_obs, cq, cd), r in zip(pend, reqs):
            c = dict(r)
            c['queries'] = [codes(q) for q in cq]
            c['folders'] = [codes(d) for d in cd]
            c['single'] = []
            creqs.append(c)
            r['chains'] = []
        reps = drv.batch(reqs + creqs)
        n = len(reqs)
        for (worlds, queries, folders, single_obs, chains, chain_obs, cq, cd), rep, crep in zip(pend, reps[:n], reps[n:]):
            if 'error' in rep or 'error' in crep:
                ctx.disagree({'sets': [w.names for w in worlds]}, None, rep.get('error') or crep.get('error'), 'driver error')
                continue
            for w, o, m in zip(worlds, single_obs, rep['single']):
                for kind in w.kinds():
                    ctx.traces_vs_impl += 1
                    for q, a, b in zip(queries, o[kind]['lookup'], m[kind]['lookup']):
                        if a != b:
                            ctx.disagree({'set': w.names, 'backend': kind, 'query': q}, short(a), short(b), f'{kind} lookup')
                    for d, a, b in zip(folders, o[kind]['walk'], m[kind]['walk']):
                        if a != canon_walk(b):
                            ctx.disagree({'set': w.names, 'backend': kind, 'folder': d}, short(a), short(canon_walk(b)), f'{kind} walk_folder')
            for members, o, m in zip(chains, chain_obs, crep['chains']):
                ctx.traces_vs_impl += 1
                desc = [[k, worlds[wi].names, pf] for k, wi, pf in members]
                for q, a, b in zip(cq, o['lookup'], m['lookup']):
                    if a != b:
                        ctx.disagree({'chain': desc, 'query': q}, short(a), short(b), 'chain lookup')
                for key in ('walkrep', 'walk'):
                    for d, a, b in zip(cd, o[key], m[key]):
                        if a != canon_walk(b):
                            ctx.disagree({'chain': desc, 'folder': d}, short(a), short(canon_walk(b)), 'chain ' + key)
    finally:
        os.chdir(cwd0)
        shutil.rmtree(base, ignore_errors=True)


def run_dups(ctx, drv, fsmod):
    """Case-duplicate names: Virtual and Zip keep the later value at the first position (Python dict)."""
    rng = ctx.rng
    reqs, pend = [], []
    for _ in range(ctx.budget(60, 600)):
        names = []
        for _ in range(rng.randrange(2, 6)):
            n = rng.choice(UNIVERSE)
            names.append(rng.choice([n, n.upper(), n.lower(), n.swapcase()]))
        names = list(dict.fromkeys(names))
        ids = list(range(len(names)))
        data = {n: b'id=%d' % i for n, i in zip(names, ids)}
        V = fsmod.VirtualFileSystem(dict(data))
        buf = io.BytesIO()
        with zipfile.ZipFile(buf, 'w') as z:
            for n in names:
                z.writestr(n, data[n])
        Z = fsmod.ZipFileSystem('<mem>', zipfile.ZipFile(buf))
        queries = gen_queries(names, rng)[:80]
        folders = gen_folders(names, rng)[:40]
        o = {}
        for kind, fs in (('V', V), ('Z', Z)):
            o[kind] = {'lookup': [obs_lookup(fsmod, fs, q)[0] for q in queries], 'walk': [obs_walk(fsmod, fs, d) for d in folders]}
        ctx.case({'dups': names}, nontrivial=True, sample_every=53)
        ctx.count('sets:case-duplicates')
        reqs.append({'op': 'fs', 'fold': fold_table(names + queries + folders), 'cwd': codes('/'), 'cfg': None,
                     'sets': [{'files': [[codes(n), i] for n, i in zip(names, ids)], 'root': codes('/r')}],
                     'queries': [codes(q) for q in queries], 'folders': [codes(d) for d in folders], 'single': [0], 'chains': []})
        pend.append((names, queries, folders, o))
    if drv is None:
        return
    for (names, queries, folders, o), rep in zip(pend, drv.batch(reqs)):
        m = rep['single'][0]
        for kind in 'VZ':
            ctx.traces_vs_impl += 1
            for q, a, b in zip(queries, o[kind]['lookup'], m[kind]['lookup']):
                if a != b:
                    ctx.disagree({'set': names, 'backend': kind, 'query': q}, short(a), short(b), f'{kind} lookup (case-duplicate names)')
            for d, a, b in zip(folders, o[kind]['walk'], m[kind]['walk']):
                if a != canon_walk(b):
                    ctx.disagree({'set': names, 'backend': kind, 'folder': d}, short(a), short(canon_walk(b)), f'{kind} walk_folder (case-duplicate names)')


def correspond(ctx, drivers):
    import srctools.filesys as fsmod
    drv = drivers['drv_c19']
    cfg = drv.batch([{'op': 'cfg'}])[0]
    ctx.extra['walk_cfg_in_source'] = dict(zip(['virtRootFix', 'sepMatch', 'foldMatch'], cfg))
    run_all(ctx, drv, fsmod)
    run_dups(ctx, drv, fsmod)
    run_histories(ctx, drv, fsmod)
    ctx.extra['_ran'] = True


def search(ctx):
    """The direct statement of the property is evaluated inside correspond on the same worlds (check_single /
    check_chain); without a driver it runs here alone."""
    import srctools.filesys as fsmod
    if not ctx.extra.pop('_ran', False):
        run_all(ctx, None, fsmod)
        run_histories(ctx, None, fsmod)
    # order witnesses: smallest set first
    def size(w):
        i = w['input']
        s = i.get('set', {}).get('names') if isinstance(i.get('set'), dict) else None
        return (len(s) if s else 99, len(str(i)))
    ctx.witnesses.sort(key=size)
    shrink_history(ctx, fsmod)


def _history_fails(fsmod, hist):
    """-> list of (key, what, step) the history produces on the implementation."""
    base = os.path.realpath(tempfile.mkdtemp(prefix='c19hr_'))
    cwd0 = os.getcwd()
    os.chdir(base)
    out = []
    try:
        worlds, nid = [], 0
        for j, names in enumerate(hist['sets']):
            worlds.append(World(fsmod, base, j, names, list(range(nid, nid + len(names))), all(ord(ch) < 128 for n in names for ch in n)))
            nid += len(names)
        ops = [op for op in hist['ops'] if op[0] != 'add' or op[1] in worlds[op[2]].fs]
        run_history(fsmod, worlds, ops, lambda key, what, step, op: out.append((key, what, step)))
        for w in worlds:
            w.close()
    finally:
        os.chdir(cwd0)
        shutil.rmtree(base, ignore_errors=True)
    return out


def shrink_history(ctx, fsmod):
    """ddmin over the operations of the first history witness that is not the open finding."""
    from common import ddmin
    for w in ctx.witnesses:
        inp = w['input']
        if 'history' in inp and w['key'] != 'chain-walk-prefix-case':
            hist = inp['history']
            key = w['key']
            fails = lambda ops: any(k == key for k, _, _ in _history_fails(fsmod, {'sets': hist['sets'], 'ops': ops}))
            if fails(hist['ops']):
                small = ddmin(hist['ops'], fails, budget=120)
                res = [x for x in _history_fails(fsmod, {'sets': hist['sets'], 'ops': small}) if x[0] == key]
                inp['shrunk_ops'] = small
                if res:
                    w['what'] += f' (shrunk history: {small}: {res[0][1]})'
            break


def _replay_input(fsmod, inp, verbose=False):
    """True = property holds on this input."""
    if 'history' in inp:
        hist = dict(inp['history'])
        if inp.get('shrunk_ops'):
            hist['ops'] = inp['shrunk_ops']
        res = [x for x in _history_fails(fsmod, hist) if x[0] != 'chain-walk-prefix-case' or inp.get('key') == 'chain-walk-prefix-case']
        if verbose:
            for k, what, step in res:
                print(what)
        return not res
    class C:  # a throw-away collector with the Ctx.witness interface
        def __init__(s): s.w = []
        def witness(s, key, what, i): s.w.append((key, what))
        def count(s, *a): pass
    c = C()
    base = os.path.realpath(tempfile.mkdtemp(prefix='c19r_'))
    try:
        if 'set' in inp:
            names = inp['set']['names']
            w = World(fsmod, base, 0, names, list(range(len(names))), all(ord(ch) < 128 for n in names for ch in n))
            kind = inp['backend']
            if kind in w.fs:
                check_single(c, w, kind, fsmod, inp['set'], [inp['query']] if 'query' in inp else [], [inp['folder']] if 'folder' in inp else [])
            w.close()
        elif 'chain' in inp:
            worlds, members, nid = [], [], 0
            for k, names, pf in inp['chain']:
                worlds.append(World(fsmod, base, len(worlds), names, list(range(nid, nid + len(names))), k == 'P'))
                nid += len(names)
                members.append((k, len(worlds) - 1, pf))
            if inp.get('build'):
                chain = fsmod.FileSystemChain()
                for i, prio in inp['build']:      # the add_sys calls (member index of the intended order, priority flag)
                    k, wi, pf = members[i]
                    chain.add_sys(worlds[wi].fs[k], pf, priority=prio)
            else:
                chain = fsmod.FileSystemChain(*[(worlds[wi].fs[k], pf) for k, wi, pf in members])
            check_chain(c, fsmod, worlds, members, chain, [inp['query']] if 'query' in inp else [], [inp['folder']] if 'folder' in inp else [], inp['chain'])
            for w in worlds:
                w.close()
    finally:
        shutil.rmtree(base, ignore_errors=True)
    if verbose:
        for k, what in c.w:
            print(what)
    return not c.w


def replay(ctx, payload):
    import srctools.filesys as fsmod
    inp = payload.get('input') or {}
    if 'set' not in inp and 'chain' not in inp and 'history' not in inp:
        print('replay file names a broken obligation/correspondence, no input to replay:', payload.get('broken_obligations') or payload.get('broken'),
              payload.get('disagreements', [])[:1])
        return False
    return _replay_input(fsmod, inp, verbose=True)


def replay_known(ctx, finding):
    import srctools.filesys as fsmod
    return not _replay_input(fsmod, finding['witness'])


LEVEL_TEXT = ("Theorems proved in Lean over Python-dict semantics for every file set, query and folder: C19_same_dict / C19_agree (Virtual, Zip "
              "and VPK lookups return the same file for every query that is a case/slash spelling of a normalised name), C19_agree_raw / "
              "C19_agree_all (the directory backend finds every exactly-spelled stored name, and all four return the same file), C19_walk_zip / "
              "C19_walk_virtual / C19_walk_vpk (after the fixes walk_folder lists exactly the stored names inside the folder, '' meaning all), "
              "C19_walk_sound_* (every listed name looks up to that file), C19_chain_walk / C19_chain_walk_sound (a chain walk lists exactly each "
              "member's names inside prefix/d relative to the prefix, under PrefixExact, and each listed name looks up through the chain to "
              "that member's content unless shadowed by an earlier member), C19_history / C19_history_append (a chain object has no memory "
              "across add_sys / systems.pop / queries), C19_chain / C19_chain_first / C19_priority (a chain returns the first "
              "member that has prefix/name; priority insertion wins), C19_dedup (the de-duplicated walk is a sub-list with no two paths equal "
              "up to case and represents every path), C19_walk_bugs (the three original walk defects as model facts). C19_gen_ok re-checks on "
              "every run that the source's three walk_folder methods have the fixed shape. Model tied to the code by differential runs on file "
              "sets materialised as dict, zip, VPK and directory. Open: chain walk with a member prefix in another case (known finding).")
LEVEL_NOTE = ("Trusted: Lean kernel + propext/Classical.choice/Quot.sound; tools/gen_fswalk.py, tools/gen_fsys.py; the correspondence harness; "
              "zipfile/srctools.vpk as containers. Windows path rules and VPK's ext/dir grouping order are not modelled.")
TECHNIQUE = "Lean 4 proofs over a Python-dict model of four backends + translator for the folder-matching shape + differential correspondence on materialised file sets"
DESIGN_REF = "DESIGN.md section 6, C19"
