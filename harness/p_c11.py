"""C11 — every BSP lump writer is the inverse of its reader."""
import os, re, json, struct, random, tempfile, shutil, itertools, traceback, sys
import common
from common import VERIF
import c11_world as W
import c11_xref

PID = 'C11'
GENS = ['bspfmt']
DRIVERS = ['drv_c11']
PROPS = 'Srctools.Props.C11'
RULE = ("worlds: for each of the 7 BSP configurations (v19, v20, v21, L4D2 header order, INFRA, Chaos v25, VitaminSource) x each "
        "of the 13 static-prop versions (quick: the full 7 x 13 product once; thorough: ten times, sizes 1..4; plus extra worlds per "
        "configuration until every view has been non-empty there) a consistent object graph for all 20 structured views is generated "
        "(list sizes 0..4, an all-empty world, float32-exact numbers incl. -0.0/denormal/max, every enum member, random flag "
        "subsets incl. all-bits, for every kind of object an EQUAL-but-distinct twin and a twin that agrees on the likely de-duplication key "
        "(material / model / texture name incl. case variants, geometry, referenced objects) but differs elsewhere, shared sub-objects: faces sharing planes/texinfo/orig faces/edge slices, slices running past the "
        "end of a shared list plus fresh objects, entities sharing a brush model, leafs sharing faces/brushes), assigned, saved, "
        "re-opened and compared field by field (deep canonical dump); a case = one (configuration, prop version, world seed); "
        "about a third of the worlds (all, thorough) are run a second time as a HISTORY: the file of a first world is loaded, every view "
        "accessed (filling the object's caches: _texdata, out_comma_sep, static_prop_version, parsed lists), create_texinfo()/TexInfo.set() "
        "are called on known and new materials, then a second world that re-uses the file's texture / material / model names (same and "
        "other case) with different contents — and some of the loaded objects themselves — is assigned under another static-prop version, "
        "saved, re-read and compared; the writers' bytes are compared with the model, which has no input but the assigned value. "
        "non-trivial = at least one non-empty view. struct layer: every extracted format string x boundary/random/out-of-range/"
        "wrong-arity value tuples against CPython struct. RLE: all byte strings over {0,1,255} of length <= 7 (8 thorough), zero "
        "runs around 255/510/765, random; decoder also on arbitrary streams with start/max_clusters. index builders: random "
        "call sequences with identity and modular keys. Out-of-range probes: one field per record pushed past its on-disk range, "
        "names longer than the field, too many overlay faces — an exception or an exact round trip is required; after an exception the value is "
        "repaired in place and the same object must save correctly. Argument forms: each view's value is also assigned as tuple / generator / "
        "iter() / map / filter / custom Iterable / custom Sequence / deque; for the forms a writer accepts as coded (table ACCEPTED_FORMS, "
        "established by experiment) the saved file must be byte-identical to the list form.")
TRUSTED = [
    "models: lean/Srctools/Model/StructCodec.lean (struct pack/unpack), Model/C11.lean (RLE, find_or_insert/extend closures, texture "
    "table, visibility lump, name dictionary, static-prop record segments); format strings, layout tables, static-prop version "
    "table, guards and the find_or_extend bound are regenerated from bsp.py/binformat.py by tools/gen_bspfmt.py",
    "harness/c11_world.py: synthesised base BSP files, world generator, canonical dump used by the round-trip oracle; the glue "
    "that lays out a static-prop record / model dictionary for the byte comparison repeats the writer's field order in Python",
    "floats are carried as binary32 bit patterns in the model; CPython's double->float32 rounding and its OverflowError for "
    "floats too large for 'f' are not modelled",
]
NOT_MODELLED = [
    "entities lump: model Model/C11Ent.lean with the round-trip theorem C11_ents (lexing via C02/C01 lemmas + the reader loop) and the "
    "Output.parse split (C11_ents_outputs); '%g' / str() number formatting, float()/int() parsing and parse_name of vmf.py are not modelled",
    "faces/hdr_faces/orig_faces (non-Vitamin), brushes+brushsides, nodes, leafs+leaffaces+leafbrushes+mindist, texinfo+texdata+texture names, "
    "primitives+primindices+primverts, overlays+fades+levels, surfedges+edges: modelled as coded over object numbers with the writers' "
    "find_or_insert/find_or_extend closures (Model/C11Lumps.lean), round-trip theorems C11_faces/_brushes/_nodes/_leafs/_texinfo/_primitives/"
    "_overlays/_surfedges/_bmodels/_water/_vfaces/_detail_props/_prop_leafs; every run byte-compares what each of these writers produced (main and side lumps, tables afterwards) with the model",
    "planes, vertexes, cubemaps, leafmindisttowater, overlay fades/levels, texture name table, texdata table, visibility lump, static-prop lump: "
    "byte-compared with the model encoders on every explored world (record-level theorems listed in docs/notes/C11.md)",
    "brush models + PHYSCOLLIDE stream, water leaf info, detail props (records, sprite table, model dictionary), static-prop model / leaf-index "
    "arrays, VitaminSource faces and the overlay byte layer are modelled as well (C11_bmodels, C11_water, C11_detail_props, C11_prop_leafs, "
    "C11_vfaces, C11_overlay_bytes) and byte-compared per writer; NOT modelled: the text of the physics keyvalues (opaque bytes: C01), the "
    "framing of the two game lumps beyond counts (composed in the driver), Output number formatting / parsing (vmf.py)",
    "pakfile lump (zipfile), LZMA-compressed lumps, lump header table and game-lump directory: property C10",
    "Cython-free: bsp.py has no Cython twin",
]
ASSUMPTIONS = [
    "well-formed values: numbers stored in float fields are binary32-exact; Vec components stored in integer fields (node/leaf bounds outside the "
    "Chaos layout, cubemap origin, prop tint) are integer-valued (the writers apply int()/round()); angles are already reduced to [0,360)",
    "split faces (faces/hdr_faces lumps) reference an orig face and a texinfo (None is written as -1, which the reader uses as a Python "
    "index from the end); faces sharing an orig face share texinfo and hammer id; hammer ids are non-zero ints; faces and hdr_faces are "
    "position-aligned (one FACEIDS array); orig faces carry the texinfo/id of their split faces (the reader copies them over)",
    "entity values contain no 0x1b, not exactly four commas, and are not the single NUL (reader heuristics: such a value is taken "
    "for an output / the end marker); keys and values are ASCII or surrogate-escaped bytes; output fields do not contain the separator in use, quotes or ';'; output delays have at "
    "most 6 significant digits ('%g')",
    "flag values use bits 0..30 (BSPContents/SurfFlags are packed as signed 'i': bit 31 is rejected with struct.error — an error, "
    "not a truncation); VisLeaf.area <= 255; static-prop flags beyond what the version stores are not generated",
    "on re-read BSP.static_prop_version is preset for the field comparison; auto-detection from (header version, record size) is checked "
    "separately for every version except V11/Black-Mesa (11, 80 bytes: ambiguous by design, resolved by the BSP version)",
    "native-order formats ('i', 'ii', 'fff', 'H'*n) are laid out like '<' ones: little-endian machine, checked at run time",
    "history worlds: BSP.out_comma_sep and BSP.static_prop_version are documented knobs and are set together with ents / props; the brush "
    "model view (keyed by the entity objects of ents) is replaced together with ents once it has been parsed",
    "model names end in a non-NUL byte (the reader strips trailing NULs of the 128-byte field)",
]
LEVEL_TEXT = ("Lean theorems for all inputs: struct pack/unpack round trip and rejection (never truncation) of out-of-range integers for every "
              "format, record arrays, RLE encode/decode round trip (plain and with max_clusters inside a stream of rows), find_or_insert / "
              "find_or_extend index correctness with list-prefix preservation, guarded 128-byte name fields; decide-obligations on tables "
              "regenerated from bsp.py on every run: all formats parse, reader format = writer format for every lump record in every layout, "
              "overlay record per face count, static-prop record reader = writer = declared size in all 13 versions, every name pack site "
              "guarded, find_or_extend bounded, isinstance order. Entity lump (C11_ents) and the lumps with cross references (faces, brushes, nodes, "
              "leafs, texinfo, primitives, overlays, surfedges) have writer-as-coded / reader-as-coded models over object numbers with "
              "round-trip theorems; each writer's bytes and tables are compared with the model on every generated world, and all 20 views are "
              "saved, re-read and compared for all layouts and prop versions.")
LEVEL_NOTE = ("Trusted: Lean kernel + propext/Classical.choice/Quot.sound; tools/gen_bspfmt.py; harness generators/dumps. Not modelled: "
              "physics keyvalues text (C01), vmf.py number formatting, "
              "CPython float32 rounding, zip/LZMA.")
TECHNIQUE = "Lean 4 proofs (induction over formats, byte lists, call sequences) + translator-generated decide obligations + differential correspondence and round-trip search on synthesised BSPs"
DESIGN_REF = "DESIGN.md section 6, C11"


# =============================================================================== helpers

def _gen_formats():
    """Format strings of Gen/Bspfmt.lean (List Char literals)."""
    txt = (VERIF / 'lean/Srctools/Gen/Bspfmt.lean').read_text(encoding='utf-8')
    out = set()
    for m in re.finditer(r"\[('(?:[^'\\]|\\.)'(?:, '(?:[^'\\]|\\.)')*)\]", txt):
        s = ''.join(c[1:-1] for c in re.findall(r"'(?:[^'\\]|\\.)'", m.group(1)))
        if re.fullmatch(r'[<]?[0-9a-zA-Z? ]+', s) and re.search(r'[bBhHiIlLqQfd?sx]', s) and not re.fullmatch(r'V[0-9A-Za-z_]*', s):
            out.add(s)
    return sorted(out)


_CODE_RANGE = {'b': (-128, 127), 'B': (0, 255), 'h': (-2**15, 2**15 - 1), 'H': (0, 2**16 - 1), 'i': (-2**31, 2**31 - 1),
               'I': (0, 2**32 - 1), 'l': (-2**31, 2**31 - 1), 'L': (0, 2**32 - 1), 'q': (-2**63, 2**63 - 1), 'Q': (0, 2**64 - 1)}


def _fields(fmt):
    """[(code, count)] of a format string (value fields only; s keeps its length)."""
    out = []
    for cnt, code in re.findall(r'(\d*)([a-zA-Z?])', fmt.lstrip('<')):
        n = int(cnt) if cnt else 1
        if code == 'x':
            continue
        if code == 's':
            out.append(('s', n))
        else:
            out += [(code, 1)] * n
    return out


def _rand_vals(rng, fmt, mode):
    """value tuple for struct.pack; mode: ok / edge / oob (one integer out of range) / arity"""
    fs = _fields(fmt)
    vals = []
    ints = [i for i, (c, _) in enumerate(fs) if c in _CODE_RANGE]
    bad = rng.choice(ints) if (mode == 'oob' and ints) else None
    for i, (c, n) in enumerate(fs):
        if c in _CODE_RANGE:
            lo, hi = _CODE_RANGE[c]
            if i == bad:
                vals.append(rng.choice([hi + 1, lo - 1, hi + rng.randrange(1, 1 << 20), lo - rng.randrange(1, 1 << 20), 1 << 70, -(1 << 70)]))
            elif mode == 'edge':
                vals.append(rng.choice([lo, hi, 0, 1, max(lo, -1)]))
            else:
                vals.append(rng.randrange(lo, hi + 1))
        elif c == 'f':
            vals.append(W.rand_f32(rng))
        elif c == 'd':
            vals.append(rng.choice([0.0, -0.0, 1.5, 1e300, -2.5e-300, rng.random()]))
        elif c == '?':
            vals.append(rng.choice([True, False, 0, 1, 2, -1]))
        elif c == 's':
            ln = rng.choice([n, n, 0, max(0, n - 1), n + 1, n + rng.randrange(0, 9)])
            vals.append(bytes(rng.randrange(256) for _ in range(ln)))
    if mode == 'arity':
        if vals and rng.random() < 0.5:
            vals.pop()
        else:
            vals.append(0)
    return vals


def _jval(code, v):
    if code in _CODE_RANGE:
        return {'b': v} if isinstance(v, bool) else {'i': v}
    if code == 'f':
        return {'f': W.f32bits(v)}
    if code == 'd':
        return {'d': struct.unpack('<Q', struct.pack('<d', v))[0]}
    if code == '?':
        return {'b': v} if isinstance(v, bool) else {'i': v}
    return {'s': list(v)}


def _jvals(fmt, vals):
    fs = _fields(fmt)
    out = []
    for i, v in enumerate(vals):
        code = fs[i][0] if i < len(fs) else 'i'
        out.append(_jval(code, v))
    return out


def _unjval(j):
    if 'i' in j:
        return j['i']
    if 'b' in j:
        return j['b']
    if 'f' in j:
        return ('f', j['f'])
    if 'd' in j:
        return ('d', j['d'])
    return bytes(j['s'])


def _py_unpacked(fmt, tup):
    fs = _fields(fmt)
    out = []
    for (c, _), v in zip(fs, tup):
        if c == 'f':
            out.append(('f', W.f32bits(v)))
        elif c == 'd':
            out.append(('d', struct.unpack('<Q', struct.pack('<d', v))[0]))
        else:
            out.append(v)
    return out


# =============================================================================== correspondence parts

def _corr_struct(ctx, drv):
    rng = ctx.rng
    fmts = _gen_formats()
    ctx.extra['formats'] = len(fmts)
    if sys.byteorder != 'little':
        ctx.broken.append('native byte order is not little-endian: prefix-less formats are not modelled')
    reqs, meta = [], []
    per = ctx.budget(24, 120)
    for fmt in fmts:
        if not fmt.startswith('<') and struct.calcsize(fmt) != struct.calcsize('<' + fmt):
            ctx.disagree({'fmt': fmt}, struct.calcsize(fmt), struct.calcsize('<' + fmt), 'native size differs from standard size')
        for k in range(per):
            mode = ['ok', 'edge', 'oob', 'arity', 'ok', 'edge'][k % 6]
            vals = _rand_vals(rng, fmt, mode)
            try:
                b = struct.pack(fmt, *vals)
                impl = {'r': list(b)}
            except (struct.error, OverflowError, TypeError) as e:
                impl = {'err': type(e).__name__}
                b = None
            reqs.append({'op': 'pack', 'fmt': common.codes(fmt), 'vals': _jvals(fmt, vals)})
            meta.append(('pack', fmt, mode, vals, impl))
            if b is not None:
                reqs.append({'op': 'unpack', 'fmt': common.codes(fmt), 'd': list(b)})
                meta.append(('unpack', fmt, mode, vals, _py_unpacked(fmt, struct.unpack(fmt, b))))
                # the property at the struct level, on the implementation: in-range ints are never altered
                back = struct.unpack(fmt, b)
                for (c, n), v, r in zip(_fields(fmt), vals, back):
                    if c in _CODE_RANGE and int(v) != r:
                        ctx.witness('struct-int-altered', f'struct.pack({fmt!r}) altered integer {v} -> {r}', {'fmt': fmt, 'vals': repr(vals)})
            # wrong buffer size
            if b is not None and k % 6 == 0:
                d = list(b) + [0]
                reqs.append({'op': 'unpack', 'fmt': common.codes(fmt), 'd': d})
                meta.append(('unpack-size', fmt, mode, vals, None))
    replies = drv.batch(reqs)
    for (kind, fmt, mode, vals, impl), rep in zip(meta, replies):
        case = {'fmt': fmt, 'mode': mode, 'kind': kind}
        ctx.case({'fmt': fmt, 'vals': repr(vals), 'kind': kind}, nontrivial=True, sample_every=4001)
        ctx.count(f'struct:{kind}:{mode}')
        ctx.traces_vs_impl += 1
        if kind == 'pack':
            if ('err' in impl) != ('err' in rep) or ('r' in impl and impl['r'] != rep.get('r')):
                ctx.disagree(dict(case, vals=repr(vals)), impl, rep, 'struct.pack')
            if 'err' in impl:
                ctx.count('struct:error:' + mode)
        elif kind == 'unpack':
            got = [_unjval(j) for j in rep.get('vals', [])] if 'vals' in rep else rep
            if got != impl:
                ctx.disagree(dict(case, vals=repr(vals)), repr(impl), repr(got), 'struct.unpack')
        else:
            if 'err' not in rep:
                ctx.disagree(case, 'struct.error', rep, 'struct.unpack wrong size')


def _rle_inputs(ctx):
    rng = ctx.rng
    L = ctx.budget(7, 8)
    for n in range(L + 1):
        for t in itertools.product((0, 1, 255), repeat=n):
            yield bytes(t)
    for run in (254, 255, 256, 257, 509, 510, 511, 512, 765, 766, 1000):
        yield bytes(run)
        yield b'\x07' + bytes(run)
        yield bytes(run) + b'\x09'
        yield bytes(run) + b'\x01' + bytes(run // 2)
    for _ in range(ctx.budget(1500, 20000)):
        n = rng.randrange(0, 80)
        p0 = rng.choice([0.1, 0.5, 0.9, 0.99])
        yield bytes(0 if rng.random() < p0 else rng.randrange(1, 256) for _ in range(n))


def _corr_rle(ctx, drv):
    from srctools.bsp import runlength_encode, runlength_decode
    rng = ctx.rng
    reqs, meta = [], []
    for d in _rle_inputs(ctx):
        enc = bytes(runlength_encode(d))
        try:
            dec = bytes(runlength_decode(enc))
        except Exception as e:
            dec = None
            ctx.witness('rle-roundtrip', f'runlength_decode(runlength_encode(d)) raised {type(e).__name__}', {'d': list(d)})
        if dec is not None and dec != d:
            ctx.witness('rle-roundtrip', f'runlength_decode(runlength_encode(d)) != d for d={d[:40]!r}…', {'d': list(d)})
        # the max_clusters form, embedded in a stream
        pre = bytes(rng.randrange(256) for _ in range(rng.randrange(0, 5)))
        post = bytes(runlength_encode(bytes(rng.choice([0, 3]) for _ in range(rng.randrange(0, 6)))))
        if d:
            mc = len(d) * 8 - rng.randrange(0, 8)
            try:
                dec2 = bytes(runlength_decode(pre + enc + post, len(pre), mc))
            except Exception as e:
                dec2 = None
            if dec2 != d:
                ctx.witness('rle-roundtrip-clusters', f'runlength_decode(pre+enc(d)+rows, {len(pre)}, {mc}) != d', {'d': list(d), 'pre': list(pre), 'post': list(post), 'mc': mc})
            reqs.append({'op': 'rle_dec', 'd': list(pre + enc + post), 'start': len(pre), 'max': mc})
            meta.append(('dec', pre + enc + post, {'r': list(dec2)} if dec2 is not None else {'err': 'truncated'}))
        reqs.append({'op': 'rle_enc', 'd': list(d)})
        meta.append(('enc', d, {'r': list(enc)}))
        ctx.case({'rle': list(d[:64]), 'n': len(d)}, nontrivial=(0 in d), sample_every=2003)
        ctx.count('rle:len<=8' if len(d) <= 8 else 'rle:long')
    # decoder on arbitrary streams
    for _ in range(ctx.budget(3000, 30000)):
        s = bytes(rng.choice([0, 0, 1, 2, 255, rng.randrange(256)]) for _ in range(rng.randrange(0, 14)))
        start = rng.choice([0, 0, 1, 2, len(s), len(s) + 1])
        mc = rng.choice([None, 0, 1, 8, 9, 17, 64])
        try:
            r = {'r': list(runlength_decode(s, start, -1 if mc is None else mc))}
        except IndexError:
            r = {'err': 'truncated'}
        reqs.append({'op': 'rle_dec', 'd': list(s), 'start': start, 'max': mc})
        meta.append(('dec', s, r))
        ctx.count('rle:decode-arbitrary' + (':error' if 'err' in r else ''))
    for (kind, d, impl), rep in zip(meta, drv.batch(reqs)):
        ctx.traces_vs_impl += 1
        if rep != impl:
            ctx.disagree({'rle': kind, 'd': list(d[:80])}, impl if len(str(impl)) < 400 else str(impl)[:400], rep if len(str(rep)) < 400 else str(rep)[:400], 'runlength_' + kind)


def _finder_cases(ctx):
    rng = ctx.rng
    for _ in range(ctx.budget(1500, 15000)):
        m = rng.choice([0, 0, 2, 3, 5])
        vals = rng.choice([3, 5, 9])
        init = [rng.randrange(vals) for _ in range(rng.randrange(0, 7))]
        yield m, init, [rng.randrange(vals) for _ in range(rng.randrange(0, 8))], \
            [[rng.randrange(vals) for _ in range(rng.randrange(0, 4))] for _ in range(rng.randrange(0, 6))]
    # the tail-overrun shape
    yield 0, [1, 2], [], [[2, 3]]
    yield 0, [1, 2, 3], [], [[3, 1], [3, 1, 4]]


def _check_foe_impl(ctx, m, init, calls):
    """find_or_extend / find_or_insert: the property on the implementation."""
    from srctools.binformat import find_or_extend, find_or_insert
    key = (lambda x: x) if m == 0 else (lambda x: x % m)
    l = list(init)
    f = find_or_extend(l, key)
    idx = []
    for items in calls:
        before = list(l)
        i = f(list(items))
        idx.append(i)
        if l[:len(before)] != before:
            ctx.witness('find_or_extend-prefix', 'find_or_extend changed existing entries', {'mod': m, 'init': init, 'calls': calls})
        if items and [key(x) for x in l[i:i + len(items)]] != [key(x) for x in items]:
            ctx.witness('find_or_extend-overrun',
                        f'find_or_extend({before}, key mod {m})({items}) returned {i} but list[{i}:{i + len(items)}] = {l[i:i + len(items)]}',
                        {'mod': m, 'init': init, 'calls': calls})
    return idx, l


def _corr_finders(ctx, drv):
    from srctools.binformat import find_or_insert
    reqs, meta = [], []
    for m, init, calls1, calls2 in _finder_cases(ctx):
        key = (lambda x: x) if m == 0 else (lambda x, m=m: x % m)
        l = list(init)
        f = find_or_insert(l, key)
        idx = []
        for x in calls1:
            i = f(x)
            idx.append(i)
            if not (0 <= i < len(l) and key(l[i]) == key(x)) or l[:len(init)] != init:
                ctx.witness('find_or_insert-index', f'find_or_insert: list[{i}] does not have the key of {x}', {'mod': m, 'init': init, 'calls': calls1})
        reqs.append({'op': 'foi', 'mod': m, 'init': init, 'calls': calls1})
        meta.append(('foi', (m, init, calls1), {'idx': idx, 'list': l}))
        idx2, l2 = _check_foe_impl(ctx, m, init, calls2)
        reqs.append({'op': 'foe', 'mod': m, 'bounded': None, 'init': init, 'calls': calls2})
        meta.append(('foe', (m, init, calls2), {'idx': idx2, 'list': l2}))
        ctx.case({'finder': [m, init, calls1, calls2]}, nontrivial=bool(calls1 or calls2), sample_every=1009)
        ctx.count('finders:identity-key' if m == 0 else 'finders:modular-key')
    for (kind, case, impl), rep in zip(meta, drv.batch(reqs)):
        ctx.traces_vs_impl += 1
        if rep != impl:
            ctx.disagree({'op': kind, 'case': case}, impl, rep, 'find_or_insert' if kind == 'foi' else 'find_or_extend')


# =============================================================================== worlds (round trip + lump bytes)

def _plan(ctx):
    """(config, prop version, size, empty) tuples."""
    from srctools.bsp import StaticPropVersion
    vers = [v.name for v in StaticPropVersion if v.name not in ('UNKNOWN', 'DEFAULT')]
    cfgs = [c[0] for c in W.CONFIGS]
    plan = []
    if ctx.thorough:
        for rep in range(10):
            for c in cfgs:
                for v in vers:
                    plan.append((c, v, 1 + (rep + len(plan)) % 4, False))
    else:
        for c in cfgs:
            for v in vers:
                plan.append((c, v, 2 + (len(plan) % 3), False))
    for c in cfgs:
        plan.append((c, 'V5' if c != 'chaos' else 'V_CHAOS_V13', 1, True))
    return plan


def _next_prop_version(pv):
    from srctools.bsp import StaticPropVersion
    vers = [v.name for v in StaticPropVersion if v.name not in ('UNKNOWN', 'DEFAULT')]
    return vers[(vers.index(pv) + 5) % len(vers)]


def _load_and_touch(path, cfg, w1, rng):
    """History for the second round: open the file written in the first round, ACCESS every view (parsing it and filling
    whatever the BSP object caches: `_texdata`, `out_comma_sep`, `static_prop_version`, the parsed lists themselves), and use
    the public helper constructors (`create_texinfo`, `TexInfo.set`) on materials the file already knows and on new ones."""
    from srctools.bsp import BSP, StaticPropVersion
    from srctools.math import Vec
    b = BSP(path)
    b.static_prop_version = StaticPropVersion[w1.prop_version]
    order = [v for v in W.VIEWS if v != 'bmodels']
    if w1.bmodels is not None:
        order.insert(0, 'bmodels')
    for v in order:
        getattr(b, v)
    infos = b.texinfo
    if infos:
        known = rng.choice(infos).mat
        for mat in (known, known.swapcase(), 'helper/new%d' % rng.randrange(100)):
            b.create_texinfo(mat, reflectivity=Vec(0.25, 0.5, 0.75), width=rng.choice([16, 1024]), height=rng.choice([16, 512]))
        rng.choice(infos).set(b, rng.choice(infos).mat, Vec(0.125, 0.125, 0.125), 2048, 4096)
        rng.choice(infos).set(b, 'helper/set%d' % rng.randrange(100), Vec(0.5, 0.5, 0.5), 8, 8)
    return b


def _run_world(tmp, cfg, pv, size, empty, wseed, views=None, tag='x', history=False):
    """One save / re-open cycle. Returns dict(save_exc | diffs {view: (path, exp, act)} | read_exc {view: ..}, handles).
    `history`: the cycle runs on a BSP object that has loaded and fully accessed a file written from another world, and the
    assigned world re-uses that file's material / texture / model names with different contents."""
    from srctools.bsp import BSP, StaticPropVersion
    rng = random.Random(wseed)
    if history:
        first = _run_world(tmp, cfg, pv, size, False, wseed + ':first', None, tag + 'a')
        if first['save_exc'] or 'path' not in first:
            first['history_failed_in_first_round'] = True
            return first
        w1 = first['world']
        try:
            bsp = _load_and_touch(first['path'], cfg, w1, rng)
        except Exception as e:
            return {'world': w1, 'diffs': {}, 'read_exc': {'history:load': f'{type(e).__name__}: {e}'}, 'save_exc': None, 'nonempty': 0}
        for _ in range(40):
            w = W.gen_world(rng, cfg, size=size, prop_version=_next_prop_version(pv), empty=empty, reuse=w1, loaded=bsp)
            # the brush-model view is keyed by the entity objects of `ents`: once it has been parsed from the old file it has
            # to be replaced together with `ents`
            if w.bmodels is not None or w1.bmodels is None:
                break
        else:
            return first
    else:
        w = W.gen_world(rng, cfg, size=size, prop_version=pv, empty=empty)
        bsp = W.open_config(cfg, tmp)
    D = W.Dumper(cfg, w.prop_version)
    res = {'world': w, 'diffs': {}, 'read_exc': {}, 'save_exc': None, 'nonempty': 0}
    use = [v for v in W.VIEWS if views is None or v in views]
    try:
        W.assign_world(bsp, w, use)
        exp = {v: D.view(w, v) for v in use}
        res['nonempty_views'] = sorted(v for v in use if exp[v] not in (None, [], ()) and not (v == 'ents' and not exp[v][2]))
        res['nonempty'] = len(res['nonempty_views'])
        out = os.path.join(tmp, f'out_{tag}.bsp')
        if views is None:
            res['xref'] = c11_xref.install(bsp, cfg)      # record what the cross-reference writers see and produce
        bsp.save(out)
    except Exception as e:
        res['save_exc'] = f'{type(e).__name__}: {e}'
        res['tb'] = traceback.format_exc()[-600:]
        return res
    c = BSP(out)
    c.static_prop_version = StaticPropVersion[w.prop_version]
    order = [v for v in use if v != 'bmodels']
    if 'bmodels' in use and w.bmodels is not None:
        order.insert(0, 'bmodels')
    for v in order:
        try:
            act = D.view(c, v)
        except Exception as e:
            res['read_exc'][v] = f'{type(e).__name__}: {e}'
            continue
        d = W.compare_view(v, exp[v], act)
        if d:
            res['diffs'][v] = (d[0], repr(d[1])[:160], repr(d[2])[:160])
    res['reread'] = c
    res['path'] = out
    # autodetection of the static prop version (where the (version, size) pair is unambiguous)
    if 'props' in use and w.props and not (w.prop_version in ('V11', 'V_LIGHTMAP_MESA')):
        try:
            a = BSP(out)
            got = [D.prop(p) for p in a.props]
            if a.static_prop_version.name != w.prop_version or got != exp['props']:
                res['diffs']['props(autodetect)'] = ('static_prop_version', w.prop_version, a.static_prop_version.name)
        except Exception as e:
            res['read_exc']['props(autodetect)'] = f'{type(e).__name__}: {e}'
    return res


def _sval(v):
    """struct value -> driver value"""
    if isinstance(v, bool):
        return {'b': v}
    if isinstance(v, int):
        return {'i': v}
    if isinstance(v, float):
        return {'f': W.f32bits(v)}
    return {'s': list(v)}


def _lump_requests(res, cfg):
    """Model encoders vs the bytes the implementation wrote (values taken from the re-read file)."""
    from srctools.bsp import BSP, BSP_LUMPS, StaticPropVersion
    from srctools.math import Vec
    layout = W.CONFIG_BY_NAME[cfg][4]
    c = res['reread']
    raw = BSP(res['path'])
    L = lambda name: raw.lumps[getattr(BSP_LUMPS, name)].data
    reqs = []

    def recs(rec, rows, data, lay='*'):
        reqs.append(({'op': 'recs', 'rec': rec, 'layout': lay, 'rows': rows}, {'r': list(data)}, rec))
        reqs.append(({'op': 'recs_read', 'rec': rec, 'layout': lay, 'd': list(data)}, {'rows': rows}, rec + ':read'))
    recs('planes', [[_sval(float(p.normal.x)), _sval(float(p.normal.y)), _sval(float(p.normal.z)), _sval(float(p.dist)), _sval(p.type.value)] for p in c.planes], L('PLANES'))
    recs('vertexes', [[_sval(float(v.x)), _sval(float(v.y)), _sval(float(v.z))] for v in c.vertexes], L('VERTEXES'))
    recs('cubemaps', [[_sval(int(q.origin.x)), _sval(int(q.origin.y)), _sval(int(q.origin.z)), _sval(q.size)] for q in c.cubemaps], L('CUBEMAPS'))
    recs('leafmindisttowater', [[_sval(l.min_water_dist)] for l in c.visleafs], L('LEAFMINDISTTOWATER'))
    recs('overlay_fades', [[_sval(float(o.fade_min_sq)), _sval(float(o.fade_max_sq))] for o in c.overlays], L('OVERLAY_FADES'))
    recs('overlay_levels', [[_sval(o.min_cpu), _sval(o.max_cpu), _sval(o.min_gpu), _sval(o.max_gpu)] for o in c.overlays], L('OVERLAY_SYSTEM_LEVELS'))
    names = [list(t.encode('ascii', 'surrogateescape')) for t in c.textures]
    reqs.append(({'op': 'tex', 'names': names}, {'data': list(L('TEXDATA_STRING_DATA')), 'table': list(L('TEXDATA_STRING_TABLE'))}, 'textures'))
    tbl = L('TEXDATA_STRING_TABLE')
    offs = list(struct.unpack('<%di' % (len(tbl) // 4), tbl))
    reqs.append(({'op': 'tex_read', 'data': list(L('TEXDATA_STRING_DATA')), 'offs': offs}, {'names': names}, 'textures:read'))
    # texdata table: the index in every texinfo record and the order of the texdata records follow from keying the
    # writer's table on the TexData *object* (model: C11.texdataTable with the identity key)
    w0 = res['world']
    if w0.texinfo:
        tds = w0.texdatas
        ids = [next(i for i, t in enumerate(tds) if t is info._info) for info in w0.texinfo]
        ti = L('TEXINFO')
        file_idx = [struct.unpack_from('<i', ti, 72 * k + 68)[0] for k in range(len(ti) // 72)]
        td = L('TEXDATA')
        rec = 24 if cfg == 'vitamin' else 32
        file_td = [struct.unpack_from('<3I', td, rec * k) + struct.unpack_from('<ii', td, rec * k + 16) for k in range(len(td) // rec)]

        def want_texdata(rep, ids=ids, file_idx=file_idx, file_td=file_td, tds=tds):
            if rep.get('idx') != file_idx[:len(ids)]:
                return f'texdata index per texinfo: file {file_idx[:len(ids)]} model {rep.get("idx")}'
            exp = [tuple(W.f32bits(x) for x in tds[o].reflectivity) + (tds[o].width, tds[o].height) for o in rep['order']]
            if exp != [tuple(r) for r in file_td[:len(exp)]] or len(file_td) != len(exp):
                return f'texdata records: file {file_td} model order {rep["order"]} -> {exp}'
            return None
        reqs.append(({'op': 'texdata', 'ids': ids}, want_texdata, 'texdata-table'))
    vis = c.visibility
    if vis is not None:
        pv, pa = [list(r) for r in vis.potentially_visible], [list(r) for r in vis.potentially_audible]
        reqs.append(({'op': 'vis', 'pvs': pv, 'pas': pa}, {'r': list(L('VISIBILITY'))}, 'visibility'))
        reqs.append(({'op': 'vis_read', 'd': list(L('VISIBILITY'))}, {'pvs': pv, 'pas': pa}, 'visibility:read'))
    # static props: whole game lump
    w = res['world']
    ver = StaticPropVersion[w.prop_version]
    is_lm = ver.name.startswith('V_LIGHTMAP')
    vnum = 7 if is_lm else ver.version
    props = list(c.props)
    models = []
    for p in props:
        if p.model not in models:
            models.append(p.model)
    leafs = c.visleafs
    leaf_idx = lambda l: next(i for i, x in enumerate(leafs) if x is l)
    leaf_array, recs_vals = [], []
    for p in props:
        off = len(leaf_array)
        leaf_array += sorted(leaf_idx(l) for l in p.visleafs)
        v = [float(p.origin.x), float(p.origin.y), float(p.origin.z), float(p.angles.pitch), float(p.angles.yaw), float(p.angles.roll),
             models.index(p.model), off, len(p.visleafs), p.solidity, 0 if is_lm else p.flags.value & 0xFF, p.skin,
             float(p.min_fade), float(p.max_fade), float(p.lighting.x), float(p.lighting.y), float(p.lighting.z)]
        if vnum >= 5:
            v.append(float(p.fade_scale))
        if vnum in (6, 7):
            v += [p.min_dx_level, p.max_dx_level]
        if vnum >= 8:
            v += [p.min_cpu_level, p.max_cpu_level, p.min_gpu_level, p.max_gpu_level]
        if is_lm:
            v += [p.flags.value, p.lightmap_x, p.lightmap_y]
        if vnum >= 7 and not ver.name.startswith('V_LIGHTMAP_v'):
            v += [int(p.tint.x), int(p.tint.y), int(p.tint.z), p.renderfx]
        if vnum >= 9 and not is_lm:
            v.append(bool(p.disable_on_xbox))
        if vnum >= 10 or ver.name == 'V_LIGHTMAP_MESA':
            v.append(p.flags.value >> 8)
        sc = p.scaling if isinstance(p.scaling, Vec) else Vec(p.scaling, p.scaling, p.scaling)
        if ver.name == 'V_CHAOS_V13':
            v += [float(sc.x), float(sc.y), float(sc.z)]
        elif vnum >= 11:
            v.append(float(sc.x))
        recs_vals.append(v)
    sprp = raw.game_lumps[b'sprp'].data
    pos = 0
    exp_count = struct.pack('<i', len(models))
    parts = [('count', sprp[pos:pos + 4], exp_count)]
    pos += 4
    for m in models:
        reqs.append(({'op': 'name', 'fn': '_lmp_write_props', 'name': list(m.encode('ascii', 'surrogateescape'))},
                     {'r': list(sprp[pos:pos + 128]), 'back': list(m.encode('ascii', 'surrogateescape'))}, 'props:name'))
        pos += 128
    leaf_code = 'I' if cfg == 'chaos' else 'H'
    exp_leaf = struct.pack('<i', len(leaf_array)) + struct.pack('<%d%s' % (len(leaf_array), leaf_code), *leaf_array)
    parts.append(('leafs', sprp[pos:pos + len(exp_leaf)], exp_leaf))
    pos += len(exp_leaf)
    parts.append(('nprops', sprp[pos:pos + 4], struct.pack('<i', len(props))))
    pos += 4
    for v in recs_vals:
        reqs.append(({'op': 'prop', 'version': common.codes(ver.name), 'vals': [_sval(x) for x in v]},
                     {'r': list(sprp[pos:pos + ver.size]), 'size': ver.size}, 'props:record'))
        pos += ver.size
    if props:
        parts.append(('end', len(sprp), pos))
    dprp = raw.game_lumps[b'dprp'].data
    dmodels = []
    from srctools.bsp import DetailPropModel
    for d in c.detail_props:
        if isinstance(d, DetailPropModel) and d.model not in dmodels:
            dmodels.append(d.model)
    for i, m in enumerate(dmodels):
        reqs.append(({'op': 'name', 'fn': '_lmp_write_detail_props', 'name': list(m.encode('ascii', 'surrogateescape'))},
                     {'r': list(dprp[4 + 128 * i:4 + 128 * (i + 1)]), 'back': list(m.encode('ascii', 'surrogateescape'))}, 'detail_props:name'))
    return reqs, parts


def _worlds(ctx):
    """Run (once) the world plan; results are shared by correspond and search."""
    if hasattr(ctx, '_c11_worlds'):
        return ctx._c11_worlds
    tmp = tempfile.mkdtemp(prefix='c11_')
    ctx._c11_tmp = tmp
    out = []
    for i, (cfg, pv, size, empty) in enumerate(_plan(ctx)):
        wseed = f'{ctx.seed}:{i}:{cfg}:{pv}'
        res = _run_world(tmp, cfg, pv, size, empty, wseed, tag=f'w{i}')
        res['case'] = {'cfg': cfg, 'prop_version': pv, 'size': size, 'empty': empty, 'wseed': wseed}
        out.append(res)
    # histories: the same cycle on a BSP object that has loaded + accessed another world's file first
    nh = 0
    for i, (cfg, pv, size, empty) in enumerate(_plan(ctx)):
        if empty or (not ctx.thorough and i % 3 != 0):
            continue
        wseed = f'{ctx.seed}:h{i}:{cfg}:{pv}'
        res = _run_world(tmp, cfg, pv, max(size, 3), False, wseed, tag=f'h{i}', history=True)
        res['case'] = {'cfg': cfg, 'prop_version': pv, 'size': max(size, 3), 'empty': False, 'wseed': wseed, 'history': True}
        out.append(res)
        nh += 1
    ctx.count('history-worlds', nh)
    # coverage: every configuration must have seen every view non-empty at least once
    n_plan = len(out)
    for cfg in [c[0] for c in W.CONFIGS]:
        inapplicable = {'orig_faces', 'hdr_faces', 'primitives'} if cfg == 'vitamin' else set()
        need = set(W.VIEWS) - inapplicable
        have = set()
        for r in out:
            if r['case']['cfg'] == cfg:
                have |= set(r.get('nonempty_views', []))
        k = 0
        while need - have and k < 40:
            pv = ['V5', 'V10', 'V_LIGHTMAP_v7', 'V_CHAOS_V13', 'V8'][k % 5] if cfg != 'chaos' else ['V_CHAOS_V12', 'V_CHAOS_V13', 'V11'][k % 3]
            wseed = f'{ctx.seed}:cov:{cfg}:{k}'
            res = _run_world(tmp, cfg, pv, 4, False, wseed, tag=f'c{cfg}{k}')
            res['case'] = {'cfg': cfg, 'prop_version': pv, 'size': 4, 'empty': False, 'wseed': wseed}
            out.append(res)
            have |= set(res.get('nonempty_views', []))
            k += 1
        if need - have:
            ctx.notes.append(f'coverage: views never non-empty for {cfg}: {sorted(need - have)}')
        ctx.count(f'coverage-worlds:{cfg}', k)
    ctx._c11_worlds = out
    return out


def _corr_lumps(ctx, drv):
    allreq, meta = [], []
    for res in _worlds(ctx):
        case = res['case']
        ctx.case(case, nontrivial=res['nonempty'] > 0, sample_every=17)
        ctx.count('world:' + case['cfg'])
        ctx.count('world:prop:' + case['prop_version'])
        if res['save_exc'] or res['read_exc'] or 'reread' not in res:
            continue
        try:
            reqs, parts = _lump_requests(res, case['cfg'])
        except Exception as e:
            ctx.notes.append(f'lump comparison skipped for {case}: {type(e).__name__}: {e}')
            continue
        for name, got, want in parts:
            ctx.traces_vs_impl += 1
            if got != want:
                ctx.disagree(case, repr(got)[:200], repr(want)[:200], 'static prop lump: ' + name)
        for req, want, what in reqs:
            allreq.append(req)
            meta.append((case, want, what))
    for (case, want, what), rep in zip(meta, drv.batch(allreq)):
        ctx.traces_vs_impl += 1
        ctx.count('lump-bytes:' + what)
        if callable(want):
            err = want(rep)
            if err:
                ctx.disagree(dict(case, lump=what), err[:400], str(rep)[:300], 'lump bytes / model encoder: ' + what)
        elif rep != want:
            ctx.disagree(dict(case, lump=what), str(want)[:300], str(rep)[:300], 'lump bytes / model encoder: ' + what)



# --------------------------------------------------------------------------- entity lump text

def _m(s):
    """str -> code points for the model (lone surrogates U+DC80.. are not Lean Chars: use U+F780..)"""
    return [(ord(c) - 0xDC00 + 0xF700) if 0xDC80 <= ord(c) <= 0xDCFF else ord(c) for c in s]


def _um(cps):
    return ''.join(chr(c - 0xF700 + 0xDC00) if 0xF780 <= c <= 0xF7FF else chr(c) for c in cps)


def _ent_lines(ent):
    """keyvalue lines [key, value]; output lines [exp_out, target, exp_in, params, '%g' delay, str(times), comma_sep]
    (number formatting is vmf.py's and not modelled)"""
    lines = [[_m(k), _m(v)] for k, v in ent.items()]
    for o in ent.outputs:
        lines.append([_m(o.exp_out()), _m(o.target), _m(o.exp_in()), _m(o.params), _m(f'{o.delay:g}'), _m(str(o.times)), bool(o.comma_sep)])
    return lines


def _impl_outs(ent):
    return [[_m(o.target), _m(o.exp_in()), _m(o.params), float(o.delay), int(o.times), bool(o.comma_sep)] for o in ent.outputs]


def _model_outs(e):
    out = []
    for l in e:
        if l[2] != 0 and l[3] is not None:
            t, i, p, d, n, c = l[3]
            try:
                out.append([t, i, p, float(_um(d)), int(_um(n)), c])
            except ValueError:
                out.append('unparsable')
    return out


_ENT_PIECES = ['{', '}', '\n', ' ', '"k" "v"', '"classname" "worldspawn"', '"classname" "info_x"', '\x00', '"a" "1,2,3"',
               '"o" "t\x1bi\x1bp\x1b0\x1b-1"', '"OnX" "t,i,p,0.5,-1"', '"x"', 'bare', '"q\\"" "w\\\\\n"', '{\n', '}\n', '// c\n', '"unterminated']


def _corr_ents(ctx, drv):
    from srctools.bsp import BSP, BSP_LUMPS
    rng = ctx.rng
    reqs, meta = [], []
    for res in _worlds(ctx):
        if res['save_exc'] or 'path' not in res:
            continue
        raw = BSP(res['path'])
        data = raw.lumps[BSP_LUMPS.ENTITIES].data
        text = data.decode('ascii', 'surrogateescape')
        vmf = raw.ents
        ents = [vmf.spawn] + list(vmf.entities)
        reqs.append({'op': 'ent_write', 'ents': [_ent_lines(e) for e in ents]})
        meta.append(('write', res['case'], {'r': _m(text)}))
        want = [[[_m(k), _m(v)] for k, v in e.items()] for e in ents]
        reqs.append({'op': 'ent_read', 's': _m(text)})
        meta.append(('read', res['case'], (want, [len(e.outputs) for e in ents], [_impl_outs(e) for e in ents])))
        ctx.count('ents:lump')
    # the reader's control flow on arbitrary (mostly malformed) lump texts
    tmp = ctx._c11_tmp
    dummy = W.open_config('v20', tmp, 'entdummy')
    for _ in range(ctx.budget(1500, 12000)):
        if rng.random() < 0.5:
            body = ''.join(rng.choice(_ENT_PIECES) for _ in range(rng.randrange(0, 9)))
            text = '{\n"classname" "worldspawn"\n}\n' + body
        else:
            text = ''.join(rng.choice(_ENT_PIECES) for _ in range(rng.randrange(0, 9)))
        try:
            dummy.out_comma_sep = None
            vmf = dummy._lmp_read_ents(text.encode('ascii', 'surrogateescape'))
            ents = [vmf.spawn] + list(vmf.entities)
            # an entity lump without any "{" leaves the default worldspawn: the model returns no entity at all
            impl = ([[[_m(k), _m(v)] for k, v in e.items()] for e in ents], [len(e.outputs) for e in ents], None)
        except Exception as e:
            impl = 'error'
        reqs.append({'op': 'ent_read', 's': _m(text)})
        meta.append(('read-arbitrary', {'text': text}, impl))
        ctx.case({'ent_text': text}, nontrivial=True, sample_every=499)
        ctx.count('ents:arbitrary-text' + (':error' if impl == 'error' else ''))
    for (kind, case, want), rep in zip(meta, drv.batch(reqs)):
        ctx.traces_vs_impl += 1
        if kind == 'write':
            if rep != want:
                ctx.disagree(dict(case, lump='entities'), _um(want['r'])[:300], _um(rep.get('r', []))[:300] if 'r' in rep else rep, 'entity lump text / model entWrite')
            continue
        if want == 'error':
            if 'err' not in rep:
                ctx.disagree(case, 'exception', rep, '_lmp_read_ents / model entRead (error expected)')
            continue
        if 'err' in rep:
            ctx.disagree(case, str(want)[:300], rep, '_lmp_read_ents / model entRead')
            continue
        kvs, nouts, outs = want
        m_ents = rep['ents']
        m_kvs = [[[l[0], l[1]] for l in e if l[2] == 0] for e in m_ents]
        m_out = [sum(1 for l in e if l[2] != 0) for e in m_ents]
        amb = any(l[2] == 2 for e in m_ents for l in e)
        def merged(e):      # Entity keys are case-insensitive: a repeated key overwrites the value, keeps the first spelling/position
            out = {}
            for k, v in e:
                kk = _um(k).casefold()
                out[kk] = [out[kk][0] if kk in out else k, v]
            return list(out.values())
        if kind == 'read-arbitrary' and amb:
            continue
        m_kvs = [merged(e) for e in m_kvs]
        if m_kvs != kvs or (not amb and m_out != nouts):
            ctx.disagree(case, str((kvs, nouts))[:300], str((m_kvs, m_out))[:300], '_lmp_read_ents / model entRead')
        elif outs is not None:
            # the fields of every output (Output.parse split; instance: prefixes stay inside the name / input text)
            mo = [_model_outs(e) for e in m_ents]
            if mo != outs:
                ctx.disagree(case, str(outs)[:300], str(mo)[:300], 'Output.parse / model parseOut')


def _corr_xref(ctx, drv):
    """faces / brushes+sides / leafs / nodes writers: bytes and tables vs Model/C11Lumps.lean"""
    reqs, meta = [], []
    for res in _worlds(ctx):
        for name, req, exp in res.get('xref', []):
            if name == 'capture-error':
                ctx.notes.append(f'xref capture: {req}')
                continue
            reqs.append(req)
            meta.append((res['case'], name, req, exp))
    for (case, name, req, exp), rep in zip(meta, drv.batch(reqs)):
        ctx.traces_vs_impl += 1
        ctx.count('xref-writer:' + name)
        err = c11_xref.compare(req, exp, rep)
        if err:
            ctx.disagree(dict(case, lump=name), err[:400], '', 'cross-reference writer bytes/tables: ' + name)


def correspond(ctx, drivers):
    drv = drivers['drv_c11']
    _corr_struct(ctx, drv)
    _corr_rle(ctx, drv)
    _corr_finders(ctx, drv)
    _corr_lumps(ctx, drv)
    _corr_ents(ctx, drv)
    _corr_xref(ctx, drv)


# =============================================================================== probes

_UNDO = []


def _S(obj, attr, val):
    """set an attribute of a world object, remembering how to repair it"""
    old = getattr(obj, attr)
    _UNDO.append((obj, attr, old))
    setattr(obj, attr, val)


def _probes():
    """(key, description, views, mutate(world, rng) -> bool applicable).  Each pushes ONE value past its on-disk field:
    the writer must raise, or the value must come back unchanged."""
    from srctools.math import Vec
    P = []

    def add(key, views, fn):
        P.append((key, views, fn))

    def long_prop(w, r):
        if not w.props:
            return False
        _S(w.props[0], 'model', 'models/' + 'n' * r.choice([122, 123, 200]) + '.mdl')   # 133.. chars
        return True
    add('name-truncated:props', ['props', 'visleafs'], long_prop)

    def long_detail(w, r):
        from srctools.bsp import DetailPropModel
        ds = [d for d in w.detail_props if isinstance(d, DetailPropModel)]
        if not ds:
            return False
        _S(ds[0], 'model', 'models/' + 'd' * r.choice([122, 150]) + '.mdl')
        return True
    add('name-truncated:detail_props', ['detail_props'], long_detail)

    def long_tex(w, r):
        w.textures.append('t' * r.choice([128, 129, 300]))
        _UNDO.append(lambda: w.textures.pop())
        return True
    add('oob:texture-name', ['textures'], long_tex)

    def cube(w, r):
        if not w.cubemaps:
            return False
        _S(w.cubemaps[0], 'size', r.choice([2**31, -2**31 - 1, 2**40]))
        return True
    add('oob:cubemap-size', ['cubemaps'], cube)

    def cube_origin(w, r):
        if not w.cubemaps:
            return False
        _S(w.cubemaps[0], 'origin', Vec(float(2**31), 0.0, 0.0))
        return True
    add('oob:cubemap-origin', ['cubemaps'], cube_origin)

    def overlay_faces(w, r):
        if not w.overlays:
            return False
        _S(w.overlays[0], 'faces', list(range(65)))
        return True
    add('oob:overlay-faces', ['overlays', 'texinfo', 'textures'], overlay_faces)

    def overlay_id(w, r):
        if not w.overlays:
            return False
        _S(w.overlays[0], 'id', 2**31)
        return True
    add('oob:overlay-id', ['overlays', 'texinfo', 'textures'], overlay_id)

    def prop_skin(w, r):
        if not w.props:
            return False
        _S(w.props[0], 'skin', r.choice([2**31, -2**31 - 1]))
        return True
    add('oob:prop-skin', ['props', 'visleafs'], prop_skin)

    def prop_solidity(w, r):
        if not w.props:
            return False
        _S(w.props[0], 'solidity', r.choice([256, -1, 1000]))
        return True
    add('oob:prop-solidity', ['props', 'visleafs'], prop_solidity)

    def leaf_dist(w, r):
        if not w.visleafs:
            return False
        _S(w.visleafs[0], 'min_water_dist', r.choice([65536, -1]))
        return True
    add('oob:leaf-min-water-dist', None, leaf_dist)

    def leaf_area(w, r):
        if not w.visleafs or w.cfg in ('chaos', 'vitamin'):
            return False
        _S(w.visleafs[0], 'area', r.choice([512, 256, 300]))
        return True
    add('oob:leaf-area', None, leaf_area)

    def leaf_cluster(w, r):
        if not w.visleafs or w.cfg == 'chaos':
            return False
        _S(w.visleafs[0], 'cluster_id', r.choice([32768, -32769]))
        return True
    add('oob:leaf-cluster', None, leaf_cluster)

    def face_fog(w, r):
        if not w.faces or w.cfg in ('chaos', 'vitamin'):
            return False
        _S(w.faces[0], 'surf_fog_volume_id', r.choice([32768, -32769]))
        return True
    add('oob:face-fog-volume', None, face_fog)

    def face_hid(w, r):
        if not w.faces or w.cfg in ('chaos', 'vitamin'):
            return False
        for f in w.faces + w.hdr_faces:
            _S(f, 'hammer_id', 65536 + 7)
            if f.orig_face is not None:
                _S(f.orig_face, 'hammer_id', 65536 + 7)
        return True
    add('oob:face-hammer-id', None, face_hid)

    def plane_dist(w, r):
        if not w.planes:
            return False
        _S(w.planes[0], 'dist', 1e39)      # too large for binary32
        return True
    add('oob:plane-dist-float', ['planes'], plane_dist)

    def node_area(w, r):
        if not w.nodes:
            return False
        _S(w.nodes[0], 'area_ind', r.choice([32768, -32769]))
        return True
    add('oob:node-area', None, node_area)

    def brush_disp(w, r):
        if not w.brushes or not any(b.sides for b in w.brushes):
            return False
        _S(next(b for b in w.brushes if b.sides).sides[0], '_dispinfo', 2**15 if w.cfg != 'chaos' else 2**31)
        return True
    add('oob:brushside-dispinfo', None, brush_disp)

    def detail_leaf(w, r):
        if not w.detail_props:
            return False
        _S(w.detail_props[0], 'leaf', 65536)
        return True
    add('oob:detail-leaf', ['detail_props'], detail_leaf)

    def texdata_w(w, r):
        if not w.texinfo:
            return False
        _S(w.texinfo[0]._info, 'width', 2**31)
        return True
    add('oob:texdata-width', ['texinfo', 'textures'], texdata_w)

    def vis_mismatch(w, r):
        if w.visibility is None or not w.visibility.potentially_visible:
            return False
        _S(w.visibility, 'potentially_audible', w.visibility.potentially_audible[:-1])
        return True
    add('oob:visibility-length-mismatch', ['visibility'], vis_mismatch)
    return P


def _run_probe(tmp, cfg, pv, size, wseed, key, views, fn):
    """Returns None (n/a), 'raised', 'exact', ('silent', detail) or ('error-path', detail).
    When the writer raises, the value is repaired in place and the SAME BSP object must then still hold every assigned view
    and save correctly (no view lost, no half-updated table or cache left behind by the failed save)."""
    from srctools.bsp import BSP, StaticPropVersion
    rng = random.Random(wseed)
    w = W.gen_world(rng, cfg, size=size, prop_version=pv)
    del _UNDO[:]
    if not fn(w, random.Random(wseed + key)):
        return None
    undo = list(_UNDO)
    bsp = W.open_config(cfg, tmp, 'probe')
    D = W.Dumper(cfg, w.prop_version)
    use = [v for v in W.VIEWS if views is None or v in views]
    order = [v for v in use if v != 'bmodels']
    if 'bmodels' in use and w.bmodels is not None:
        order.insert(0, 'bmodels')
    out = os.path.join(tmp, f'probe_{cfg}.bsp')
    try:
        W.assign_world(bsp, w, use)
        exp = {v: D.view(w, v) for v in use}
        bsp.save(out)
    except Exception as e:
        # --- error path: repair the value, the object must be as good as before the failed save
        for u in reversed(undo):
            if callable(u):
                u()
            else:
                setattr(u[0], u[1], u[2])
        try:
            good = {v: D.view(w, v) for v in use}
            for v in order:
                d = W.compare_view(v, good[v], D.view(bsp, v))
                if d:
                    return ('error-path', f'after the failed save ({type(e).__name__}) view {v} of the same BSP object no longer holds '
                                          f'the assigned value: {d[0]}: assigned {str(d[1])[:60]} now {str(d[2])[:60]}')
            # (looking at `ents` again re-parsed the already written lump, which sets the documented knob out_comma_sep from
            # the first output it meets; put the knob back to what was assigned with the view)
            bsp.out_comma_sep = w.force_sep
            bsp.save(out)
            c = BSP(out)
            c.static_prop_version = StaticPropVersion[w.prop_version]
            for v in order:
                d = W.compare_view(v, good[v], D.view(c, v))
                if d:
                    return ('error-path', f'save after repairing the rejected value: view {v} differs at {d[0]}: {str(d[1])[:60]} / {str(d[2])[:60]}')
        except Exception as e2:
            return ('error-path', f'after the failed save ({type(e).__name__}) and repair: {type(e2).__name__}: {e2}')
        return 'raised'
    try:
        c = BSP(out)
        c.static_prop_version = StaticPropVersion[w.prop_version]
        for v in order:
            d = W.compare_view(v, exp[v], D.view(c, v))
            if d:
                return ('silent', f'{d[0]}: wrote {str(d[1])[:80]} read {str(d[2])[:80]}')
    except Exception as e:
        return ('silent', f're-read raised {type(e).__name__}: {e}')
    return 'exact'


# =============================================================================== argument forms
# The writers take "the assigned value"; which Python forms of a sequence they accept was established by experiment on the
# unchanged tree (6 worlds per cell, all equal to the list form): a writer that only iterates its argument once, and whose view
# no other writer touches, accepts every iterable incl. one-shot ones; props / detail props also call len(); the table views
# (planes, texinfo, faces, …) are appended to / enumerated by other writers' find_or_insert closures and need a list.
# Outside these cells the form is outside the domain (recorded in the evidence, not judged).

def _forms():
    import collections

    class It:
        def __init__(self, l): self.l = l
        def __iter__(self): return iter(self.l)

    class Seq(collections.abc.Sequence):
        def __init__(self, l): self.l = l
        def __len__(self): return len(self.l)
        def __getitem__(self, i): return self.l[i]
    return {'tuple': tuple, 'generator': lambda l: (x for x in l), 'iter': iter, 'map': lambda l: map(lambda x: x, l),
            'filter': lambda l: filter(lambda x: True, l), 'Iterable': It, 'Sequence': Seq, 'deque': collections.deque}


_ONCE = ['hdr_faces', 'water_leaf_info', 'cubemaps', 'overlays']
ACCEPTED_FORMS = {v: ['tuple', 'generator', 'iter', 'map', 'filter', 'Iterable', 'Sequence', 'deque'] for v in _ONCE}
ACCEPTED_FORMS.update({'props': ['tuple', 'Sequence', 'deque'], 'detail_props': ['tuple', 'Sequence', 'deque']})


def _run_form(tmp, cfg, pv, wseed, view, form):
    """Save the same world twice: `view` assigned as a list, and in the given form. Returns None (view empty),
    'same', ('raises', text) or ('differs', text)."""
    from srctools.bsp import BSP, StaticPropVersion
    outs = []
    for f in (None, form):
        rng = random.Random(wseed)
        w = W.gen_world(rng, cfg, size=3, prop_version=pv)
        val = getattr(w, view)
        if not isinstance(val, list) or not val:
            return None
        bsp = W.open_config(cfg, tmp, 'form')
        W.assign_world(bsp, w)
        out = os.path.join(tmp, f'form_{0 if f is None else 1}.bsp')
        try:
            if f is not None:
                setattr(bsp, view, _forms()[f](val))
            bsp.save(out)
        except Exception as e:
            return ('raises', f'{type(e).__name__}: {e}')
        outs.append(open(out, 'rb').read())
        if f is not None and outs[0] != outs[1]:
            D = W.Dumper(cfg, w.prop_version)
            try:
                c = BSP(out)
                c.static_prop_version = StaticPropVersion[w.prop_version]
                d = W.compare_view(view, D.view(w, view), D.view(c, view))
                detail = f'{d[0]}: assigned {str(d[1])[:60]} read {str(d[2])[:60]}' if d else 'bytes differ'
            except Exception as e:
                detail = f're-read raised {type(e).__name__}: {e}'
            return ('differs', detail)
    return 'same'


def _search_forms(ctx, tmp):
    cfgs = [c[0] for c in W.CONFIGS]
    k = 0
    for view in W.VIEWS:
        for form in _forms():
            accepted = form in ACCEPTED_FORMS.get(view, [])
            tries = ctx.budget(2, 6) if accepted else 1
            done = 0
            for t in range(tries * 4):
                cfg = cfgs[(k + t) % len(cfgs)]
                if cfg == 'vitamin' and view in ('hdr_faces', 'orig_faces', 'primitives'):
                    continue
                wseed = f'{ctx.seed}:form:{view}:{form}:{t}'
                r = _run_form(tmp, cfg, 'V10' if cfg != 'chaos' else 'V_CHAOS_V13', wseed, view, form)
                if r is None:
                    continue
                done += 1
                tag = r if isinstance(r, str) else r[0]
                ctx.count(f'arg-form:{view}:{form}:' + ('accepted:' if accepted else 'outside-domain:') + tag)
                if accepted and r != 'same':
                    ctx.witness(f'arg-form:{view}', f'bsp.{view} assigned as {form} (a form the writer accepts: it only iterates its argument'
                                f'{" and takes len()" if view in ("props", "detail_props") else " once"}) is not saved like the same value as a list: '
                                f'{r[0]}: {r[1]} ({cfg})', {'form': form, 'view': view, 'cfg': cfg, 'wseed': wseed,
                                                              'prop_version': 'V10' if cfg != 'chaos' else 'V_CHAOS_V13'})
                if done >= tries:
                    break
            k += 1
    ctx.extra['accepted_argument_forms'] = ACCEPTED_FORMS


# =============================================================================== class probes
# Hand-built minimal inputs for value classes just outside the generator's domain (see ASSUMPTIONS):
# each returns None when the property holds on it (exact round trip or an exception at save time),
# otherwise a description.  Keys are the ones used in known_findings.d/C11.json.

def _class_probes():
    from srctools.bsp import (BSP, Plane, Face, TexData, TexInfo, VisLeaf, VisTree, VisLeafFlags, StaticProp,
                              StaticPropVersion)
    from srctools.const import SurfFlags, BSPContents
    from srctools.math import Vec
    from srctools.vmf import Entity, Output

    def cycle(tmp, cfg, setup):
        bsp = W.open_config(cfg, tmp, 'cls')
        setup(bsp)
        out = os.path.join(tmp, 'cls_out.bsp')
        try:
            bsp.save(out)
        except Exception:
            return None
        return BSP(out)

    def ent_key(tmp):
        def setup(b):
            e = Entity(b.ents); e['classname'] = 'info_target'; e['we"ird'] = 'val'; b.ents.add_ent(e)
        try:
            c = cycle(tmp, 'v20', setup)
            if c is None:
                return None
            got = [sorted(e.items()) for e in c.ents.entities]
        except Exception as e:
            return f'entity key containing a double quote is written unescaped; re-reading the lump raises {type(e).__name__}'
        return None if got == [[('classname', 'info_target'), ('we"ird', 'val')]] else f'entity key with a quote read back as {got}'

    def out_delay(tmp):
        def setup(b):
            e = Entity(b.ents); e['classname'] = 'logic_relay'
            e.add_out(Output('OnTrigger', 'tgt', 'Fire', '', 0.1234567)); b.ents.add_ent(e)
        c = cycle(tmp, 'v20', setup)
        if c is None:
            return None
        d = [o.delay for e in c.ents.entities for o in e.outputs]
        return None if d == [0.1234567] else f'output delay 0.1234567 read back as {d} (written with %g)'

    def sprp_header(tmp):
        def setup(b):
            b.game_lumps[b'sprp'].version = 11        # e.g. a CS:GO map whose props were never parsed
            b.props = [StaticProp('models/a.mdl', Vec(1, 2, 3))]
        try:
            c = cycle(tmp, 'v21', setup)
            if c is None:
                return None
            got = [p.model for p in c.props]
        except Exception as e:
            return f'assigning props on a BSP whose sprp header says v11 writes V5 records under the v11 header: re-read raises {type(e).__name__}: {e}'
        return None if got == ['models/a.mdl'] else f'props read back as {got}'

    def chaos_bounds(tmp):
        def setup(b):
            pl = Plane(Vec(1, 0, 0), 5.0)
            leaf = VisLeaf(BSPContents.EMPTY, 0, 0, VisLeafFlags.NONE, Vec(0.5, 1.25, 2), Vec(3.75, 4, 5), [], [], -1)
            n = VisTree(pl, Vec(0.5, 0.5, 0.5), Vec(9.5, 9, 9), [], 0)
            n.child_neg = n.child_pos = leaf
            b.planes, b.visleafs, b.nodes = [pl], [leaf], [n]
        c = cycle(tmp, 'chaos', setup)
        if c is None:
            return None
        got = (tuple(c.nodes[0].mins), tuple(c.visleafs[0].mins))
        return None if got == ((0.5, 0.5, 0.5), (0.5, 1.25, 2.0)) else \
            f'Chaos layout stores node/leaf bounds as floats, but the writer applies int(): (0.5,0.5,0.5)/(0.5,1.25,2) read back as {got}'

    def light_styles(tmp):
        def setup(b):
            pl = Plane(Vec(1, 0, 0), 5.0)
            b.planes = [pl]
            b.orig_faces = [Face(pl, True, False, [], None, -1, 0, b'\1\2\3\4\5', 0, 1.0, (0, 0), (1, 1), None, [], True, 0, None, 0)]
        c = cycle(tmp, 'v20', setup)
        if c is None:
            return None
        got = c.orig_faces[0].light_styles
        return None if got == b'\1\2\3\4\5' else f'Face.light_styles of 5 bytes silently cut to {got!r} (4s field, no length check)'

    def leaf_ambient(tmp):
        def setup(b):
            b.visleafs = [VisLeaf(BSPContents.EMPTY, 0, 0, VisLeafFlags.NONE, Vec(), Vec(), [], [], -1, bytes(range(30)))]
        c = cycle(tmp, 'v19', setup)
        if c is None:
            return None
        got = c.visleafs[0]._ambient
        return None if got == bytes(range(30)) else f'VisLeaf._ambient of 30 bytes silently cut to {len(got)} bytes (24s field of the v19 layout, no length check)'

    def face_none(tmp):
        def setup(b):
            pl = Plane(Vec(1, 0, 0), 5.0)
            td = TexData('a', Vec(1, 1, 1), 4, 4)
            ti = TexInfo(Vec(), 0.0, Vec(), 0.0, Vec(), 0.0, Vec(), 0.0, SurfFlags.NONE, td)
            mk = lambda: Face(pl, True, False, [], None, -1, 0, bytes(4), 0, 1.0, (0, 0), (1, 1), None, [], True, 0, None, 0)
            b.planes, b.texinfo, b.orig_faces, b.faces = [pl], [ti], [mk()], [mk()]
        try:
            c = cycle(tmp, 'v20', setup)
            if c is None:
                return None
            f = c.faces[0]
        except Exception as e:
            return f'split face with orig_face=None/texinfo=None: re-read raises {type(e).__name__}'
        return None if f.orig_face is None and f.texinfo is None else \
            'split face with orig_face=None and texinfo=None is written with index -1, read back as orig_faces[-1] / texinfo[-1]'

    return [('ent-key-unescaped', ent_key), ('ent-output-delay-precision', out_delay), ('sprp-header-version', sprp_header),
            ('chaos-float-bounds-truncated', chaos_bounds), ('light-styles-truncated', light_styles),
            ('leaf-ambient-truncated', leaf_ambient), ('face-none-refs', face_none)]


# =============================================================================== search

def _witness_world(ctx, res):
    case = res['case']
    if res['save_exc']:
        ctx.witness('roundtrip:save-raises', f"saving a well-formed world raised {res['save_exc']} ({case}) {res.get('tb', '')[-300:]}", case)
        return
    for v, e in res['read_exc'].items():
        ctx.witness(f'roundtrip:{v}', f're-reading view {v} raised {e} ({case})', dict(case, view=v))
    for v, d in res['diffs'].items():
        ctx.witness(f'roundtrip:{v}', f'view {v} differs after save/re-read at {d[0]}: assigned {d[1]} read {d[2]} ({case})', dict(case, view=v))


def _shrink_world(ctx, wit):
    """Smaller size / fewer views for the first round-trip witness."""
    inp = wit['input']
    if 'wseed' not in inp or 'view' not in inp:
        return
    tmp = getattr(ctx, '_c11_tmp', None) or tempfile.mkdtemp(prefix='c11_')
    view = inp['view'].split('(')[0]
    best = None
    for size in (1, 2, 3):
        if size >= inp['size']:
            break
        for k in range(12):
            ws = f"{inp['wseed']}:s{size}:{k}"
            r = _run_world(tmp, inp['cfg'], inp['prop_version'], size, False, ws, history=inp.get('history', False))
            if view in r['diffs'] or view in r['read_exc'] or r['save_exc']:
                best = dict(inp, size=size, wseed=ws)
                break
        if best:
            break
    if best:
        inp['shrunk'] = best
        wit['what'] += f' (also fails at size {best["size"]}, wseed {best["wseed"]})'


def search(ctx):
    # 1. direct oracles on pure functions (always, cheap) — also run when the drivers could not be built
    if ctx.evaluations == 0:
        from srctools.bsp import runlength_encode, runlength_decode
        for d in _rle_inputs(ctx):
            try:
                ok = bytes(runlength_decode(runlength_encode(d))) == d
            except Exception:
                ok = False
            if not ok:
                ctx.witness('rle-roundtrip', f'runlength_decode(runlength_encode(d)) != d for {d[:40]!r}', {'d': list(d)})
        for m, init, calls1, calls2 in _finder_cases(ctx):
            _check_foe_impl(ctx, m, init, calls2)
    else:
        _check_foe_impl(ctx, 0, [1, 2], [[2, 3]])
    # 2. round trip of every world
    for res in _worlds(ctx):
        _witness_world(ctx, res)
    # 3. probes: error instead of silent truncation
    tmp = ctx._c11_tmp
    rng = ctx.rng
    cfgs = [c[0] for c in W.CONFIGS]
    for key, views, fn in _probes():
        tried = 0
        for k in range(ctx.budget(6, 40)):
            cfg = cfgs[k % len(cfgs)]
            pv = ['V5', 'V10', 'V_LIGHTMAP_v7', 'V_CHAOS_V13', 'V8', 'V4', 'V11'][k % 7]
            wseed = f'{ctx.seed}:probe:{key}:{k}'
            r = _run_probe(tmp, cfg, pv, 3, wseed, key, views, fn)
            if r is None:
                continue
            tried += 1
            ctx.count(f'probe:{key}:' + (r if isinstance(r, str) else r[0].upper()))
            if isinstance(r, tuple) and r[0] == 'error-path':
                ctx.witness('error-path:save-loses-view', f'{r[1]} (probe {key}, {cfg}, props {pv})',
                            {'probe': key, 'cfg': cfg, 'prop_version': pv, 'wseed': wseed})
            elif isinstance(r, tuple):
                k2 = key if key.startswith('name-truncated') else 'silent-truncation:' + key
                ctx.witness(k2, f'value outside the on-disk field was neither rejected nor preserved ({key}, {cfg}, props {pv}): {r[1]}',
                            {'probe': key, 'cfg': cfg, 'prop_version': pv, 'wseed': wseed})
            if tried >= ctx.budget(3, 12):
                break
        if tried == 0:
            ctx.notes.append(f'probe {key}: no applicable world generated')
    # 3a. argument forms of the assigned value
    _search_forms(ctx, tmp)
    # 3b. value classes just outside the generator's domain
    for key, fn in _class_probes():
        try:
            r = fn(tmp)
        except Exception as e:
            r = f'class probe raised {type(e).__name__}: {e}'
        ctx.count(f'class:{key}:' + ('holds' if r is None else 'FAILS'))
        if r is not None:
            ctx.witness(key, r, {'class': key})
    # 4. neighbours of model/implementation disagreements: re-run those worlds with other seeds
    for d in ctx.disagreements[:5]:
        case = d.get('case') or {}
        if isinstance(case, dict) and 'cfg' in case and 'wseed' in case:
            for k in range(4):
                r = _run_world(tmp, case['cfg'], case['prop_version'], case.get('size', 3), False, f"{case['wseed']}:n{k}")
                r['case'] = dict(case, wseed=f"{case['wseed']}:n{k}")
                _witness_world(ctx, r)
    if ctx.witnesses:
        first = next((w for w in ctx.witnesses if w['key'].startswith('roundtrip:')), None)
        if first:
            try:
                _shrink_world(ctx, first)
            except Exception as e:
                ctx.notes.append(f'shrink failed: {e}')
    shutil.rmtree(tmp, ignore_errors=True)


# =============================================================================== replay

def replay(ctx, payload):
    inp = payload.get('input') or {}
    tmp = tempfile.mkdtemp(prefix='c11_replay_')
    try:
        if 'form' in inp:
            r = _run_form(tmp, inp['cfg'], inp['prop_version'], inp['wseed'], inp['view'], inp['form'])
            print('argument form', inp['view'], inp['form'], '->', r)
            return r in (None, 'same')
        if 'class' in inp:
            fn = dict(_class_probes())[inp['class']]
            r = fn(tmp)
            print('class', inp['class'], '->', r)
            return r is None
        if 'probe' in inp:
            P = {k: (v, f) for k, v, f in _probes()}
            views, fn = P[inp['probe']]
            r = _run_probe(tmp, inp['cfg'], inp['prop_version'], 3, inp['wseed'], inp['probe'], views, fn)
            print('probe', inp['probe'], '->', r)
            return not isinstance(r, tuple)
        if 'wseed' in inp:
            use = inp.get('shrunk') or inp
            r = _run_world(tmp, use['cfg'], use['prop_version'], use['size'], use.get('empty', False), use['wseed'], history=use.get('history', False))
            print('world', use, 'save_exc', r['save_exc'], 'read_exc', r['read_exc'], 'diffs', r['diffs'])
            return not (r['save_exc'] or r['read_exc'] or r['diffs'])
        if 'calls' in inp:
            n0 = len(ctx.witnesses)
            _check_foe_impl(ctx, inp['mod'], inp['init'], inp['calls'])
            for w in ctx.witnesses[n0:]:
                print(w['what'])
            return len(ctx.witnesses) == n0
        if 'd' in inp:
            from srctools.bsp import runlength_encode, runlength_decode
            d = bytes(inp['d'])
            r = bytes(runlength_decode(runlength_encode(d)))
            print('rle', d, '->', r)
            return r == d
        print('replay file names a broken obligation/correspondence, no input to replay:', payload.get('broken_obligations'),
              payload.get('disagreements', [])[:1])
        return False
    finally:
        shutil.rmtree(tmp, ignore_errors=True)


def replay_known(ctx, finding):
    """Does an open known finding still reproduce on the implementation?"""
    w = finding.get('witness') or {}
    c2 = common.Ctx(PID, ctx.tier, ctx.seed)
    ok = replay(c2, {'input': w})
    return not ok
