"""C15 — VTF save/read round trip: metadata exact, pixels exact up to the format."""
import itertools, json, random, struct
from io import BytesIO
import c15_util as U

PID = 'C15'
GENS = ['vtf']
DRIVERS = ['drv_c15']
PROPS = 'Srctools.Props.C15'
RULE = ("codecs: every format with a per-pixel loader is decoded on ALL byte values (1-byte formats), ALL 65 536 "
        "two-byte words, a 17^3 (3-byte) / 9^4 (4-byte) grid plus random blocks; every writable format is encoded on the "
        "17^3 x 4 channel grid plus random pixels; model vs implementation byte for byte. mipmap chains: all power-of-two "
        "sizes up to 4096x4096. scale_down: all same/half size combinations up to 8x8, five filters. Frame indexing: all "
        "(x, y) in [-w-2, w+2] x [-h-2, h+2] for sizes up to 8, get and set. frame_size: 30 formats x 17^2 sizes; rescale_from "
        "size check on 5^4 size pairs. whole files: random textures 1x1..16x16 (a few up to 64x64), square and not, 1-3 "
        "frames, depth 1-4, cubemaps, objects of version 7.2-7.5 saved as 7.0-7.5, all writable formats for image and "
        "thumbnail, 0-3 resources (raw / enum ids, inline / block data, arbitrary flag bytes), 0-3 (rarely 64) particle sheet "
        "sequences in sheet version 0/1, frames filled (through copy_from bytes / Frame / other formats, fill, per-pixel "
        "assignment), partly filled or cleared, optionally clear_mipmaps / compute_mipmaps(filter) before saving: VTF.save "
        "bytes vs model bytes, VTF.read vs model view incl. every frame's offset and pixels; plus ~620 edited headers (every "
        "value of both format fields, counts, flags, version, truncation). A case is non-trivial when it is not the "
        "all-default texture; distinct by content hash.")
TRUSTED = ["model: lean/Srctools/Model/C15.lean + C15File.lean; per-pixel codec expressions regenerated from "
           "_py_vtf_readwrite.py by tools/gen_vtf.py (symbolic execution over ast) and proved equal to the model's by decide",
           "floats are carried as float32 bit patterns (struct 'f' packing/unpacking is CPython's)",
           "the Cython twin _cy_vtf_readwrite.pyx is tied only statically: the per-pixel expressions that could be read "
           "from its text equal the model's for 19 formats; its control flow, DXT/ATI code and libsquish are not covered"]
NOT_MODELLED = ['DXT1/3/5, ATI1N/2N block codecs (load-only in the pure-Python module)', 'RGBA16161616(F) (metadata only)',
                'header_only reads, Frame.to_PIL/tkinter/wx conversions',
                'duplicate resource ids / malformed files (reader error paths beyond the ones listed)',
                '_cy_vtf_readwrite.pyx control flow']
ASSUMPTIONS = ['reflectivity, bump scale and sheet floats are float32-representable and not NaN',
               'resource ids are exactly 3 bytes, distinct, and not one of the three reserved ids; the storage-kind bit 0x02 of '
               'Resource.flags agrees with the kind of data (it is rewritten by save otherwise)',
               'particle sheets saved with sheet_seq_version=0 hold four equal coordinates per frame (the format stores one)',
               'textures are built with the VTF constructor; power-of-two sizes; frame data set through Frame.copy_from']

_CACHE = {}


def W(ctx, key, what, inp):
    """Record a failing input; at most three per kind so that one defect cannot hide the others."""
    n = ctx.hist.get('witness:' + key, 0)
    ctx.count('witness:' + key)
    if n < 3:
        ctx.witness(key, what, inp)


def _names(V, C):
    by = U.fmt_by_ind(V)
    return [by[i].name for i in U.writable_inds(V, C)]


def _pixel_sets(ctx, bpp_in=4):
    rng = ctx.rng
    grid = []
    for r, g, b in itertools.product(U.GRID17, repeat=3):
        for a in (0, 127, 128, 255):
            grid += [r, g, b, a]
    rnd = [rng.randrange(256) for _ in range(4 * ctx.budget(4000, 60000))]
    return grid + rnd


def _dec_inputs(ctx, bpp):
    rng = ctx.rng
    if bpp == 1:
        return list(range(256))
    if bpp == 2:
        out = []
        for w in range(65536):
            out += [w & 255, w >> 8]
        return out
    if bpp == 3:
        out = [x for t in itertools.product(U.GRID17, repeat=3) for x in t]
        return out + [rng.randrange(256) for _ in range(3 * ctx.budget(3000, 40000))]
    out = [x for t in itertools.product(U.GRID9, repeat=4) for x in t]
    return out + [rng.randrange(256) for _ in range(4 * ctx.budget(3000, 40000))]


# ------------------------------------------------------------------ the property, on the implementation

def check_codec(ctx, V, C, name, px, tag='grid'):
    """Round trip of one writable format on a flat RGBA list. Returns True when the laws hold."""
    fmt = V.ImageFormats[name]
    n = len(px) // 4
    ok = True
    try:
        enc = U.impl_enc(V, C, fmt, px)
        dec = U.impl_dec(V, C, fmt, enc, n)
        enc2 = U.impl_enc(V, C, fmt, dec)
    except Exception as e:  # noqa
        W(ctx, 'codec-' + name, f'{name}: save/load raised {type(e).__name__}: {e}', {'kind': 'codec', 'fmt': name, 'px': px[:400]})
        return False
    want = U.quant_img(name, px)
    if dec != want:
        i = next(i for i in range(n) if dec[4 * i:4 * i + 4] != want[4 * i:4 * i + 4])
        p = px[4 * i:4 * i + 4]
        W(ctx, 'codec-' + name, f'{name}: pixel {tuple(p)} is stored and read back as {tuple(dec[4*i:4*i+4])}, '
                    f'documented quantisation is {tuple(want[4*i:4*i+4])}', {'kind': 'codec', 'fmt': name, 'px': p})
        ok = False
    if enc2 != enc:
        bpp = len(enc) // n
        i = next(i for i in range(n) if enc2[bpp * i:bpp * i + bpp] != enc[bpp * i:bpp * i + bpp])
        p = px[4 * i:4 * i + 4]
        W(ctx, 'codec-' + name, f'{name}: storing the stored pixel again changes the data: {tuple(p)} -> bytes '
                    f'{enc[bpp*i:bpp*i+bpp]} -> pixel {tuple(dec[4*i:4*i+4])} -> bytes {enc2[bpp*i:bpp*i+bpp]}',
                    {'kind': 'codec', 'fmt': name, 'px': p})
        ok = False
    return ok


def check_words(ctx, V, C, name):
    """Two-byte formats: every word decodes, and re-encodes to itself (all 16 bits carry data;
    BGRX5551 ignores the top bit)."""
    fmt = V.ImageFormats[name]
    data = []
    for w in range(65536):
        data += [w & 255, w >> 8]
    try:
        dec = U.impl_dec(V, C, fmt, data, 65536)
        enc = U.impl_enc(V, C, fmt, dec)
    except Exception as e:  # noqa
        W(ctx, 'codec-' + name, f'{name}: decoding all words raised {type(e).__name__}: {e}', {'kind': 'words', 'fmt': name})
        return False
    want = data if name != 'BGRX5551' else [b if i % 2 == 0 else b & 0x7F for i, b in enumerate(data)]
    if enc != want:
        i = next(i for i in range(65536) if enc[2 * i:2 * i + 2] != want[2 * i:2 * i + 2])
        W(ctx, 'codec-' + name, f'{name}: stored word {data[2*i:2*i+2]} reads as pixel {tuple(dec[4*i:4*i+4])} which '
                    f'is stored as {enc[2*i:2*i+2]}', {'kind': 'words', 'fmt': name, 'word': data[2 * i:2 * i + 2]})
        return False
    return True


def check_bounds(ctx, V, w, h):
    ok = True
    fr = V.Frame(w, h)
    base = [(i * 37 + 11) & 255 for i in range(4 * w * h)]
    for x in range(-w - 2, w + 3):
        for y in range(-h - 2, h + 3):
            inside = 0 <= x < w and 0 <= y < h
            fr.copy_from(bytes(base))
            try:
                got = tuple(fr[x, y])
                exc = None
            except Exception as e:  # noqa
                got, exc = None, type(e).__name__
            if inside:
                want = tuple(base[4 * (y * w + x):4 * (y * w + x) + 4])
                good = got == want
            else:
                good = exc == 'IndexError'
            if not good:
                W(ctx, 'bounds', f'Frame({w}x{h})[{x}, {y}] -> {got if exc is None else exc}; expected '
                            f'{"the pixel" if inside else "IndexError"}', {'kind': 'bounds', 'w': w, 'h': h, 'x': x, 'y': y, 'op': 'get'})
                ok = False
            try:
                fr[x, y] = (1, 2, 3, 4)
                exc = None
            except Exception as e:  # noqa
                exc = type(e).__name__
            after = list(fr._data)
            if inside:
                want = list(base); want[4 * (y * w + x):4 * (y * w + x) + 4] = [1, 2, 3, 4]
                good = exc is None and after == want
            else:
                good = exc == 'IndexError' and after == base
            if not good:
                W(ctx, 'bounds', f'Frame({w}x{h})[{x}, {y}] = ... -> {exc or "stored"}'
                            f'{"" if after == base or inside else " and another pixel was overwritten"}; expected '
                            f'{"only that pixel to change" if inside else "IndexError"}',
                            {'kind': 'bounds', 'w': w, 'h': h, 'x': x, 'y': y, 'op': 'set'})
                ok = False
    return ok


def _avg(px, w, h):
    """floor average of 2x2 (2x1, 1x2) blocks: the documented bilinear mipmap."""
    nw, nh = max(w // 2, 1), max(h // 2, 1)
    sx, sy = (2 if nw != w else 1), (2 if nh != h else 1)
    out = []
    for y in range(nh):
        for x in range(nw):
            for c in range(4):
                s = 0
                for dy in range(2):
                    for dx in range(2):
                        xx = x * sx + (dx if sx == 2 else 0)
                        yy = y * sy + (dy if sy == 2 else 0)
                        s += px[4 * (yy * w + xx) + c]
                out.append(s // 4)
    return out


def sides(flags, minor, depth):
    if flags & 0x4000:
        return list(range(6 if minor >= 5 else 7))
    return list(range(depth))


def check_file(ctx, V, C, spec, deep=True):
    """The round-trip statement on one texture. Returns (ok, saved bytes or None, impl view or None)."""
    inp = {'kind': 'file', 'spec': spec}
    try:
        v, mj = U.build(V, spec)
    except Exception as e:  # noqa
        W(ctx, 'construct', f'VTF(...) raised {type(e).__name__}: {e}', inp)
        return False, None, None
    ok = True
    w, h = spec['w'], spec['h']
    created = sorted({f['key'][2] for f in mj['frames']})
    # the declared levels 0 .. mipmap_count-1 must exist, and there is at least the full-size image.
    # (The constructor creates one more level than it declares - the smallest one - for sizes >= 2: established
    # behaviour pinned by the repository's reference files; the declared structure is what must round-trip.)
    if not (1 <= v.mipmap_count <= len(created)):
        W(ctx, 'mipcount', f'VTF({w}, {h}) creates {len(created)} mipmap level(s) but declares mipmap_count = '
          f'{v.mipmap_count}' + (': the texture is saved without any image' if v.mipmap_count == 0 else ''), inp)
        ok = False
    levels = list(range(v.mipmap_count))
    for f in mj['frames']:
        m = f['key'][2]
        if (f['w'], f['h']) != (max(w >> m, 1), max(h >> m, 1)):
            W(ctx, 'mipdims', f'level {m} of {w}x{h} is {f["w"]}x{f["h"]}', inp); ok = False
    data = U.impl_save(V, v, spec)
    if isinstance(data, tuple) and data[1] == 'ValueError' and spec['depth'] > 1 and spec['save_minor'] is not None and spec['save_minor'] < 2:
        ctx.count('search:refused-depth-before-7.2')
        return ok, None, None        # documented refusal: volumetric textures need 7.2
    if isinstance(data, tuple):
        W(ctx, 'save-raises', f'VTF.save raised {data[1]} for {spec["w"]}x{spec["h"]} {spec["fmt"]}/{spec["thumb"]} '
                    f'7.{spec["minor"]}->{spec["save_minor"]}', inp)
        return False, None, None
    iv = U.impl_view(V, data)
    if 'err' in iv:
        W(ctx, 'read-raises', f'VTF.read of the saved file raised {iv["err"]}', inp)
        return False, data, iv
    tminor = spec['minor'] if spec['save_minor'] is None else spec['save_minor']
    # metadata
    want = {'minor': tminor, 'width': w, 'height': h, 'flags': spec['flags'], 'frame_count': spec['frames'],
            'first': spec['first'], 'refl': mj['refl'], 'bump': mj['bump'], 'fmt': mj['fmt'], 'low_fmt': mj['low_fmt'],
            'depth': spec['depth'] if tminor >= 2 else 1, 'mip_count': len(levels)}
    if tminor >= 3:
        # every resource keeps its id, position, kind and content; bit 0x02 of the flags is the storage kind
        # (rewritten by save), all other flag bits are data
        def norm(rs):
            return [(r['id'], r['flags'] & ~2, r['isbytes'], r['ival'], r['data']) for r in rs]
        if norm(iv['res']) != norm(spec['res']):
            W(ctx, 'meta', f'resources not reproduced: read {str(iv["res"])[:200]} saved {str(spec["res"])[:200]}', inp); ok = False
        if any(((r['flags'] & 2) == 0) != r['isbytes'] for r in iv['res']):
            W(ctx, 'meta', 'a resource read back has a storage-kind flag that contradicts its data', inp); ok = False
        if iv['sheet'] != mj['sheet']:
            W(ctx, 'meta', f'particle sheet not reproduced: {str(iv["sheet"])[:200]} vs {str(mj["sheet"])[:200]}', inp); ok = False
    for k, x in want.items():
        if iv[k] != x:
            W(ctx, 'meta' if k != 'mip_count' else 'mipcount', f'{k} not reproduced: saved {x}, read {iv[k]}', inp); ok = False
    # frame table = product of the header counts
    sd = sides(spec['flags'], tminor, spec['depth'])
    keys = [tuple(f['key']) for f in iv['frames']]
    want_keys = {(f, d, m) for f in range(spec['frames']) for d in sd for m in levels}
    if set(keys) != want_keys or len(keys) != len(want_keys):
        W(ctx, 'frame-table', f'frame keys read back are not frames x sides/depth x mipmaps: {len(keys)} keys, '
                    f'expected {len(want_keys)}', inp)
        ok = False
    # pixels
    orig = {tuple(f['key']): f['data'] for f in mj['frames']}
    exp = {}
    def unq(f, d, m):
        if (f, d, m) in exp:
            return exp[(f, d, m)]
        pw, ph = max(w >> m, 1), max(h >> m, 1)
        o = orig.get((f, d, m))
        if o is None:
            if m == 0 or (f, d, m) not in orig:
                o = [0, 0, 0, 255] * (pw * ph)
            else:
                o = _avg(unq(f, d, m - 1), max(w >> (m - 1), 1), max(h >> (m - 1), 1))
        exp[(f, d, m)] = o
        return o
    bad_px = None
    for fr in iv['frames']:
        k = tuple(fr['key'])
        if (fr['w'], fr['h']) != (max(w >> k[2], 1), max(h >> k[2], 1)):
            W(ctx, 'mipdims', f'frame {k} read back as {fr["w"]}x{fr["h"]}', inp); ok = False
            continue
        if isinstance(fr['px'], dict):
            W(ctx, 'pixels' if spec['save_minor'] in (None, spec['minor']) else 'cubemap-version',
                        f'loading frame {k} of the saved file raised {fr["px"]["err"]}', inp); ok = False
            continue
        if k not in orig:
            continue   # a side that did not exist in the source object (sphere map): unspecified content
        if k not in want_keys or spec.get('ops'):
            continue
        wantpx = U.quant_img(spec['fmt'], unq(*k))
        if fr['px'] != wantpx and bad_px is None:
            bad_px = k
            i = next(i for i in range(len(wantpx) // 4) if fr['px'][4 * i:4 * i + 4] != wantpx[4 * i:4 * i + 4])
            src = 'given' if orig.get(k) is not None else ('floor average of its parent' if k[2] else 'blank')
            key = 'pixels'
            if spec['fmt'] in ('RGB565', 'BGR565'):
                key = 'codec-' + spec['fmt']      # open finding: the 565 encoder exchanges red and blue
            elif spec['save_minor'] not in (None, spec['minor']) and spec['flags'] & 0x4000:
                key = 'cubemap-version'
            W(ctx, key, f'{spec["fmt"]} {w}x{h} 7.{spec["minor"]}->7.{tminor}: frame {k} ({src}) pixel {i}: read '
                        f'{fr["px"][4*i:4*i+4]}, expected {wantpx[4*i:4*i+4]} (source {unq(*k)[4*i:4*i+4]})', inp)
            ok = False
    if deep and ok:
        # storing again changes nothing: save(read(saved)) == saved
        try:
            r = V.VTF.read(BytesIO(data))
            b2 = BytesIO()
            r.save(b2, sheet_seq_version=spec['sheetver'], asw_or_later=spec['asw'])
            if b2.getvalue() != data:
                d2 = b2.getvalue()
                i = next((i for i in range(min(len(d2), len(data))) if d2[i] != data[i]), min(len(d2), len(data)))
                f565 = [n for n in (spec['fmt'], spec['thumb']) if n in ('RGB565', 'BGR565')]
                if all(((s['flags'] & 2) == 0) == s['isbytes'] for s in spec['res']):
                    W(ctx, 'codec-' + f565[0] if f565 else 'resave', f'saving the read-back texture again changes the file (first difference at byte {i}, '
                                f'lengths {len(data)} -> {len(d2)})', inp)
                    ok = False
        except Exception as e:  # noqa
            W(ctx, 'resave', f'saving the read-back texture raised {type(e).__name__}: {e}', inp); ok = False
        # VTF.get() addresses exactly the frames of the table
        try:
            r = iv['_obj']
            cube = bool(spec['flags'] & 0x4000)
            for k, fr in r._frames.items():
                f, d, m = U.key_val(k)
                g = r.get(frame=f, side=V.CubeSide(d), mipmap=m) if cube else r.get(frame=f, depth=d, mipmap=m)
                if g is not fr:
                    W(ctx, 'get', f'VTF.get(frame={f}, depth/side={d}, mipmap={m}) returns another frame', inp); ok = False
                    break
            if len(r) != len(r._frames):
                W(ctx, 'get', 'len(vtf) is not the number of frames', inp); ok = False
            for bad, exc in (([dict(side=V.CubeSide.FRONT, depth=1)], 'TypeError'),
                             ([dict()] if cube else [], 'ValueError'),
                             ([dict(frame=spec['frames'])], 'KeyError'), ([dict(mipmap=len(levels))], 'KeyError')):
                for kw in bad:
                    if cube and 'side' not in kw and exc == 'KeyError':
                        kw = dict(kw, side=V.CubeSide.FRONT)
                    try:
                        r.get(**kw); got = None
                    except Exception as e:  # noqa
                        got = type(e).__name__
                    if got != exc:
                        W(ctx, 'get', f'VTF.get({kw}) -> {got}, expected {exc}', inp); ok = False
        except Exception as e:  # noqa
            W(ctx, 'get', f'VTF.get raised {type(e).__name__}: {e}', inp); ok = False
        # header_only: same metadata and frame table, frames are blank
        hv = U.impl_view(V, data, header_only=True)
        if 'err' in hv:
            W(ctx, 'header-only', f'VTF.read(header_only=True) raised {hv["err"]}', inp); ok = False
        else:
            for kk in U.VIEW_KEYS:
                if hv[kk] != iv[kk]:
                    W(ctx, 'header-only', f'header_only read differs in {kk}: {hv[kk]} vs {iv[kk]}', inp); ok = False
            if [(f['key'], f['w'], f['h']) for f in hv['frames']] != [(f['key'], f['w'], f['h']) for f in iv['frames']]:
                W(ctx, 'header-only', 'header_only read has a different frame table', inp); ok = False
            if any(f['px'] != [0, 0, 0, 255] * (f['w'] * f['h']) for f in hv['frames']):
                W(ctx, 'header-only', 'header_only frames are not opaque black', inp); ok = False
        # bounds on a frame that came from a file
        try:
            r = V.VTF.read(BytesIO(data))
            k0 = next(iter(r._frames))
            fr = r._frames[k0]
            for (x, y) in [(-1, 0), (0, -1), (fr.width, 0), (0, fr.height), (fr.width - 1, fr.height - 1)]:
                inside = 0 <= x < fr.width and 0 <= y < fr.height
                try:
                    p = tuple(fr[x, y]); exc = None
                except Exception as e:  # noqa
                    p, exc = None, type(e).__name__
                if (inside and exc) or (not inside and exc != 'IndexError'):
                    W(ctx, 'bounds', f'frame {fr.width}x{fr.height} of a read file: [{x}, {y}] -> {p if exc is None else exc}',
                                {'kind': 'bounds', 'w': fr.width, 'h': fr.height, 'x': x, 'y': y, 'op': 'get'})
                    ok = False
        except StopIteration:
            pass
    return ok, data, iv


def check_lazy_resave(ctx, V, C, name, seed):
    """read a saved file WITHOUT loading it, save it, read it back: every stored frame (hand-authored mipmaps that are not
    the average of their parent) must come back unchanged; same after an explicit VTF.load()."""
    rng = random.Random(f'lazy:{name}:{seed}')
    spec = U.gen_spec(rng, [name], max_log=3)
    spec.update({'w': 8, 'h': 4, 'frames': 2, 'depth': 1, 'fill': 'all', 'fmt': name, 'save_minor': None, 'ops': [],
                 'thumb': rng.choice(['NONE', name, 'BGRA8888']), 'flags': spec['flags'] & ~0x4000})
    inp = {'kind': 'lazy', 'fmt': name, 'seed': seed}
    key = 'codec-' + name if name in ('RGB565', 'BGR565') or spec['thumb'] in ('RGB565', 'BGR565') else 'lazy-resave'
    try:
        v, mj = U.build(V, spec)
        d1 = U.impl_save(V, v, spec)
        v1 = U.impl_view(V, d1)
        for loaded in (False, True):
            r = V.VTF.read(BytesIO(d1))
            if loaded:
                r.load()
            b2 = BytesIO()
            r.save(b2, sheet_seq_version=spec['sheetver'], asw_or_later=spec['asw'])
            v2 = U.impl_view(V, b2.getvalue())
            for fa, fb in zip(v1['frames'], v2['frames']):
                if fa['key'] != fb['key'] or fa['px'] != fb['px']:
                    W(ctx, key, f'{name}: after read{" + load()" if loaded else " (frames never loaded)"} -> save -> read, frame '
                      f'{fa["key"]} changed: {str(fb["px"])[:60]} instead of {str(fa["px"])[:60]}', inp)
                    return False
            if len(v1['frames']) != len(v2['frames']) or any(v1[k] != v2[k] for k in U.VIEW_KEYS):
                W(ctx, key, f'{name}: metadata / frame table changed by read -> save -> read', inp)
                return False
            if not loaded and b2.getvalue() != d1:
                W(ctx, key, f'{name}: read (lazy) -> save does not reproduce the file', inp)
                return False
    except Exception as e:  # noqa
        W(ctx, key, f'{name}: read -> save -> read raised {type(e).__name__}: {e}', inp)
        return False
    return True


def _hist_spec(rng, names):
    s = U.gen_spec(rng, names, max_log=3)
    lw, lh = rng.choice([(2, 2), (3, 3), (3, 2), (2, 3), (4, 4), (4, 2), (1, 3), (5, 5)])
    s.update({'w': 1 << lw, 'h': 1 << lh, 'frames': rng.choice([1, 1, 2]), 'depth': 1 if s['flags'] & 0x4000 else rng.choice([1, 1, 2]),
              'fill': rng.choice(['top', 'all', 'some']), 'ops': [], 'save_minor': None, 'sheet': [], 'res': s['res'][:1]})
    if (lw, lh) == (5, 5):
        s['frames'] = 1; s['depth'] = 1; s['flags'] &= ~0x4000
    s['_names'] = names
    return s


def check_history(ctx, V, C, spec, ops, record=True, start='ctor'):
    """The property along a history on ONE live object: after every save, cleared mipmaps are the floor average of their
    parent and the file read back holds what the object holds. Returns (ok, saves, model json)."""
    inp = {'kind': 'history', 'spec': {k: v for k, v in spec.items() if k != '_names'}, 'ops': ops, 'start': start}
    try:
        saves, problems, mj, other_px = U.run_history_impl(V, spec, ops, start)
    except Exception as e:  # noqa
        if record:
            W(ctx, 'history', f'history raised {type(e).__name__}: {e}', inp)
        return False, [], None, {}
    if problems and record:
        f565 = spec['fmt'] in ('RGB565', 'BGR565') or any(o[0] == 'fmt' and o[1] in ('RGB565', 'BGR565') for o in ops)
        W(ctx, 'history', f'{spec["w"]}x{spec["h"]} {spec["fmt"]}, object {"read lazily from a file" if start == "read" else "built"}, '
          f'history {_fmt_ops(ops)}: {problems[0][1]}', inp)
    return not problems, saves, mj, other_px


def _fmt_ops(ops):
    out = []
    for o in ops:
        if o[0] == 'set': out.append(f'copy_from{tuple(o[1:4])}')
        elif o[0] == 'fclear': out.append(f'Frame{tuple(o[1:4])}.clear()')
        elif o[0] == 'copy': out.append(f'Frame{tuple(o[1:4])}.copy_from({o[4]}{tuple(o[5:8]) if o[4] in ("same", "other_lazy", "other_loaded") else ""})')
        elif o[0] == 'rescale': out.append(f'Frame{tuple(o[1:4])}.rescale_from(Frame{tuple(o[4:7])}, {o[7]})')
        elif o[0] == 'pixel': out.append(f'Frame{tuple(o[1:4])}[{o[4]},{o[5]}]=..')
        elif o[0] == 'fill': out.append(f'Frame{tuple(o[1:4])}.fill')
        elif o[0] == 'save': out.append('save()' if o[1] is None else f'save(7.{o[1]})')
        elif o[0] == 'compute': out.append(f'compute_mipmaps({o[1]})')
        elif o[0] == 'clearmips': out.append(f'clear_mipmaps({o[1]})')
        else: out.append(o[0] + (f'={o[1]}' if len(o) > 1 else '()'))
    return ' ; '.join(out)


def _block_oracle(src, sw, sh, w, h, filt):
    """C15_bilinear / C15_nearest: destination pixel (x, y) from the sx x sy block of the source."""
    sx, sy = sw // w, sh // h
    out = []
    for y in range(h):
        for x in range(w):
            for c in range(4):
                S = lambda dx, dy: src[4 * (sw * (sy * y + dy) + sx * x + dx) + c]
                if filt == 4:
                    out.append((S(0, 0) + S(sx - 1, 0) + S(0, sy - 1) + S(sx - 1, sy - 1)) // 4)
                else:
                    out.append(S(sx - 1 if filt % 2 == 1 else 0, sy - 1 if filt // 2 == 1 else 0))
    return out


def check_rescale(ctx, V, sw, sh, w, h, filt, seed):
    """Frame.rescale_from on one shape transition against the block average / corner pixel."""
    from array import array
    r = random.Random(f'rescale:{sw}:{sh}:{w}:{h}:{filt}:{seed}')
    src = [r.choice(U.GRID9) if r.random() < 0.3 else r.randrange(256) for _ in range(4 * sw * sh)]
    inp = {'kind': 'rescale', 'sw': sw, 'sh': sh, 'w': w, 'h': h, 'filt': filt, 'seed': seed}
    try:
        big = V.Frame(sw, sh); big.copy_from(bytes(src))
        small = V.Frame(w, h)
        small.rescale_from(big, V.FilterMode(filt))
        got = list(small._data)
    except Exception as e:  # noqa
        W(ctx, 'scale-down', f'Frame({w}x{h}).rescale_from({sw}x{sh}, filter {filt}) raised {type(e).__name__}: {e}', inp)
        return False
    want = _block_oracle(src, sw, sh, w, h, filt)
    if got != want:
        i = next(i for i in range(len(want)) if got[i] != want[i])
        W(ctx, 'scale-down', f'Frame({w}x{h}).rescale_from({sw}x{sh}, filter {filt}): component {i} is {got[i]}, the '
          f'{"floor average of the source block" if filt == 4 else "selected source pixel"} is {want[i]}', inp)
        return False
    return True


def handmade_vtf(w, h, levels, fmt_ind=0, minor=2):
    """A 7.2 file built byte by byte: one frame, FULL mipmap chain down to 1x1, no thumbnail. `levels[m]` = RGBA bytes of level m."""
    hdr = b'VTF\0' + struct.pack('<II', 7, minor) + struct.pack('<IHHIHH4xfff4xfiBiBB', 80, w, h, 0, 1, 0, 0.5, 0.25, 1.0, 1.0,
                                                                  fmt_ind, len(levels), -1, 0, 0)
    hdr += struct.pack('<H', 1) + bytes(15)
    assert len(hdr) == 80
    body = b''.join(bytes(levels[m]) for m in reversed(range(len(levels))))
    return hdr + body


def check_full_chain(ctx, V, C, w, h, seed, via):
    """A non-square texture with a complete chain to 1x1 (which VTF() never builds): read from hand-made bytes, mipmaps
    cleared, regenerated (by save / compute_mipmaps), saved, read back: every level is the floor average of its parent."""
    r = random.Random(f'chain:{w}:{h}:{seed}')
    n = max(w, h).bit_length()
    dims = [(max(w >> m, 1), max(h >> m, 1)) for m in range(n)]
    levels = [[r.randrange(256) for _ in range(4 * a * b)] for a, b in dims]
    inp = {'kind': 'chain', 'w': w, 'h': h, 'seed': seed, 'via': via}
    try:
        data = handmade_vtf(w, h, levels)
        v = V.VTF.read(BytesIO(data))
        got = {U.key_val(k)[2]: None for k in v._frames}
        if sorted(got) != list(range(n)):
            W(ctx, 'full-chain', f'{w}x{h} file with {n} mipmaps is read as levels {sorted(got)}', inp); return False
        for m in range(n):
            fr = v.get(mipmap=m)
            if (fr.width, fr.height) != dims[m] or list(bytes(fr)) != levels[m]:
                W(ctx, 'full-chain', f'{w}x{h}: level {m} of the hand-made file is not read back', inp); return False
        v.clear_mipmaps()
        if via == 'compute':
            v.compute_mipmaps()
        b = BytesIO(); v.save(b)
        v2 = V.VTF.read(BytesIO(b.getvalue()))
        prev = levels[0]
        for m in range(n):
            px = list(bytes(v2.get(mipmap=m)))
            want = prev if m == 0 else _block_oracle(prev, dims[m - 1][0], dims[m - 1][1], dims[m][0], dims[m][1], 4)
            if px != want:
                i = next(i for i in range(len(want)) if px[i] != want[i])
                W(ctx, 'full-chain', f'{w}x{h} read from a file, clear_mipmaps(), {via}, save, read: level {m} '
                  f'({dims[m][0]}x{dims[m][1]}) component {i} is {px[i]}, the floor average of its {dims[m-1][0]}x{dims[m-1][1]} '
                  f'parent is {want[i]}', inp)
                return False
            prev = px
    except Exception as e:  # noqa
        W(ctx, 'full-chain', f'{w}x{h} full-chain file ({via}): {type(e).__name__}: {e}', inp)
        return False
    return True


# ------------------------------------------------------------------ correspondence

def correspond(ctx, drivers):
    V, C = U.mods()
    drv = drivers['drv_c15']
    by = U.fmt_by_ind(V)
    wr = U.writable_inds(V, C)
    names = [by[i].name for i in wr]
    # A. tables: runtime enumeration vs Gen vs model
    t = drv.batch([{'op': 'tables'}])[0]
    fm, cd = U.impl_tables(V, C)
    ctx.case({'tables': len(fm)}, nontrivial=True)
    if t['gen_formats'] != fm:
        ctx.disagree({'op': 'tables'}, fm, t['gen_formats'], 'ImageFormats members vs Gen.Vtf.formats')
    if t['model_formats'] != fm:
        ctx.disagree({'op': 'tables'}, fm, t['model_formats'], 'ImageFormats members vs model table')
    if [c[:3] for c in t['model_codecs']] != cd:
        ctx.disagree({'op': 'tables'}, cd, [c[:3] for c in t['model_codecs']], '_LOAD/_SAVE registry vs model codec flags')
    if [c[:3] for c in t['gen_codecs']] != cd:
        ctx.disagree({'op': 'tables'}, cd, [c[:3] for c in t['gen_codecs']], '_LOAD/_SAVE registry vs Gen.Vtf.codecs flags')
    ctx.traces_vs_impl += 1
    # B. decode, C. encode
    reqs, meta = [], []
    per_pixel = [c[0] for c in t['model_codecs'] if c[1] and c[3] == 4]
    for ind in per_pixel:
        f = by[ind]
        bpp = f.size // 8
        data = _dec_inputs(ctx, bpp)
        n = len(data) // bpp
        try:
            impl = U.impl_dec(V, C, f, data, n)
        except Exception as e:  # noqa
            impl = {'err': type(e).__name__}
        reqs.append({'op': 'dec', 'fmt': ind, 'bytes': data})
        meta.append(('dec', f.name, data, impl, bpp))
        ctx.count(f'decode:{f.name}', n)
    px = _pixel_sets(ctx)
    for ind in wr:
        f = by[ind]
        try:
            impl = U.impl_enc(V, C, f, px)
        except Exception as e:  # noqa
            impl = {'err': type(e).__name__}
        reqs.append({'op': 'enc', 'fmt': ind, 'px': px})
        meta.append(('enc', f.name, px, impl, 4))
        ctx.count(f'encode:{f.name}', len(px) // 4)
    for (kind, name, data, impl, bpp), rep in zip(meta, drv.batch(reqs)):
        got = rep.get('px' if kind == 'dec' else 'bytes')
        n = len(data) // bpp
        ctx.evaluations += n
        ctx._distinct.add((kind, name, n).__hash__().to_bytes(8, 'little', signed=True))
        ctx.traces_vs_impl += 1
        if got != impl:
            where = f'{"load" if kind == "dec" else "save"}_{name.lower()}'
            if isinstance(impl, list) and isinstance(got, list) and len(got) == len(impl):
                ob = len(impl) // n
                i = next(i for i in range(n) if impl[ob * i:ob * i + ob] != got[ob * i:ob * i + ob])
                ctx.disagree({'op': kind, 'fmt': name, 'in': data[bpp * i:bpp * i + bpp]}, impl[ob * i:ob * i + ob], got[ob * i:ob * i + ob], where)
            else:
                ctx.disagree({'op': kind, 'fmt': name}, str(impl)[:100], str(got)[:100], where)
    ctx.samples.append({'op': 'dec', 'fmt': 'BGRA5551', 'bytes': 'all 65536 words'})
    # D. mipmap chains
    reqs, meta = [], []
    for lw in range(0, 13):
        for lh in range(0, 13):
            w, h = 1 << lw, 1 << lh
            v = V.VTF(w, h)
            lv = {}
            for (f, d, m), fr in v._frames.items():
                lv[m] = [fr.width, fr.height]
            impl = {'levels': [lv[m] for m in sorted(lv)], 'count': v.mipmap_count,
                    'reader': [[max(w >> m, 1), max(h >> m, 1)] for m in sorted(lv)]}
            reqs.append({'op': 'mips', 'w': w, 'h': h}); meta.append(impl)
            ctx.case({'op': 'mips', 'w': w, 'h': h}, nontrivial=True, sample_every=50)
            ctx.count('mips')
    for rq, impl, rep in zip(reqs, meta, drv.batch(reqs)):
        ctx.traces_vs_impl += 1
        if rep != impl:
            ctx.disagree(rq, impl, rep, 'VTF.__init__ mipmap chain')
    # E. scale_down
    reqs, meta = [], []
    from array import array
    rng = ctx.rng
    for sw, sh in itertools.product([1, 2, 4, 8], repeat=2):
        for w, h in {(sw, sh), (max(sw // 2, 1), sh), (sw, max(sh // 2, 1)), (max(sw // 2, 1), max(sh // 2, 1))}:
            if not ((w == sw or 2 * w == sw) and (h == sh or 2 * h == sh)):
                continue
            for filt in V.FilterMode:
                for rep_ in range(ctx.budget(1, 4)):
                    src = [rng.choice(U.GRID9) if rng.random() < 0.3 else rng.randrange(256) for _ in range(4 * sw * sh)]
                    dest = array('B', [9, 9, 9, 9] * (w * h))
                    try:
                        C.scale_down(filt, sw, sh, w, h, array('B', src), dest)
                        impl = {'dst': list(dest)}
                    except Exception as e:  # noqa
                        impl = {'err': type(e).__name__}
                    rq = {'op': 'scale', 'filt': filt.value, 'sw': sw, 'sh': sh, 'w': w, 'h': h, 'src': src}
                    reqs.append(rq); meta.append(impl)
                    ctx.case(rq, nontrivial=(w, h) != (sw, sh), sample_every=211)
                    ctx.count(f'scale:{filt.name}')
    for rq, impl, rep in zip(reqs, meta, drv.batch(reqs)):
        ctx.traces_vs_impl += 1
        if rep != impl:
            ctx.disagree(rq, impl, rep, 'scale_down')
    # F. Frame indexing
    reqs, meta = [], []
    for w, h in [(1, 1), (2, 2), (1, 4), (4, 1), (3, 2), (4, 4), (8, 2)]:
        base = [(i * 37 + 11) & 255 for i in range(4 * w * h)]
        for x in range(-w - 2, w + 3):
            for y in range(-h - 2, h + 3):
                fr = V.Frame(w, h)
                fr.copy_from(bytes(base))
                try:
                    p = list(fr[x, y])
                    off = next((o for o in range(0, len(base), 4) if base[o:o + 4] == p), -1) if len(set(map(tuple, [base[o:o+4] for o in range(0, len(base), 4)]))) == w * h else None
                    gi = {'get': 'ok', 'px': p}
                except Exception as e:  # noqa
                    gi = {'get': type(e).__name__}
                try:
                    fr[x, y] = (1, 2, 3, 4)
                    gi['set'] = 'ok'
                except Exception as e:  # noqa
                    gi['set'] = type(e).__name__
                gi['after'] = list(fr._data)
                reqs.append({'op': 'index', 'w': w, 'h': h, 'x': x, 'y': y}); meta.append((gi, base))
                ctx.case({'op': 'index', 'w': w, 'h': h, 'x': x, 'y': y}, nontrivial=True, sample_every=301)
                ctx.count('index:' + ('in' if 0 <= x < w and 0 <= y < h else 'out'))
    for rq, (gi, base), rep in zip(reqs, meta, drv.batch(reqs)):
        ctx.traces_vs_impl += 1
        off = rep['off']
        if off is None:
            want = {'get': 'IndexError', 'set': 'IndexError', 'after': base}
        else:
            after = list(base); after[off:off + 4] = [1, 2, 3, 4]
            want = {'get': 'ok', 'px': base[off:off + 4], 'set': 'ok', 'after': after}
        if gi != want:
            ctx.disagree(rq, {k: (v if k != 'after' else 'changed' if v != base else 'unchanged') for k, v in gi.items()},
                         {k: (v if k != 'after' else 'changed' if v != base else 'unchanged') for k, v in want.items()},
                         'Frame.__getitem__/__setitem__')
    # H. frame_size of every format (block formats included), I. rescale_from's size check
    reqs, meta = [], []
    for f in V.ImageFormats:
        for w, h in itertools.product(list(range(0, 10)) + [15, 16, 17, 31, 32, 33, 64], repeat=2):
            reqs.append({'op': 'fsize', 'fmt': f.ind, 'w': w, 'h': h}); meta.append({'n': f.frame_size(w, h)})
    ctx.count('frame_size', len(reqs))
    for w, h, lw, lh in itertools.product([1, 2, 3, 4, 8], repeat=4):
        try:
            V.Frame(w, h).rescale_from(V.Frame(lw, lh))
            okr = True
        except ValueError:
            okr = False
        reqs.append({'op': 'rescale_ok', 'w': w, 'h': h, 'lw': lw, 'lh': lh}); meta.append({'ok': okr})
        ctx.count('rescale_check')
    for rq, impl, rep in zip(reqs, meta, drv.batch(reqs)):
        ctx.evaluations += 1
        if rep != impl:
            ctx.disagree(rq, impl, rep, 'frame_size' if rq['op'] == 'fsize' else 'Frame.rescale_from size check')
    ctx.traces_vs_impl += 2
    # G. whole files
    specs = []
    n_small, n_big = ctx.budget(140, 1500), ctx.budget(4, 30)
    for i in range(n_small):
        specs.append(U.gen_spec(rng, names, max_log=4 if i % 3 else 2))
    for i in range(n_big):
        specs.append(U.gen_spec(rng, names, big=True))
    # every writable format at least once as image and as thumbnail, every version pair for cubemaps
    for nm in names:
        s = U.gen_spec(rng, names, max_log=3); s['fmt'] = nm; s['thumb'] = nm; s['save_minor'] = None; specs.append(s)
    for a in (2, 3, 4, 5):
        for b in (2, 3, 4, 5):
            s = U.gen_spec(rng, names, max_log=2); s['flags'] |= 0x4000; s['depth'] = 1; s['minor'] = a; s['save_minor'] = b
            s['fill'] = 'all'; specs.append(s)
    # a 64x64 texture whose 32x32 level regenerates the 16x16 thumbnail
    s = U.gen_spec(rng, names, big=True); s['w'] = s['h'] = 64; s['thumb'] = 'BGRA8888'; s['fill'] = 'top'; specs.append(s)
    _CACHE['specs'] = specs
    _CACHE['files'] = []
    reqs, meta = [], []
    for spec in specs:
        ok, data, iv = check_file(ctx, V, C, spec)
        _CACHE['files'].append((spec, ok))
        try:
            v, mj = U.build(V, spec)
        except Exception:  # noqa
            continue
        tminor = spec['minor'] if spec['save_minor'] is None else spec['save_minor']
        reqs.append({'op': 'save', 'vtf': mj, 'minor': tminor, 'sheetver': spec['sheetver'], 'asw': spec['asw'], 'ops': spec.get('ops') or []})
        d2 = U.impl_save(V, v, spec)
        meta.append(('save', spec, d2))
        if not isinstance(d2, tuple):
            reqs.append({'op': 'read', 'bytes': list(d2)})
            meta.append(('read', spec, U.impl_view(V, d2)))
        ctx.case({'op': 'file', 'spec': spec}, nontrivial=True, sample_every=97)
        ctx.count(f'file:{spec["w"]}x{spec["h"]}')
        ctx.count(f'file:fmt:{spec["fmt"]}'); ctx.count(f'file:thumb:{spec["thumb"]}')
        ctx.count(f'file:7.{spec["minor"]}->7.{tminor}')
        ctx.count('file:cubemap' if spec['flags'] & 0x4000 else f'file:depth{spec["depth"]}')
        ctx.count(f'file:frames{spec["frames"]}'); ctx.count(f'file:fill:{spec["fill"]}')
        ctx.count(f'file:res{len(spec["res"])}'); ctx.count(f'file:sheet{min(len(spec["sheet"]), 4)}')
        ctx.count(f'file:ops{len(spec.get("ops") or [])}')
    for (kind, spec, impl), rep in zip(meta, drv.batch(reqs, timeout=1500)):
        ctx.traces_vs_impl += 1
        if kind == 'save':
            if isinstance(impl, tuple):
                if 'err' not in rep:
                    ctx.disagree({'op': 'save', 'spec': spec}, impl[1], 'bytes', 'VTF.save error')
                continue
            if 'err' in rep:
                ctx.disagree({'op': 'save', 'spec': spec}, f'{len(impl)} bytes', rep, 'VTF.save')
            elif rep['bytes'] != list(impl):
                mb = rep['bytes']
                i = next((i for i in range(min(len(mb), len(impl))) if mb[i] != impl[i]), min(len(mb), len(impl)))
                ctx.disagree({'op': 'save', 'spec': spec}, {'len': len(impl), 'at': i, 'bytes': list(impl[i:i + 8])},
                             {'len': len(mb), 'at': i, 'bytes': mb[i:i + 8]}, 'VTF.save bytes')
        else:
            impl.pop('_obj', None)
            d = U.diff_views(impl, rep)
            if d is not None:
                ctx.disagree({'op': 'read', 'spec': spec}, d[1], d[2], 'VTF.read: ' + str(d[0]))

    # K. saving a file that was read: lazily (frames never loaded), after VTF.load(), after clear_mipmaps / compute_mipmaps
    reqs, meta = [], []
    done = 0
    for spec, okf in _CACHE['files']:
        if done >= ctx.budget(60, 400) or spec['w'] * spec['h'] > 256:
            continue
        try:
            v, mj = U.build(V, spec)
            d = U.impl_save(V, v, spec)
        except Exception:  # noqa
            continue
        if isinstance(d, tuple):
            continue
        iv = U.impl_view(V, d)
        if 'err' in iv or any(isinstance(f['px'], dict) for f in iv['frames']) or (iv['low'] and isinstance(iv['low']['px'], dict)):
            continue
        mode = rng.choice([[], [], [[2, 0]], [[0, rng.choice([0, 1])]], [[1, rng.choice([0, 3, 4])]], [[2, 0], [0, 0]]])
        mj2 = {k: iv[k] for k in ('width', 'height', 'depth', 'minor', 'flags', 'frame_count', 'first', 'refl', 'bump', 'fmt',
                                  'low_fmt', 'mip_count', 'res', 'sheet')}
        mj2['low'] = {'w': iv['low_w'], 'h': iv['low_h'], 'data': None, 'file': iv['low']['px'] if iv['low'] else None}
        mj2['frames'] = [{'key': f['key'], 'w': f['w'], 'h': f['h'], 'data': None, 'file': f['px']} for f in iv['frames']]
        r = V.VTF.read(BytesIO(d))
        b2 = BytesIO()
        try:
            for op, arg in mode:
                if op == 2: r.load()
                elif op == 0: r.clear_mipmaps(after=arg)
                else: r.compute_mipmaps(V.FilterMode(arg))
            r.save(b2, sheet_seq_version=spec['sheetver'], asw_or_later=spec['asw'])
            impl = list(b2.getvalue())
        except Exception as e:  # noqa
            impl = {'err': type(e).__name__}
        reqs.append({'op': 'save', 'vtf': mj2, 'minor': iv['minor'], 'sheetver': spec['sheetver'], 'asw': spec['asw'], 'ops': mode})
        meta.append((spec, mode, impl))
        ctx.case({'op': 'resave', 'spec': spec, 'mode': mode}, nontrivial=True, sample_every=41)
        ctx.count('resave:' + ('lazy' if not mode else '+'.join(str(o[0]) for o in mode)))
        done += 1
    # ... and hand-made files with full chains to 1x1 (sizes the constructor never declares), cleared and regenerated
    for (w_, h_) in [(4, 16), (16, 4), (1, 8), (8, 1), (2, 16), (8, 8), (1, 2), (32, 4)]:
        r_ = random.Random(f'chainK:{w_}:{h_}:{ctx.seed}')
        n_ = max(w_, h_).bit_length()
        lv = [[r_.randrange(256) for _ in range(4 * max(w_ >> m, 1) * max(h_ >> m, 1))] for m in range(n_)]
        d = handmade_vtf(w_, h_, lv)
        iv = U.impl_view(V, d)
        if 'err' in iv:
            continue
        for mode in ([[0, 0]], [[0, 1], [1, 4]], [[0, 0], [1, 2]], []):
            mj2 = {k: iv[k] for k in ('width', 'height', 'depth', 'minor', 'flags', 'frame_count', 'first', 'refl', 'bump', 'fmt',
                                      'low_fmt', 'mip_count', 'res', 'sheet')}
            mj2['low'] = {'w': iv['low_w'], 'h': iv['low_h'], 'data': None, 'file': None}
            mj2['frames'] = [{'key': f['key'], 'w': f['w'], 'h': f['h'], 'data': None, 'file': f['px']} for f in iv['frames']]
            r = V.VTF.read(BytesIO(d)); b2 = BytesIO()
            try:
                for op, arg in mode:
                    if op == 0: r.clear_mipmaps(after=arg)
                    else: r.compute_mipmaps(V.FilterMode(arg))
                r.save(b2)
                impl = list(b2.getvalue())
            except Exception as e:  # noqa
                impl = {'err': type(e).__name__}
            spec = {'handmade': [w_, h_]}
            reqs.append({'op': 'save', 'vtf': mj2, 'minor': iv['minor'], 'sheetver': 1, 'asw': True, 'ops': mode})
            meta.append((spec, mode, impl))
            ctx.case({'op': 'resave-handmade', 'w': w_, 'h': h_, 'mode': mode}, nontrivial=True, sample_every=7)
            ctx.count('resave:handmade-full-chain')
    for (spec, mode, impl), rep in zip(meta, drv.batch(reqs, timeout=900)):
        ctx.traces_vs_impl += 1
        got = rep.get('bytes', rep)
        if got != impl:
            if isinstance(got, list) and isinstance(impl, list):
                i = next((i for i in range(min(len(got), len(impl))) if got[i] != impl[i]), min(len(got), len(impl)))
                ctx.disagree({'op': 'resave', 'spec': spec, 'mode': mode}, {'len': len(impl), 'at': i, 'bytes': impl[i:i + 8]},
                             {'len': len(got), 'at': i, 'bytes': got[i:i + 8]}, 'save of a read file')
            else:
                ctx.disagree({'op': 'resave', 'spec': spec, 'mode': mode}, str(impl)[:80], str(got)[:80], 'save of a read file')
    # L. histories on ONE live object: save / compute_mipmaps / clear_mipmaps / Frame.clear / edits / load / format changes,
    #    the model run as a state machine on the same sequence; every save's bytes compared
    reqs, meta = [], []
    hrng = random.Random(f'C15-hist:{ctx.seed}')
    _CACHE['histories'] = []
    for i in range(ctx.budget(150, 1200)):
        spec = _hist_spec(hrng, names)
        start = 'read' if i % 2 else 'ctor'
        spec['real_file'] = hrng.random() < 0.2
        ops = U.gen_history(hrng, spec, V, start)
        okh, saves, mj, other_px = check_history(ctx, V, C, spec, ops, start=start)
        _CACHE['histories'].append((spec, ops))
        if mj is None:
            continue
        dims = {tuple(f['key']): (f['w'], f['h']) for f in mj['frames']}
        reqs.append({'op': 'history', 'vtf': mj, 'ops': U.history_model_ops(V, spec, ops, dims, other_px)})
        ctx.count('history:start-' + start)
        meta.append((spec, ops, saves))
        ctx.case({'op': 'history', 'spec': {k: v for k, v in spec.items() if k != '_names'}, 'ops': ops}, nontrivial=True, sample_every=83)
        ctx.count(f'history:len{len(ops)}'); ctx.count(f'history:saves{sum(1 for o in ops if o[0] == "save")}')
        for o in ops:
            ctx.count('history-op:' + o[0])
    for (spec, ops, saves), rep in zip(meta, drv.batch(reqs, timeout=1500)):
        ctx.traces_vs_impl += 1
        ms = rep.get('saves', [])
        canon_i = ['err' if isinstance(x, tuple) else list(x) for x in saves]
        canon_m = ['err' if 'err' in x else x['bytes'] for x in ms]
        if canon_i != canon_m:
            j = next((j for j in range(min(len(canon_i), len(canon_m))) if canon_i[j] != canon_m[j]), min(len(canon_i), len(canon_m)))
            a = canon_i[j] if j < len(canon_i) else None; b = canon_m[j] if j < len(canon_m) else None
            if isinstance(a, list) and isinstance(b, list):
                i = next((i for i in range(min(len(a), len(b))) if a[i] != b[i]), min(len(a), len(b)))
                a, b = {'len': len(a), 'at': i, 'bytes': a[i:i + 8]}, {'len': len(b), 'at': i, 'bytes': b[i:i + 8]}
            ctx.disagree({'op': 'history', 'spec': {k: v for k, v in spec.items() if k != '_names'}, 'ops': ops, 'save_no': j},
                         str(a)[:120], str(b)[:120], 'history on one object: ' + _fmt_ops(ops)[:200])
    # J. readers on edited headers: every value of the two format fields, mipmap / frame / depth counts, flags, version
    reqs, meta = [], []
    bases = []
    for spec, okf in _CACHE['files'][:60]:
        if len(bases) >= 3 or spec.get('ops') or spec['w'] * spec['h'] > 64:
            continue
        try:
            v, mj = U.build(V, spec)
            d = U.impl_save(V, v, spec)
        except Exception:  # noqa
            continue
        if not isinstance(d, tuple):
            bases.append(d)
    for d in bases:
        edits = []
        for val in list(range(-2, 41)) + [255, 2 ** 31 - 1]:
            edits.append((52, struct.pack('<i', val))); edits.append((57, struct.pack('<i', val)))
        for val in (0, 1, 2, 3, 9):
            edits.append((56, bytes([val]))); edits.append((24, struct.pack('<H', val))); edits.append((63, struct.pack('<H', val)))
        for val in (0, 0x4000, 0x4001):
            edits.append((20, struct.pack('<I', val)))
        for val in (0, 1, 2, 3, 4, 5, 6):
            edits.append((8, struct.pack('<I', val)))
        edits.append((4, struct.pack('<I', 8))); edits.append((0, b'VTX\0'))
        for off, bs in edits:
            e = bytearray(d); e[off:off + len(bs)] = bs
            for cut in (None, 40, 70):
                e2 = bytes(e if cut is None else e[:cut])
                if cut is not None and off != 52:
                    continue
                iv = U.impl_view(V, e2, pixels=False); iv.pop('_obj', None)
                reqs.append({'op': 'read', 'bytes': list(e2)}); meta.append(iv)
                ctx.case({'op': 'crafted', 'off': off, 'bytes': list(bs), 'cut': cut}, nontrivial=True, sample_every=211)
                ctx.count('crafted-header:' + ('err' if 'err' in iv else 'ok'))
    for rq, iv, rep in zip(reqs, meta, drv.batch(reqs, timeout=900)):
        ctx.traces_vs_impl += 1
        d = U.diff_views(iv, rep)
        if d is not None:
            ctx.disagree({'op': 'read-crafted', 'head': rq['bytes'][:80]}, d[1], d[2], 'VTF.read (edited header): ' + str(d[0]))


# ------------------------------------------------------------------ direct search

def search(ctx):
    V, C = U.mods()
    names = _names(V, C)
    px = _pixel_sets(ctx)
    for nm in names:
        if check_codec(ctx, V, C, nm, px):
            ctx.count('search:codec-ok')
        if V.ImageFormats[nm].size == 16 and nm not in ('IA88', 'UV88'):
            check_words(ctx, V, C, nm)
    for w, h in [(1, 1), (2, 2), (4, 4), (1, 4), (4, 1), (3, 5)]:
        check_bounds(ctx, V, w, h)
    # scale_down through the public Frame.rescale_from: every shape transition (halved / unchanged in each direction), all filters
    for sw, sh in itertools.product([1, 2, 4, 8, 16], repeat=2):
        for w, h in sorted({(max(sw // 2, 1), max(sh // 2, 1)), (sw, max(sh // 2, 1)), (max(sw // 2, 1), sh), (sw, sh)}):
            for filt in (0, 1, 2, 3, 4):
                for sd in range(ctx.budget(1, 3)):
                    check_rescale(ctx, V, sw, sh, w, h, filt, sd)
                    ctx.count('search:rescale')
    # hand-made files with FULL chains to 1x1 (non-square too): read, clear, regenerate, save, read
    for w, h in [(4, 16), (16, 4), (1, 8), (8, 1), (2, 16), (16, 2), (8, 8), (1, 1), (2, 1), (1, 2), (32, 4), (4, 32)]:
        for via in ('save', 'compute'):
            check_full_chain(ctx, V, C, w, h, ctx.seed, via)
            ctx.count('search:full-chain')
    for nm in names:
        for sd in range(ctx.budget(2, 8)):
            check_lazy_resave(ctx, V, C, nm, sd)
            ctx.count('search:lazy-resave')
    if 'files' not in _CACHE:   # the correspondence did not run: do the whole-file round trips here
        rng = ctx.rng
        for i in range(ctx.budget(150, 1500)):
            check_file(ctx, V, C, U.gen_spec(rng, names, max_log=4 if i % 3 else 2))
    if 'histories' not in _CACHE:
        hrng = random.Random(f'C15-hist:{ctx.seed}')
        for i in range(ctx.budget(150, 1200)):
            spec = _hist_spec(hrng, names)
            start = 'read' if i % 2 else 'ctor'
            spec['real_file'] = hrng.random() < 0.2
            check_history(ctx, V, C, spec, U.gen_history(hrng, spec, V, start), start=start)
    # the canonical stale-mipmap history on every writable format: save, repaint level 0, clear level 1 by Frame.clear(), save
    for nm in names:
        spec = _hist_spec(random.Random(f'canon:{nm}'), names)
        spec.update({'w': 4, 'h': 4, 'frames': 1, 'depth': 1, 'flags': 0, 'fmt': nm, 'fill': 'top'})
        check_history(ctx, V, C, spec, [['save', None, 1, True], ['set', 0, 0, 0, 7], ['fclear', 0, 0, 1], ['fclear', 0, 0, 2],
                                        ['save', None, 1, True]])
        check_history(ctx, V, C, spec, [['compute', 4], ['fill', 0, 0, 0, [200, 100, 50, 250]], ['fclear', 0, 0, 1],
                                        ['compute', 4], ['save', None, 1, True]])
        # a file is read and a frame copied onto itself (also through its own buffer) before anything loaded it
        spec2 = dict(spec, fill='all')
        for form in ('self', 'ownview_flat', 'same'):
            check_history(ctx, V, C, spec2, [['copy', 0, 0, 0, form, 0, 0, 0, 1], ['copy', 0, 0, 1, form, 0, 0, 1, 2],
                                             ['save', None, 1, True, False]], start='read')
        ctx.count('search:history-canonical')
    # systematic small matrix, independent of the random specs: all sizes x versions, plain and cubemap
    rng = random.Random(f'C15-search:{ctx.seed}')
    for lw in range(0, 4):
        for lh in range(0, 4):
            for minor in (2, 3, 4, 5):
                for cube in (False, True):
                    s = U.gen_spec(rng, names, max_log=1)
                    s.update({'w': 1 << lw, 'h': 1 << lh, 'minor': minor, 'flags': 0x4000 if cube else 0, 'depth': 1,
                              'frames': 1, 'fill': 'top', 'fmt': rng.choice(names), 'thumb': 'NONE',
                              'save_minor': rng.choice([None, 2, 3, 4, 5]) if cube else None})
                    check_file(ctx, V, C, s, deep=(lw + lh) % 2 == 0)
                    ctx.count('search:file')
    # witnesses of repaired defects must stay repaired
    import common
    for k in common.load_known(PID):
        if k.get('status') == 'fixed' and k.get('witness'):
            replay(ctx, {'input': k['witness']}, quiet=True)
            ctx.count('search:fixed-witness-replayed')
    # neighbours of anything the model disagreed on
    for d in ctx.disagreements[:10]:
        sp = d['case'].get('spec')
        if sp:
            for mod in ({'frames': 1}, {'depth': 1}, {'w': 1, 'h': 1}, {'fill': 'top'}, {'save_minor': None}):
                s = dict(sp); s.update(mod)
                try:
                    check_file(ctx, V, C, s)
                except Exception:  # noqa
                    pass
    # shrink history witnesses: drop operations while the history still fails
    for wt in list(ctx.witnesses):
        if wt['input'].get('kind') != 'history':
            continue
        spec = dict(wt['input']['spec']); spec['_names'] = names
        ops = wt['input']['ops']
        def hfails(sub):
            if not sub or sub[-1][0] != 'save':
                sub = list(sub) + [['save', None, spec['sheetver'], spec['asw'], False]]
            try:
                okh, _, _, _ = check_history(ctx, V, C, spec, sub, record=False, start=wt['input'].get('start', 'ctor'))
            except Exception:  # noqa
                return False
            return not okh
        if hfails(ops):
            from common import ddmin
            small = ddmin(ops, hfails, budget=120)
            if small and small[-1][0] != 'save':
                small = small + [['save', None, spec['sheetver'], spec['asw'], False]]
            wt['input']['ops'] = small
            wt['what'] += f' [shrunk to: {_fmt_ops(small)}]'
        break
    # shrink file witnesses: smallest size / simplest options that still fail with the same key
    seen = set()
    for wt in list(ctx.witnesses):
        if wt['input'].get('kind') != 'file' or wt['key'] in seen:
            continue
        seen.add(wt['key'])
        spec = dict(wt['input']['spec'])
        def fails(s, key=wt['key']):
            c2 = type(ctx)(ctx.pid, ctx.tier, ctx.seed)
            try:
                check_file(c2, V, C, s, deep=(key == 'resave'))
            except Exception:  # noqa
                return False
            return any(x['key'] == key for x in c2.witnesses)
        for mod in ({'res': []}, {'sheet': []}, {'frames': 1}, {'depth': 1}, {'thumb': 'NONE'}, {'first': 0}, {'fill': 'top'},
                    {'w': 4}, {'h': 4}, {'w': 2}, {'h': 2}, {'w': 1}, {'h': 1}, {'flags': spec['flags'] & 0x4000}):
            s = dict(spec); s.update(mod)
            if s != spec and fails(s):
                spec = s
        wt['input']['spec'] = spec
        wt['what'] += f' [shrunk to {spec["w"]}x{spec["h"]} {spec["fmt"]} 7.{spec["minor"]}->{spec["save_minor"]} frames={spec["frames"]} depth={spec["depth"]} flags={spec["flags"]:#x}]'


def replay(ctx, payload, quiet=False):
    V, C = U.mods()
    inp = payload.get('input') or {}
    kind = inp.get('kind')
    n0 = len(ctx.witnesses)
    if kind == 'codec':
        check_codec(ctx, V, C, inp['fmt'], inp['px'])
    elif kind == 'words':
        check_words(ctx, V, C, inp['fmt'])
    elif kind == 'bounds':
        check_bounds(ctx, V, inp['w'], inp['h'])
    elif kind == 'file':
        check_file(ctx, V, C, inp['spec'])
    elif kind == 'lazy':
        check_lazy_resave(ctx, V, C, inp['fmt'], inp['seed'])
    elif kind == 'rescale':
        check_rescale(ctx, V, inp['sw'], inp['sh'], inp['w'], inp['h'], inp['filt'], inp['seed'])
    elif kind == 'chain':
        check_full_chain(ctx, V, C, inp['w'], inp['h'], inp['seed'], inp['via'])
    elif kind == 'history':
        sp = dict(inp['spec']); sp['_names'] = _names(V, C)
        check_history(ctx, V, C, sp, inp['ops'], start=inp.get('start', 'ctor'))
    else:
        print('replay file names a broken obligation/correspondence, no input to replay:', payload.get('broken_obligations'),
              payload.get('disagreements', [])[:1])
        return False
    for w in ctx.witnesses[n0:]:
        if not quiet:
            print('  ', w['key'], '-', w['what'])
    return len(ctx.witnesses) == n0


def replay_known(ctx, finding):
    c2 = type(ctx)(ctx.pid, ctx.tier, ctx.seed)
    ok = replay(c2, {'input': finding.get('witness')})
    return not ok


LEVEL_TEXT = ("Lean theorems over ALL pixels / words / sizes: for the 18 lawful writable formats load(save p) = documented "
              "quantisation and save(load(save p)) = save p, also for whole RGBA arrays (C15_exact_*, C15_quant_*, C15_roundtrip, "
              "C15_idempotent, C15_frame_roundtrip), every stored 16-bit word is a fixed point (C15_words_*), proved through a "
              "verified bit-routing decision procedure on the codec expressions (no enumeration); the expressions are regenerated "
              "from the Python source by symbolic execution and proved equal to the model's (C15_gen_codecs). RGB565/BGR565 are an "
              "open finding: C15_565_defect proves the law false for the code as it is, C15_quant_565_partial the strongest true "
              "statement, C15_565_repaired that the blocked patch is right. Constructor mip chain = sizes the reader computes "
              "(C15_mips), scale_down = floor average / corner pixel (C15_bilinear, C15_nearest), pixel access succeeds iff in "
              "range (C15_bounds), stored frame keys = product of the header counts (C15_keys), writer and reader lay frames out "
              "identically (C15_layout). save/read bytes incl. resource table and sheet data are tied by a byte-for-byte "
              "differential run of model vs implementation.")
LEVEL_NOTE = ("Trusted: Lean kernel + propext/Classical.choice/Quot.sound; tools/gen_vtf.py; the harness. The whole-file "
              "header/resource/sheet round trip is established by byte-exact correspondence and direct search, not by a Lean "
              "theorem. Open known finding: RGB565/BGR565 exchange red and blue (repair blocked by the repository's reference "
              "files). DXT/ATI block codecs and the Cython twin's control flow are not covered.")
TECHNIQUE = ("Lean 4: codecs as expression data + sound abstract interpretation (bit routing) decided by `decide`; induction for "
             "mip chains, frame tables and chunked images; translator (symbolic execution of the Python codecs over ast) + exhaustive "
             "65 536-word and grid differential correspondence + byte-exact file model; direct round-trip search on the implementation")
DESIGN_REF = "DESIGN.md section 6, C15"
