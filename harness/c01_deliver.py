"""Delivery forms for Keyvalues.parse(): every way the property lets the text reach the parser.

A delivery descriptor is a small JSON-able dict {'form': name, 'cuts': [ints], 'prefix': str}; `deliver`
turns (descriptor, text) into
    src      the object handed to Keyvalues.parse
    chunks   the exact chunk sequence that iterating the object yields from its CURRENT state (None for a
             str) - a file object is parsed from its current position, so an already consumed prefix is not
             part of the text; obtained from an independent twin object put through the same operations
             (CPython's io is trusted)
    finish   callable run after the parse: cleans up and returns None or a description of what went wrong
             (container mutated / consumed)
The text the model parses is ''.join(chunks).  With newline translation (form 'file_translate') the
delivered text is the translated one.
"""
import io, os, itertools, collections, tempfile, atexit, shutil

# consumed prefixes: each would change the parse if it were (wrongly) read again
LINE_PREFIXES = ['kvdump 3\n', '"hdr" "x"\n', '}\n', '{\n', '"open"\n', '// header\n']
ANY_PREFIXES = LINE_PREFIXES + ['"hdr" "x" ', '} ', 'junk "', '"a"\n{\n', '"unterminated']

CONTAINER_FORMS = ['list', 'tuple', 'deque', 'custom', 'custom_named']
ITER_FORMS = ['gen', 'iter', 'chain', 'custom_once']
SIO_FORMS = ['sio', 'sio_read', 'sio_readline', 'sio_named', 'sio_second_half', 'sio_exhausted']
FILE_FORMS = ['file', 'file_read', 'file_readline', 'file_translate', 'file_translate_readline', 'file_exhausted',
              'wrapper', 'wrapper_readline']
FORMS = ['str'] + CONTAINER_FORMS + ITER_FORMS + SIO_FORMS + FILE_FORMS
# forms that deliver exactly the given text (usable for the round trip; newline translation is the identity on
# serialised text, which never contains a raw CR, but it is not on arbitrary documents)
PARTIAL_FORMS = {'sio_second_half', 'sio_exhausted', 'file_exhausted'}
RT_FORMS = [f for f in FORMS if f not in PARTIAL_FORMS]
REITERABLE = set(CONTAINER_FORMS)          # may be passed to parse twice

_TMP = None


def _tmpdir():
    global _TMP
    if _TMP is None:
        _TMP = tempfile.mkdtemp(prefix='verif_c01_')
        atexit.register(shutil.rmtree, _TMP, True)
    return _TMP


class Chunks:
    """A custom re-iterable of chunks (no __len__, no __getitem__)."""
    def __init__(self, items):
        self.items = list(items)

    def __iter__(self):
        return iter(list(self.items))


class NamedChunks(Chunks):
    name = 'named-chunks.kv'


class OnceChunks:
    """A custom one-shot iterator class."""
    def __init__(self, items):
        self._it = iter(list(items))

    def __iter__(self):
        return self

    def __next__(self):
        return next(self._it)


class NamedStringIO(io.StringIO):
    name = 'named-stream.kv'


def cut(text, cuts):
    """Deterministic chunk list from cut positions (taken modulo len+1); an empty chunk after odd cuts."""
    pos = sorted(set(c % (len(text) + 1) for c in cuts))
    out, last = [], 0
    for c in pos + [len(text)]:
        out.append(text[last:c])
        if c % 2:
            out.append('')
        last = c
    return out


def rand_desc(rng, form=None, roundtrip=False):
    form = form or rng.choice(RT_FORMS if roundtrip else FORMS)
    d = {'form': form, 'cuts': [rng.randrange(0, 400) for _ in range(rng.randrange(0, 6))]}
    if form in ('sio_readline', 'file_readline', 'file_translate_readline', 'wrapper_readline'):
        d['prefix'] = rng.choice(LINE_PREFIXES)
    elif form in ('sio_read', 'file_read'):
        d['prefix'] = rng.choice(ANY_PREFIXES)
    return d


def all_descs(roundtrip=False):
    """One or more deterministic descriptors of every form (used by replay and the small exhaustive part)."""
    out = []
    for f in (RT_FORMS if roundtrip else FORMS):
        if f in ('sio_readline', 'file_readline', 'file_translate_readline', 'wrapper_readline'):
            out += [{'form': f, 'cuts': [3, 8], 'prefix': p} for p in LINE_PREFIXES[:3]]
        elif f in ('sio_read', 'file_read'):
            out += [{'form': f, 'cuts': [3, 8], 'prefix': p} for p in (ANY_PREFIXES[0], ANY_PREFIXES[6], ANY_PREFIXES[8])]
        else:
            out.append({'form': f, 'cuts': [1, 4, 9]})
    return out


def _no_finish():
    return None


def deliver(desc, text):
    form, cuts, prefix = desc['form'], desc.get('cuts', []), desc.get('prefix', '')
    if form == 'str':
        return text, None, _no_finish
    pieces = cut(text, cuts)
    if form in CONTAINER_FORMS:
        src = {'list': list, 'tuple': tuple, 'deque': collections.deque, 'custom': Chunks,
               'custom_named': NamedChunks}[form](pieces)
        before = list(src)

        def fin():
            return None if list(src) == before else f'{form} of chunks was changed by parse()'
        return src, pieces, fin
    if form == 'gen':
        return (p for p in pieces), pieces, _no_finish
    if form == 'iter':
        return iter(pieces), pieces, _no_finish
    if form == 'custom_once':
        return OnceChunks(pieces), pieces, _no_finish
    if form == 'chain':
        h = len(pieces) // 2
        return itertools.chain(pieces[:h], pieces[h:]), pieces, _no_finish

    # ---- file objects: the text is what is left after the consumed prefix
    def prep(f):
        if form.endswith('readline'):
            got = f.readline()
            assert got == prefix, (form, got, prefix)
        elif form.endswith('_read'):
            got = f.read(len(prefix))
            assert got == prefix, (form, got, prefix)
        elif form == 'sio_second_half':
            f.read(len(text) - len(text) // 2)     # the caller already consumed the first half
        elif form.endswith('exhausted'):
            f.read()                               # everything consumed: nothing left to parse
        return f
    full = prefix + text
    if form in SIO_FORMS:
        cls = NamedStringIO if form == 'sio_named' else io.StringIO
        src, twin = prep(cls(full)), prep(cls(full))
        return src, list(twin), _no_finish
    if form in ('wrapper', 'wrapper_readline'):
        data = full.encode('utf-8')

        def mk():
            return prep(io.TextIOWrapper(io.BytesIO(data), encoding='utf-8', newline=''))
        return mk(), list(mk()), _no_finish
    if form in FILE_FORMS:
        path = os.path.join(_tmpdir(), 'doc.kv')
        with open(path, 'w', encoding='utf-8', newline='') as f:
            f.write(full)
        nl = None if 'translate' in form else ''
        src = prep(open(path, 'r', encoding='utf-8', newline=nl))
        with open(path, 'r', encoding='utf-8', newline=nl) as tw:
            chunks = list(prep(tw))

        def fin():
            src.close()
            return None
        return src, chunks, fin
    raise ValueError('unknown delivery form ' + form)
