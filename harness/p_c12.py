"""C12 — atomic file replacement: old or new contents, never a mixture.

Every run executes the *implementation* (`srctools.AtomicWriter`, `BSP.save`) in a fresh directory under
one `tempfile.mkdtemp()`, with the file-system entry points monkey-patched from here (c12_fs.Tracer):
  (1) the operation trace, the outcome and the directory bytes at EVERY operation boundary are compared with
      the Lean model (`drv_c12`) for the same script / fault plan / crash point / schedule;
  (2) a single OSError (and pairs of them) is injected at each boundary;
  (3) a forked child is killed (`os._exit`) at each boundary and the directory is inspected by the parent;
  (4) two writers run in lock-step threads under every interleaving of their boundaries.
The property oracle (`check_*`) is applied to every run, independently of the model.
"""
from __future__ import annotations
import os, sys, io, json, shutil, tempfile, threading, itertools, codecs, time, re
import c12_fs
from c12_fs import Tracer, LockStep, snapshot, make_fault

PID = 'C12'
GENS = ['save']
DRIVERS = ['drv_c12']
PROPS = 'Srctools.Props.C12'
RULE = ("single writer: every script of <= 2 (quick) / 3 (thorough) body actions over {write 'abc', write '', write 'Z', "
        "write 20000 bytes (> io buffer), seek 0, seek 1, seek 7 (past the end)} x body exception before each action "
        "(ValueError, KeyboardInterrupt) x old file absent/present x pre-existing tmp_1/tmp_2 decoys, plus utf8/utf16 text "
        "scripts and random longer scripts; for each: the unfaulted run, one injected OSError at each operation boundary "
        "(EEXIST/ENOENT/EIO/ENOSPC/EACCES as applicable), pairs of faults, a directory snapshot at every boundary (= crash "
        "point) and a real fork+os._exit kill at each boundary. two writers: every interleaving (DFS over the scheduler's "
        "choices) of their boundaries for several configurations (clean, body exception, faults at close/replace, decoys). "
        "histories: two AtomicWriter OBJECTS, each re-used for a list of uses (normal and exceptional exits), threads in "
        "lock-step: every interleaving for empty bodies, fixed 'the other slips in after k operations' patterns, random "
        "schedules and one injected fault at each boundary of sampled schedules; oracle after every operation. "
        "destination NAME SHAPES as a dimension: single writers on names with no/one/several suffixes, ending in .tmp, "
        "prefix/suffix/case twins and names of the code's own temp pattern tmp_<N> (keyed to the open finding), each with "
        "textually related bystander files, fault + crash at every boundary; pairs/triples of writers whose destinations differ "
        "only in the last suffix, are prefixes of each other, case twins, *.tmp (all interleavings for pairs with empty bodies). "
        "BSP.save: the sample tests/test_vec/rot_main.bsp stripped to ~2 kB and at full size, same treatment. "
        "A case = (scenario, fault plan, kill point / schedule); non-trivial = has a fault, a kill point, a body exception, "
        "a decoy or a second writer; distinct by content.")
TRUSTED = ["model: C12.step/run/run2 (lean/Srctools/Model/C12.lean); its parameters (exclusive create, close/replace guarded by "
           "unlink, counter start) are regenerated from AtomicWriter's AST by tools/gen_save.py on every run",
           "the OS: rename(2) replaces the destination atomically, O_EXCL create fails iff the name exists, a failed "
           "operation has no effect, a killed process leaves the directory as it was at the last completed operation",
           "instrumentation: harness/c12_fs.py patches io.open/builtins.open/os.replace/rename/unlink/remove/mkdir/… from the "
           "harness; code that reached the file system another way (os.open+os.write, subprocess) would not be seen"]
NOT_MODELLED = ["power-loss durability (no fsync in the code, none claimed)",
                "buffering inside io.BufferedWriter: the model writes through; the harness flushes after each write when it "
                "compares directory bytes with the model and additionally runs unflushed for the property oracle only",
                "destinations named tmp_<N> (the writer's own temp name pattern) and directories named tmp_<N>",
                "more than two concurrent writers; writers in other processes (only threads in lock-step are run)",
                "asynchronous exceptions (KeyboardInterrupt delivered inside __exit__ itself)"]
ASSUMPTIONS = ["the destination's file name is not of the form tmp_<N>",
               "an injected fault raises before the operation is performed (no effect)"]

DEST = 'out.bin'
DEST2 = 'second.bin'
KEEP = 'keep.txt'
KEEP_BYTES = b'bystander file, must never change\n'
OLD = b'OLD-CONTENT-0123456789'
OLD2 = b'old content of the second file'
BODY_MARK = 'c12-body-exception'
EXC = {'ValueError': ValueError, 'KeyboardInterrupt': KeyboardInterrupt}
FAULT_CODE = {'eexist': 1, 'enoent': 2, 'eio': 3, 'enospc': 3, 'eperm': 3}
OPNAMES = ['mkdir', 'create', 'write', 'seek', 'close', 'replace', 'unlink']
RESNAMES = ['ok', 'eexist', 'enoent', 'err']
OUTNAMES = ['ok', 'body', 'os']
TMP_RE = re.compile(r'^tmp_(0|[1-9][0-9]*)$')   # exactly the names f'tmp_{i}' can produce
SAMPLE_BSP = 'tests/test_vec/rot_main.bsp'


# --------------------------------------------------------------------------- scenarios

def data_of(spec):
    """'hex' string, or ['gen', n, seed] for a long pseudo-random chunk."""
    if isinstance(spec, str):
        return bytes.fromhex(spec)
    _, n, seed = spec
    return bytes((i * 7 + seed) % 251 for i in range(n))


def replay_script(ops):
    """Python statement of what a body script leaves in an initially empty file."""
    buf, pos = bytearray(), 0
    for op in ops:
        if op[0] == 'w':
            d = op[1]
            if d:
                if pos > len(buf):
                    buf.extend(b'\0' * (pos - len(buf)))
                buf[pos:pos + len(d)] = d
                pos += len(d)
        else:
            pos = op[1]
    return bytes(buf)


class Case:
    """One thing to run: initial directory, the destination, the callable under test and (for the model)
    the body script in bytes."""

    def __init__(self, desc, files, dest, call, script, exc_k, new):
        self.desc, self.files, self.dest, self.call = desc, files, dest, call
        self.script, self.exc_k, self.new = script, exc_k, new
        self.old = files.get(dest)

    def names(self):
        """file name -> model name; names of the code's temp pattern tmp_<N> are Name.tmp N (also when such a
        name is the destination), every other name is an opaque Name.file k."""
        codes = {}
        if not TMP_RE.match(self.dest):
            codes[self.dest] = [0, 0]
        k = 1
        for n in sorted(self.files):
            if n not in codes and not TMP_RE.match(n):
                codes[n] = [0, k]
                k += 1
        return codes


class KeyedCtx:
    """Oracle failures inside an excluded class are recorded under the key of its open known finding."""

    def __init__(self, ctx, key):
        self._c, self._k = ctx, key

    def witness(self, key, what, inp):
        # keep the (bounded) witness list free for failures outside the excluded class
        n = self._c.hist.get('excluded-class:' + self._k, 0)
        self._c.count('excluded-class:' + self._k)
        if n < 2:
            self._c.witness(self._k, f'[{key}] {what}', inp)

    def __getattr__(self, a):
        return getattr(self._c, a)


def name_code(codes, n):
    m = TMP_RE.match(n)
    if m:
        return [1, int(m.group(1))]
    if n not in codes:
        codes[n] = [0, 100 + len(codes)]
    return codes[n]


def writer_case(sc):
    """Scenario dict -> Case running AtomicWriter directly."""
    mode = sc['mode']
    ops = []
    enc = None if mode == 'b' else codecs.getincrementalencoder(mode)()
    for op in sc['script']:
        if op[0] == 'w':
            ops.append(('w', data_of(op[1])))
        elif op[0] == 't':
            ops.append(('w', enc.encode(op[1])))
        else:
            ops.append(('s', op[1]))
    exc = sc.get('exc')
    dest = sc.get('dest', DEST)
    files = {KEEP: KEEP_BYTES}
    if sc.get('old') is not None:
        files[dest] = bytes.fromhex(sc['old'])
    for n, h in list((sc.get('decoys') or {}).items()) + list((sc.get('others') or {}).items()):
        if n != dest:
            files[n] = bytes.fromhex(h)

    def call(d):
        from srctools import AtomicWriter
        path = os.path.join(d, dest)
        w = AtomicWriter(path, is_bytes=True) if mode == 'b' else AtomicWriter(path, is_bytes=False, encoding=mode)
        with w as f:
            for k, op in enumerate(sc['script']):
                if exc and exc[0] == k:
                    raise EXC[exc[1]](BODY_MARK)
                if op[0] == 'w':
                    f.write(data_of(op[1]))
                elif op[0] == 't':
                    f.write(op[1])
                else:
                    f.seek(op[1])
            if exc and exc[0] >= len(sc['script']):
                raise EXC[exc[1]](BODY_MARK)

    new = replay_script(ops) if not exc else None
    return Case({'kind': 'writer', 'sc': sc}, files, dest, call, ops, exc[0] if exc else None, new)


def classify(e):
    if e is None:
        return 'ok'
    if e.args and e.args[0] == BODY_MARK:
        return 'body'
    if isinstance(e, OSError):
        return 'os'
    return 'other:' + type(e).__name__


# --------------------------------------------------------------------------- running the implementation

class Sandbox:
    def __init__(self):
        self.base = tempfile.mkdtemp(prefix='c12_')
        self.n = 0

    def fresh(self, files):
        self.n += 1
        d = os.path.join(self.base, 'r%d' % self.n)
        os.mkdir(d)
        for n, b in files.items():
            with open(os.path.join(d, n), 'wb') as f:
                f.write(b)
        return d

    def drop(self, d):
        shutil.rmtree(d, ignore_errors=True)

    def close(self):
        shutil.rmtree(self.base, ignore_errors=True)


def run_case(sb, case, faults=None, flush=True, snaps=True, kill_at=None):
    """Run in-process.  faults: {boundary index: kind}.  Returns dict(events, outcome, dir, snaps)."""
    d = sb.fresh(case.files)
    shots = []

    def hook(t, w, idx, op, name, arg):
        if snaps:
            shots.append(snapshot(d))
        if kill_at is not None and idx == kill_at:
            os._exit(99)
        k = faults.get(idx) if faults else None
        if k:
            raise make_fault(k, name)

    tr = Tracer(d, flush=flush, hook=hook)
    err = None
    try:
        with tr:
            case.call(d)
    except BaseException as e:      # the body may raise KeyboardInterrupt on purpose
        err = e
    res = {'events': tr.events, 'outcome': classify(err), 'dir': snapshot(d), 'snaps': shots,
           'scripts': tr.scripts, 'error': repr(err) if err is not None else None}
    sb.drop(d)
    return res


def run_killed(sb, case, kill_at, flush):
    """Fork; the child runs the case and dies with os._exit at boundary `kill_at`. Returns (exit code, dir)."""
    d = sb.fresh(case.files)
    sys.stdout.flush(); sys.stderr.flush()
    pid = os.fork()
    if pid == 0:
        code = 3
        try:
            def hook(t, w, idx, op, name, arg):
                if idx == kill_at:
                    os._exit(99)
            try:
                with Tracer(d, flush=flush, hook=hook):
                    case.call(d)
                code = 0
            except BaseException:
                code = 1
        finally:
            os._exit(code)
    _, status = os.waitpid(pid, 0)
    code = os.waitstatus_to_exitcode(status)
    snap = snapshot(d)
    sb.drop(d)
    return code, snap


# --------------------------------------------------------------------------- the property itself (oracle)

def _short(b):
    if b is None:
        return None
    return b[:24].hex() + ('…(%d bytes)' % len(b) if len(b) > 24 else '')


def check_crash_state(ctx, case, snap, run_desc, where):
    """A directory as a kill at some boundary would leave it."""
    got = snap.get(case.dest)
    allowed = [case.old] + ([case.new] if case.new is not None else [])
    if got not in allowed:
        ctx.witness('mixture', f'{where}: destination holds neither the old nor the new contents: {_short(got)} '
                    f'(old {_short(case.old)}, new {_short(case.new)})', run_desc)
    for n, b in case.files.items():
        if n != case.dest and snap.get(n) != b:
            ctx.witness('bystander-clobbered', f'{where}: file {n} changed from {_short(b)} to {_short(snap.get(n))}', run_desc)


def failed_unlinks(events):
    """Temp files whose removal was attempted and raised (the excluded class of C12_fail: nothing can be
    done when the unlink itself fails; an injected ENOENT on a file that exists counts as such a failure)."""
    return {e[2] for e in events if e[1] == 'unlink' and e[4] != 'ok'}


def check_final(ctx, case, res, run_desc, faulted):
    """A run that returned or raised (a *handled* failure)."""
    snap, out = res['dir'], res['outcome']
    got = snap.get(case.dest)
    for n, b in case.files.items():
        if n != case.dest and snap.get(n) != b:
            ctx.witness('bystander-clobbered', f'file {n} changed from {_short(b)} to {_short(snap.get(n))}', run_desc)
    left = sorted(n for n in snap if n not in case.files and n != case.dest)
    if out == 'ok':
        if case.exc_k is not None:
            ctx.witness('exception-swallowed', 'the body raised but the with statement completed normally', run_desc)
        elif case.new is not None and got != case.new:
            ctx.witness('commit-lost', f'writer returned normally but destination holds {_short(got)}, not the new contents '
                        f'{_short(case.new)}', run_desc)
        if left:
            ctx.witness('tmp-left-behind', f'writer returned normally but left {left} behind', run_desc)
        return
    if out.startswith('other:'):
        ctx.witness('unexpected-exception', f'writer raised {res["error"]}', run_desc)
    if out == 'body' and case.exc_k is None:
        ctx.witness('unexpected-exception', f'writer raised {res["error"]}', run_desc)
    if out == 'os' and not faulted:
        ctx.witness('unexpected-exception', f'writer raised {res["error"]} although no fault was injected', run_desc)
    if got != case.old:
        ctx.witness('old-not-preserved', f'write failed ({res["error"]}) but destination changed from {_short(case.old)} to '
                    f'{_short(got)}', run_desc)
    bad = [n for n in left if n not in failed_unlinks(res['events'])]
    if bad:
        ctx.witness('tmp-left-behind', f'write failed ({res["error"]}) and left {bad} behind in the directory', run_desc)
    elif left:
        ctx.count('leftover-because-unlink-itself-failed')


# --------------------------------------------------------------------------- model side

def model_writer(case, dest_code=None):
    return {'dest': dest_code or [0, 0],
            'script': [['w', list(op[1])] if op[0] == 'w' else ['s', op[1]] for op in case.script],
            'exc': case.exc_k}


def model_fs(files, codes):
    return [[name_code(codes, n), list(b)] for n, b in sorted(files.items())]


def plan_of(faults):
    if not faults:
        return []
    n = max(faults) + 1
    return [FAULT_CODE[faults[i]] if i in faults else 0 for i in range(n)]


def model_events(tr, codes, dest_of=None):
    """Model trace -> the harness's event shape [wid, op, name, arg, res]."""
    out = []
    for e in tr:
        w = 0
        if len(e) == 5:
            w, e = e[0], e[1:]
        op, n, arg, res = OPNAMES[e[0]], e[1], e[2], RESNAMES[e[3]]
        name = '.' if op == 'mkdir' else 'tmp_%d' % n
        if op == 'replace':
            arg = dest_of[w] if dest_of else DEST
        out.append([w, op, name, arg, res])
    return out


def model_dir(dirj, codes):
    inv = {tuple(v): k for k, v in codes.items()}
    out = {}
    for name, ln, h, full in dirj:
        n = 'tmp_%d' % name[1] if name[0] == 1 else inv.get(tuple(name), 'file#%d' % name[1])
        out[n] = bytes(full) if full is not None else (ln, h)
    return out


def hash_bytes(b):
    h = 7
    for x in b:
        h = (h * 31 + x + 1) & 0xFFFFFFFF
    return h


def same_dir(impl, model):
    if set(impl) != set(model):
        return False
    for n, b in impl.items():
        m = model[n]
        if isinstance(m, tuple):
            if b is None or (len(b), hash_bytes(b)) != m:
                return False
        elif m != b:
            return False
    return True


def show_dir(d):
    return {n: (_short(b) if isinstance(b, (bytes, type(None))) else list(b)) for n, b in d.items()}


class ModelBatch:
    """Collects (request, callback) pairs and runs them through the driver in one go."""

    def __init__(self, drv):
        self.drv, self.reqs, self.cbs = drv, [], []

    def add(self, req, cb):
        if self.drv is None:
            return
        self.reqs.append(req)
        self.cbs.append(cb)

    def flush(self):
        if self.drv is None or not self.reqs:
            return
        reps = self.drv.batch(self.reqs)
        for r, cb in zip(reps, self.cbs):
            cb(r)
        self.reqs, self.cbs = [], []


# --------------------------------------------------------------------------- single writer exploration

def fault_kinds(op, rng):
    generic = rng.choice(['eio', 'enospc', 'eperm'])
    if op == 'mkdir':
        return ['eio']
    if op == 'create':
        return ['eexist', generic, 'enoent']
    if op == 'unlink':
        return [generic, 'enoent']
    return [generic]


def explore_case(ctx, sb, mb, case, full=True, pairs=False, snaps=True, forks=(), label='writer', fault_snaps=True):
    """Unfaulted run, one fault at each boundary, optional fault pairs, kills; oracle + model comparison."""
    runs = []          # (faults, result)
    octx = KeyedCtx(ctx, TMPDEST_KEY) if TMP_RE.match(case.dest) else ctx
    base = run_case(sb, case, None, flush=True, snaps=snaps)
    runs.append(({}, base))
    T = len(base['events'])
    seen_plans = {()}
    frontier = [({}, base)]
    depth = 2 if pairs else 1
    for level in range(depth):
        nxt = []
        for faults, res in frontier:
            start = (max(faults) + 1) if faults else 0
            for i in range(start, len(res['events'])):
                op = res['events'][i][1]
                for kind in fault_kinds(op, ctx.rng):
                    if level == 1 and kind not in ('eio', 'enospc', 'eperm', 'enoent'):
                        continue
                    f2 = dict(faults); f2[i] = kind
                    key = tuple(sorted(f2.items()))
                    if key in seen_plans:
                        continue
                    seen_plans.add(key)
                    r2 = run_case(sb, case, f2, flush=True, snaps=snaps and fault_snaps)
                    runs.append((f2, r2))
                    nxt.append((f2, r2))
                    ctx.count(f'fault@{op}:{kind}')
        frontier = nxt
    # oracle on every run and every boundary snapshot
    for faults, res in runs:
        desc = dict(case.desc, faults={str(k): v for k, v in faults.items()})
        check_final(octx, case, res, desc, bool(faults))
        for k, s in enumerate(res['snaps']):
            check_crash_state(octx, case, s, dict(desc, kill_at=k, flush=True), f'killed before operation {k}')
        ctx.case({'case': _compact(case.desc), 'faults': faults, 'events': len(res['events'])},
                 nontrivial=bool(faults) or case.exc_k is not None or len(case.files) > 2)
        ctx.count('outcome:' + res['outcome'].split(':')[0])
        ctx.count(label + '-runs')
    # real kills
    for flush in forks:
        for k in range(T + 1):
            code, snap = run_killed(sb, case, k, flush)
            desc = dict(case.desc, kill_at=k, flush=flush)
            want = 99 if k < T else (0 if base['outcome'] == 'ok' else 1)
            if code != want:
                ctx.witness('kill-harness', f'child killed at boundary {k} exited with {code}, expected {want}', desc)
            check_crash_state(octx, case, snap, desc, f'process killed (os._exit) before operation {k}' if k < T else 'completed child')
            if flush and snaps and k < T and snap != base['snaps'][k]:
                ctx.disagree(_compact(desc), show_dir(snap), show_dir(base['snaps'][k]), 'directory after a real kill differs from the in-process snapshot at the same boundary')
            ctx.case({'case': _compact(case.desc), 'kill_at': k, 'flush': flush}, nontrivial=True)
            ctx.count('kill-flushed' if flush else 'kill-unflushed')
    # model comparison
    if mb.drv is not None:
        codes = case.names()
        queries, meta = [], []
        for faults, res in runs:
            plan = plan_of(faults)
            queries.append({'plan': plan, 'k': None}); meta.append((faults, res, None))
            for k in range(len(res['snaps'])):
                queries.append({'plan': plan, 'k': k}); meta.append((faults, res, k))
        req = {'op': 'run', 'impl': None, 'w': model_writer(case, name_code(codes, case.dest)), 'fs': model_fs(case.files, codes), 'full': full,
               'queries': queries}

        def cb(rep, meta=meta, codes=codes, case=case):
            if 'error' in rep:
                raise_internal('driver: ' + rep['error'])
            for (faults, res, k), m in zip(meta, rep['r']):
                cd = {'case': _compact(case.desc), 'faults': faults, 'k': k}
                if k is None:
                    mev = model_events(m['trace'], codes, {0: case.dest})
                    iev = res['events']
                    if mev != iev:
                        ctx.disagree(cd, iev, mev, 'operation trace')
                    mo = OUTNAMES[m['out']] if m['out'] is not None else 'not-finished'
                    if mo != res['outcome']:
                        ctx.disagree(cd, res['outcome'], mo, 'outcome')
                    md = model_dir(m['dir'], codes)
                    if not same_dir(res['dir'], md):
                        ctx.disagree(cd, show_dir(res['dir']), show_dir(md), 'final directory')
                    ctx.traces_vs_impl += 1
                else:
                    md = model_dir(m['dir'], codes)
                    if not same_dir(res['snaps'][k], md):
                        ctx.disagree(cd, show_dir(res['snaps'][k]), show_dir(md), f'directory at crash point {k}')
                    ctx.count('crash-states-compared')
        mb.add(req, cb)
    return base


def raise_internal(msg):
    import common
    raise common.InternalError(msg)


def _compact(desc):
    """Descriptor small enough for the evidence samples."""
    return json.loads(json.dumps(desc, default=str))


# alphabet of body actions
A_SMALL = [['w', '616263'], ['w', ''], ['w', '5a'], ['s', 0], ['s', 1], ['s', 7]]
A_BIG = ['w', ['gen', 20000, 3]]


def gen_scenarios(ctx):
    L = ctx.budget(2, 3)
    olds = [None, OLD.hex()]
    decoys = [{}, {'tmp_1': '01'}, {'tmp_1': '01', 'tmp_2': '0202'}, {'tmp_2': '02'}]
    i = 0
    for n in range(0, L + 1):
        for script in itertools.product(A_SMALL, repeat=n):
            script = [list(x) for x in script]
            excs = [None] + [[k, 'ValueError' if (k + i) % 2 == 0 else 'KeyboardInterrupt'] for k in range(n + 1)]
            for exc in excs:
                i += 1
                yield {'mode': 'b', 'script': script, 'exc': exc, 'old': olds[i % 2], 'decoys': decoys[(i // 2) % 4]}
    # long chunk (bigger than the BufferedWriter buffer) at each position of a 3-action script
    for pos in range(3):
        script = [['w', '616263'], ['s', 1], ['w', '7a7a']]
        script.insert(pos, A_BIG)
        for exc in (None, [2, 'ValueError']):
            i += 1
            yield {'mode': 'b', 'script': script, 'exc': exc, 'old': olds[i % 2], 'decoys': decoys[i % 4]}
    # text mode
    for enc in ('utf8', 'utf16'):
        for script in ([['t', 'héllo\n']], [['t', 'a'], ['t', '€\U0001F600 line\n']], []):
            for exc in (None, [len(script), 'KeyboardInterrupt'], [0, 'ValueError']):
                i += 1
                yield {'mode': enc, 'script': script, 'exc': exc, 'old': olds[i % 2], 'decoys': decoys[i % 4]}
    # random longer scripts
    rng = ctx.rng
    for _ in range(ctx.budget(25, 300)):
        n = rng.randrange(3, 8)
        script = []
        for _ in range(n):
            r = rng.random()
            if r < 0.6:
                script.append(['w', bytes(rng.randrange(256) for _ in range(rng.choice([0, 1, 2, 5, 17]))).hex()])
            elif r < 0.65:
                script.append(['w', ['gen', rng.choice([8192, 8193, 30000]), rng.randrange(200)]])
            else:
                script.append(['s', rng.choice([0, 1, 3, 10, 40])])
        exc = None if rng.random() < 0.5 else [rng.randrange(n + 1), rng.choice(list(EXC))]
        dec = {f'tmp_{j}': '%02x' % j for j in range(1, 6) if rng.random() < 0.3}
        yield {'mode': 'b', 'script': script, 'exc': exc, 'old': rng.choice(olds), 'decoys': dec}


# --------------------------------------------------------------------------- BSP.save

def bsp_samples(sb):
    """(name, bytes) of the sample BSP at full size and stripped of its large lumps."""
    import common
    from srctools.bsp import BSP
    src = common.REPO / SAMPLE_BSP
    full = src.read_bytes()
    d = sb.fresh({'map.bsp': full})
    b = BSP(os.path.join(d, 'map.bsp'))
    for l in b.lumps.values():
        if len(l.data) > 600:
            l.data = b''
    for g in b.game_lumps.values():
        if len(g.data) > 600:
            g.data = b''
    b.save(os.path.join(d, 'small.bsp'))
    with open(os.path.join(d, 'small.bsp'), 'rb') as f:
        small = f.read()
    sb.drop(d)
    return {'full': full, 'small': small}


def bsp_case(sb, sample, data, other_name=None):
    """Case: parse map.bsp in the sandbox, bump the map revision, save() over itself (or to another name)."""
    dest = other_name or 'map.bsp'
    files = {'map.bsp': data, KEEP: KEEP_BYTES, 'tmp_1': b'\x01'}

    def call(d):
        from srctools.bsp import BSP
        b = BSP(os.path.join(d, 'map.bsp'))
        b.map_revision += 1
        if other_name:
            b.save(os.path.join(d, other_name))
        else:
            b.save()

    case = Case({'kind': 'bsp', 'sample': sample, 'dest': dest}, files, dest, call, None, None, None)
    ref = run_case(sb, case, None, flush=True, snaps=False)
    if ref['outcome'] != 'ok':
        raise_internal(f'BSP.save reference run failed: {ref["error"]}')
    tmp = [e[2] for e in ref['events'] if e[1] == 'create' and e[4] == 'ok']
    case.script = list(ref['scripts'].get(tmp[0], [])) if tmp else []
    case.new = ref['dir'].get(dest)
    return case, ref


# --------------------------------------------------------------------------- two writers

def two_cases(ctx):
    """Configurations for the lock-step runs: (label, scenario 1, scenario 2, faults {(wid, idx): kind})."""
    w = lambda hexes, exc=None, old=None: {'mode': 'b', 'script': [['w', h] for h in hexes], 'exc': exc, 'old': old, 'decoys': {}}
    cfgs = [
        ('clean', w(['6131']), w(['6232']), {}, {}),
        ('old+decoy', w(['6131'], old=OLD.hex()), w(['6232'], old=OLD2.hex()), {}, {'tmp_1': '09'}),
        ('body-exception', w(['6131']), w(['6232'], exc=[1, 'ValueError']), {}, {}),
        ('fault-close', w(['6131'], old=OLD.hex()), w(['6232']), {(0, 3): 'eio'}, {}),
        ('fault-replace', w(['6131']), w(['6232'], old=OLD2.hex()), {(1, 4): 'eio'}, {}),
        ('fault-create', w(['6131']), w(['6232']), {(0, 1): 'eexist'}, {}),
    ]
    if ctx.thorough:
        cfgs += [
            ('two-writes', w(['6131', '6141']), w(['6232', '6242']), {}, {}),
            ('both-fail', w(['6131'], exc=[0, 'KeyboardInterrupt']), w(['6232'], exc=[1, 'ValueError']), {}, {'tmp_2': '07'}),
            ('fault-unlink', w(['6131'], exc=[1, 'ValueError']), w(['6232']), {(0, 4): 'eio'}, {}),
        ]
    return cfgs


def run_two(sb, sc1, sc2, faults, decoys, prefix, flush=True):
    c1, c2 = writer_case(sc1), writer_case(sc2)
    files = {KEEP: KEEP_BYTES}
    if sc1.get('old') is not None:
        files[DEST] = bytes.fromhex(sc1['old'])
    if sc2.get('old') is not None:
        files[DEST2] = bytes.fromhex(sc2['old'])
    for n, h in decoys.items():
        files[n] = bytes.fromhex(h)
    d = sb.fresh(files)
    ls = LockStep(2)

    def hook(t, w, idx, op, name, arg):
        ls.park(w)
        k = faults.get((w, idx))
        if k:
            raise make_fault(k, name)

    tr = Tracer(d, flush=flush, hook=hook)
    outcomes = [None, None]
    errors = [None, None]

    def worker(wid, sc, dest):
        tr.set_wid(wid)
        err = None
        try:
            _call_writer(d, sc, dest)
        except BaseException as e:
            err = e
        outcomes[wid] = classify(err)
        errors[wid] = repr(err) if err is not None else None
        ls.finish(wid)

    choices, shots = [], []
    threads = [threading.Thread(target=worker, args=(0, sc1, DEST), daemon=True),
               threading.Thread(target=worker, args=(1, sc2, DEST2), daemon=True)]
    try:
        with tr:
            for t in threads:
                t.start()
            while True:
                alive = ls.settle()
                if not alive:
                    break
                shots.append(snapshot(d))
                i = len(choices)
                w = prefix[i] if i < len(prefix) and prefix[i] in alive else alive[0]
                choices.append((tuple(alive), w))
                ls.step(w)
            for t in threads:
                t.join(10)
    finally:
        ls.release_all()
        for t in threads:
            t.join(5)
    res = {'events': tr.events, 'outcomes': outcomes, 'errors': errors, 'dir': snapshot(d), 'snaps': shots,
           'choices': choices, 'files': files, 'news': [c1.new, c2.new], 'olds': [files.get(DEST), files.get(DEST2)],
           'cases': [c1, c2]}
    sb.drop(d)
    return res


def _call_writer(d, sc, dest):
    from srctools import AtomicWriter
    exc = sc.get('exc')
    with AtomicWriter(os.path.join(d, dest), is_bytes=True) as f:
        for k, op in enumerate(sc['script']):
            if exc and exc[0] == k:
                raise EXC[exc[1]](BODY_MARK)
            if op[0] == 'w':
                f.write(data_of(op[1]))
            else:
                f.seek(op[1])
        if exc and exc[0] >= len(sc['script']):
            raise EXC[exc[1]](BODY_MARK)


def check_ownership(ctx, res, desc, dests=(DEST, DEST2)):
    """Nobody touches a file created by another writer while it is live (its temp file), whatever it is called;
    nobody renames onto / opens another writer's destination; pre-existing files are left alone."""
    owner = {}
    for (w, op, name, arg, r) in res['events']:
        name = str(name)
        if op == 'mkdir':
            continue
        if op == 'replace' and r == 'ok' and arg in dests and dests.index(arg) != w:
            ctx.witness('temp-clobbered', f'writer {w} renamed {name} onto {arg}, the destination of writer {dests.index(arg)}', desc)
        if name in dests:
            if dests.index(name) != w and r == 'ok':
                ctx.witness('temp-clobbered', f'writer {w} performed {op} on {name}, the destination of writer {dests.index(name)}', desc)
            if op in ('create', 'write', 'seek', 'close', 'unlink') or op.startswith('open-'):
                if r == 'ok':
                    ctx.witness('mixture', f'writer {w} performed {op} directly on the destination {name}', desc)
            continue
        if op == 'create' or op.startswith('open-'):
            if r == 'ok':
                if name in owner and owner[name] != w:
                    ctx.witness('temp-clobbered', f'writer {w} performed {op} on {name}, the live temp file of writer {owner[name]}', desc)
                elif name not in owner and name in res['files']:
                    ctx.witness('bystander-clobbered', f'writer {w} performed {op} on pre-existing {name}', desc)
                owner[name] = w
            continue
        if name in owner and owner[name] != w:
            ctx.witness('temp-clobbered', f'writer {w} performed {op} on {name}, the live temp file of writer {owner[name]}', desc)
        if name not in owner and name in res['files'] and r == 'ok' and op in ('write', 'replace', 'unlink', 'seek', 'close', 'truncate'):
            ctx.witness('bystander-clobbered', f'writer {w} performed {op} on pre-existing {name}', desc)
        if op in ('replace', 'unlink') and r == 'ok':
            owner.pop(name, None)


def check_two(ctx, res, desc):
    dests = [DEST, DEST2]
    check_ownership(ctx, res, desc)
    for k, s in enumerate(res['snaps'] + [res['dir']]):
        for i in (0, 1):
            got = s.get(dests[i])
            allowed = [res['olds'][i]] + ([res['news'][i]] if res['news'][i] is not None else [])
            if got not in allowed:
                ctx.witness('mixture', f'two writers, after {k} operations: {dests[i]} holds {_short(got)}, neither old nor new', desc)
        for n, b in res['files'].items():
            if n not in dests and s.get(n) != b:
                ctx.witness('bystander-clobbered', f'two writers, after {k} operations: {n} changed', desc)
    fin = res['dir']
    for i in (0, 1):
        out = res['outcomes'][i]
        got = fin.get(dests[i])
        if out == 'ok' and got != res['news'][i]:
            ctx.witness('commit-lost', f'writer {i} returned normally but {dests[i]} holds {_short(got)}', desc)
        if out != 'ok' and got != res['olds'][i]:
            ctx.witness('old-not-preserved', f'writer {i} failed ({res["errors"][i]}) but {dests[i]} changed to {_short(got)}', desc)
        if out is None or str(out).startswith('other:'):
            ctx.witness('unexpected-exception', f'writer {i}: {res["errors"][i]}', desc)
    left = [n for n in fin if n not in res['files'] and n not in dests and n not in failed_unlinks(res['events'])]
    if left:
        ctx.witness('tmp-left-behind', f'two writers finished (outcomes {res["outcomes"]}) and left {left} behind', desc)


def explore_two(ctx, sb, mb):
    cap = ctx.budget(420, 6000)
    for label, sc1, sc2, faults, decoys in two_cases(ctx):
        stack, n, complete = [[]], 0, True
        results = []
        while stack:
            if n >= cap:
                complete = False
                break
            prefix = stack.pop()
            res = run_two(sb, sc1, sc2, faults, decoys, prefix)
            n += 1
            sched = [c for _, c in res['choices']]
            for i in range(len(prefix), len(sched)):
                alive, chosen = res['choices'][i]
                for alt in alive:
                    if alt != chosen:
                        stack.append(sched[:i] + [alt])
            desc = {'kind': 'two', 'label': label, 'sc1': sc1, 'sc2': sc2, 'faults': [[w, i, k] for (w, i), k in faults.items()],
                    'decoys': decoys, 'schedule': sched}
            check_two(ctx, res, desc)
            ctx.case({'two': label, 'schedule': ''.join(map(str, sched))}, nontrivial=True, sample_every=211)
            ctx.count('two-writer-schedules:' + label)
            results.append((sched, res))
        ctx.extra.setdefault('two_writer_exhaustive', {})[label] = {'schedules': n, 'all_interleavings': complete}
        if mb.drv is not None and results:
            c1, c2 = results[0][1]['cases']
            files = results[0][1]['files']
            codes = {DEST: [0, 0], DEST2: [0, 1], KEEP: [0, 2]}
            queries, meta = [], []
            for sched, res in results:
                cnt = [0, 0]
                ms = []
                for w in sched:
                    ms.append([w, FAULT_CODE.get(faults.get((w, cnt[w])), 0)])
                    cnt[w] += 1
                queries.append({'sched': ms}); meta.append((sched, res, None))
                for k in range(len(res['snaps'])):
                    queries.append({'sched': ms[:k]}); meta.append((sched, res, k))
            req = {'op': 'run2', 'impl': None, 'w1': model_writer(c1, [0, 0]), 'w2': model_writer(c2, [0, 1]),
                   'fs': model_fs(files, codes), 'full': True, 'queries': queries}

            def cb(rep, meta=meta, codes=codes, label=label):
                if 'error' in rep:
                    raise_internal('driver: ' + rep['error'])
                for (sched, res, k), m in zip(meta, rep['r']):
                    cd = {'two': label, 'schedule': sched, 'k': k}
                    md = model_dir(m['dir'], codes)
                    if k is None:
                        mev = model_events(m['trace'], codes, {0: DEST, 1: DEST2})
                        if mev != res['events']:
                            ctx.disagree(cd, res['events'], mev, 'two writers: operation trace')
                        mo = [OUTNAMES[o] if o is not None else None for o in (m['out1'], m['out2'])]
                        if mo != res['outcomes']:
                            ctx.disagree(cd, res['outcomes'], mo, 'two writers: outcomes')
                        if not same_dir(res['dir'], md):
                            ctx.disagree(cd, show_dir(res['dir']), show_dir(md), 'two writers: final directory')
                        ctx.traces_vs_impl += 1
                    elif not same_dir(res['snaps'][k], md):
                        ctx.disagree(cd, show_dir(res['snaps'][k]), show_dir(md), f'two writers: directory after {k} operations')
            mb.add(req, cb)
            mb.flush()


# --------------------------------------------------------------------------- histories: writer OBJECTS used several times

def hist_configs(ctx):
    """(label, objects, decoys, mode) — object = {'dest', 'old', 'uses': [{'script': [hex…], 'exc': None|[k, name]}]};
    mode: 'all' = every interleaving (DFS), otherwise number of random schedules (plus the fixed patterns)."""
    u = lambda hexes, exc=None: {'script': [['w', h] for h in hexes], 'exc': exc}
    A = lambda uses, old=None: {'dest': DEST, 'old': old, 'uses': uses}
    B = lambda uses, old=None: {'dest': DEST2, 'old': old, 'uses': uses}
    big = ['gen', 9000, 5]
    cfgs = [
        ('reuse-empty-bodies', [A([u([]), u([])]), B([u([])])], {}, 'all'),
        ('reuse', [A([u(['4131']), u(['4132', '4132'])], OLD.hex()), B([u(['4231', '4231'])], OLD2.hex())], {}, ctx.budget(100, 3000)),
        ('reuse-after-exception', [A([u(['4131'], [1, 'ValueError']), u(['4132'])], OLD.hex()), B([u(['4231'])])], {'tmp_2': '07'},
         ctx.budget(70, 1500)),
        ('both-reused', [A([u(['4131']), u(['4132'])]), B([u(['4231']), u(['4232'], [0, 'KeyboardInterrupt']), u(['4233'])], OLD2.hex())],
         {}, ctx.budget(60, 2000)),
        ('reuse-long-chunks', [A([u(['4131']), {'script': [['w', big], ['w', '4132']], 'exc': None}], OLD.hex()),
                               B([{'script': [['w', '4231'], ['w', big]], 'exc': None}], OLD2.hex())], {}, ctx.budget(30, 600)),
    ]
    if ctx.thorough:
        cfgs.append(('reuse-one-write-all', [A([u(['4131']), u(['4132'])]), B([u(['4231'])])], {}, 'all'))
    # destination NAME SHAPES: writers whose destinations are textually related must still be independent
    W = lambda dest, uses, old=None: {'dest': dest, 'old': old, 'uses': uses}
    for i, (n1, n2) in enumerate(NAME_PAIRS):
        stems = {n.rsplit('.', 1)[0] for n in (n1, n2)} | {n1, n2}
        others = {}
        for st in sorted(stems):
            for cand in (st + '.tmp', st + '.TMP', st + '~', st):
                if cand and cand not in (n1, n2) and not TMP_RE.match(cand) and len(others) < 5:
                    others.setdefault(cand, ('%02x' % (len(others) + 0x30)) * 3)
        old1 = OLD.hex() if i % 2 == 0 else None
        old2 = OLD2.hex() if i % 3 != 1 else None
        cfgs.append((f'names:{n1}|{n2}:empty', [W(n1, [u([])], old1), W(n2, [u([])], old2)], others, 'all'))
        if i < ctx.budget(1, 4):
            cfgs.append((f'names:{n1}|{n2}', [W(n1, [u(['4e31'])], old1), W(n2, [u(['4e32'])], old2)], others, 'all'))
        else:
            cfgs.append((f'names:{n1}|{n2}', [W(n1, [u(['4e31', '4e31'])], old1), W(n2, [u(['4e32'])], old2)], others,
                         ctx.budget(25, 400)))
    three = [W('map.bsp', [u(['4d31'])], OLD.hex()), W('map.vmf', [u(['4d32'])]), W('map.lin', [u(['4d33'])], OLD2.hex())]
    cfgs.append(('names:three-writers-same-stem', three, {'map.tmp': '747474', 'map': '6d'}, ctx.budget(80, 2000)))
    cfgs.append(('names:three-writers-same-stem:empty',
                 [W('map.bsp', [u([])], OLD.hex()), W('map.vmf', [u([])]), W('MAP.BSP', [u([])], OLD2.hex())], {'map.tmp': '747474'},
                 ctx.budget(80, 'all')))
    return cfgs


# pairs of destination names in one directory that differ only in the last suffix, have no / several suffixes, end in
# .tmp, are prefixes of each other, are case twins, or look like the code's own temp names
NAME_PAIRS = [('map.bsp', 'map.vmf'), ('map', 'map.bsp'), ('a.tar.gz', 'a.tar.bz2'), ('save.tmp', 'save.bin'),
              ('Map.bsp', 'map.bsp'), ('out', 'out.tmp'), ('x.tmp', 'x.tmp.bak'), ('.tmp', 'tmp'), ('tmp_', 'tmp_x.bin'),
              ('tmp_1', 'map.bsp'), ('tmp_2', 'tmp_1')]
NAME_SHAPES = ['map.bsp', 'noext', 'a.tar.gz', 'save.tmp', '.tmp', 'x.TMP', 'tmp', 'tmp_', 'tmp_x', 'tmp_1.bak', 'Map.BSP',
               'map.bsp.tmp', 'm\u00e4p.bin', 'with space.txt', 'tmp_1', 'tmp_2', 'tmp_07']


def gen_name_scenarios(ctx):
    """Single writer: destination name shapes x related bystander names x old present/absent x body exception."""
    i = 0
    for dest in NAME_SHAPES:
        stem = dest.rsplit('.', 1)[0] if '.' in dest[1:] else dest
        others = {}
        for cand in (stem + '.tmp', stem, dest + '.tmp', dest + '~', dest.swapcase(), stem + '.other', Path_with_suffix(dest)):
            if cand and cand != dest and not TMP_RE.match(cand):
                others.setdefault(cand, ('%02x' % (0x61 + len(others))) * 4)
        for script in ([['w', '616263']], [['w', '616263'], ['s', 1], ['w', '5a']]):
            for exc in (None, [1, 'ValueError']):
                for old in (None, OLD.hex()):
                    i += 1
                    yield {'mode': 'b', 'dest': dest, 'script': script, 'exc': exc, 'old': old,
                           'decoys': {'tmp_1': '01'} if i % 3 == 0 and dest != 'tmp_1' else {}, 'others': others}


def Path_with_suffix(name):
    import pathlib
    try:
        return pathlib.PurePath(name).with_suffix('.tmp').name
    except ValueError:
        return ''


def use_ops(use):
    return [('w', data_of(op[1])) if op[0] == 'w' else ('s', op[1]) for op in use['script']]


def run_hist(sb, objs, faults, decoys, prefix, flush=True):
    """Each object is ONE AtomicWriter instance, used for its list of uses in its own thread; the threads are
    interleaved in lock-step at every file-system operation according to `prefix` (then lowest id first)."""
    files = {KEEP: KEEP_BYTES}
    for o in objs:
        if o.get('old') is not None:
            files[o['dest']] = bytes.fromhex(o['old'])
    for n, h in decoys.items():
        files[n] = bytes.fromhex(h)
    d = sb.fresh(files)
    ls = LockStep(len(objs))

    def hook(t, w, idx, op, name, arg):
        ls.park(w)
        k = faults.get((w, idx))
        if k:
            raise make_fault(k, name)

    tr = Tracer(d, flush=flush, hook=hook)
    outcomes = [[] for _ in objs]
    errors = [[] for _ in objs]
    marks = [[] for _ in objs]      # number of events recorded when each use ended

    def worker(wid, o):
        from srctools import AtomicWriter
        tr.set_wid(wid)
        try:
            writer = AtomicWriter(os.path.join(d, o['dest']), is_bytes=True)
            for use in o['uses']:
                err = None
                exc = use.get('exc')
                try:
                    with writer as f:
                        for k, op in enumerate(use['script']):
                            if exc and exc[0] == k:
                                raise EXC[exc[1]](BODY_MARK)
                            if op[0] == 'w':
                                f.write(data_of(op[1]))
                            else:
                                f.seek(op[1])
                        if exc and exc[0] >= len(use['script']):
                            raise EXC[exc[1]](BODY_MARK)
                except SystemExit:
                    raise
                except BaseException as e:
                    err = e
                outcomes[wid].append(classify(err))
                errors[wid].append(repr(err) if err is not None else None)
                marks[wid].append(len(tr.events))
        except SystemExit:
            pass
        finally:
            ls.finish(wid)

    choices, shots = [], []
    threads = [threading.Thread(target=worker, args=(i, o), daemon=True) for i, o in enumerate(objs)]
    try:
        with tr:
            for t in threads:
                t.start()
            while True:
                alive = ls.settle()
                if not alive:
                    break
                shots.append(snapshot(d))
                i = len(choices)
                w = prefix[i] if i < len(prefix) and prefix[i] in alive else alive[0]
                choices.append((tuple(alive), w))
                ls.step(w)
            for t in threads:
                t.join(10)
    finally:
        ls.release_all()
        for t in threads:
            t.join(5)
    res = {'events': tr.events, 'outcomes': outcomes, 'errors': errors, 'dir': snapshot(d), 'snaps': shots,
           'choices': choices, 'files': files, 'marks': marks}
    sb.drop(d)
    return res


def check_hist(ctx, objs, faults, res, desc):
    """The property after every step of a history over re-used writer objects."""
    dests = [o['dest'] for o in objs]
    check_ownership(ctx, res, desc, dests)
    news = [[replay_script(use_ops(u)) if not u.get('exc') else None for u in o['uses']] for o in objs]
    olds = [res['files'].get(o['dest']) for o in objs]
    for k, s in enumerate(res['snaps'] + [res['dir']]):
        for i, o in enumerate(objs):
            got = s.get(o['dest'])
            allowed = [olds[i]] + [n for n in news[i] if n is not None]
            if got not in allowed:
                ctx.witness('mixture', f'history, after {k} operations: {o["dest"]} holds {_short(got)}, which is neither its old '
                            f'contents nor the complete contents written by any use of its writer', desc)
        for n, b in res['files'].items():
            if n not in dests and s.get(n) != b:
                ctx.witness('bystander-clobbered', f'history, after {k} operations: {n} changed from {_short(b)} to {_short(s.get(n))}', desc)
    fin = res['dir']
    faulted = {w for (w, _) in faults}
    for i, o in enumerate(objs):
        outs = res['outcomes'][i]
        if len(outs) != len(o['uses']):
            ctx.witness('unexpected-exception', f'writer object {i} completed {len(outs)} of {len(o["uses"])} uses', desc)
        want = olds[i]
        for j, out in enumerate(outs):
            u = o['uses'][j]
            if out == 'ok':
                if u.get('exc'):
                    ctx.witness('exception-swallowed', f'object {i} use {j}: the body raised but the with statement completed', desc)
                want = news[i][j] if news[i][j] is not None else want
            elif str(out).startswith('other:') or (i not in faulted and out != ('body' if u.get('exc') else 'ok')):
                ctx.witness('unexpected-exception', f'object {i} use {j} ended with {res["errors"][i][j]} although nothing was '
                            f'injected into this writer', desc)
        if fin.get(o['dest']) != want:
            ctx.witness('commit-lost' if want != olds[i] else 'old-not-preserved',
                        f'history finished (outcomes {res["outcomes"]}): {o["dest"]} holds {_short(fin.get(o["dest"]))}, expected '
                        f'{_short(want)} (the last use that returned normally)', desc)
    left = [n for n in fin if n not in res['files'] and n not in dests and n not in failed_unlinks(res['events'])]
    if left:
        ctx.witness('tmp-left-behind', f'history finished (outcomes {res["outcomes"]}) and left {left} behind', desc)


def hist_desc(label, objs, faults, decoys, sched):
    return {'kind': 'hist', 'label': label, 'objs': objs, 'faults': [[w, i, k] for (w, i), k in faults.items()],
            'decoys': decoys, 'schedule': sched}


def explore_hist(ctx, sb, mb):
    rng = ctx.rng
    for label, objs, decoys, mode in hist_configs(ctx):
        results = []
        seen = set()
        t_cfg = time.time()

        octx = KeyedCtx(ctx, TMPDEST_KEY) if any(TMP_RE.match(o['dest']) for o in objs) else ctx

        def one(prefix, faults):
            res = run_hist(sb, objs, faults, decoys, prefix)
            sched = [c for _, c in res['choices']]
            key = (tuple(sched), tuple(sorted(faults.items())))
            if key in seen:
                return res, sched
            seen.add(key)
            check_hist(octx, objs, faults, res, hist_desc(label, objs, faults, decoys, sched))
            ctx.case({'hist': label, 'schedule': ''.join(map(str, sched)), 'faults': sorted(faults.items())},
                     nontrivial=True, sample_every=301)
            ctx.count('history-schedules:' + label)
            results.append((sched, faults, res))
            return res, sched

        # fixed patterns: sequential, and "the other writer slips in after k operations of the first"
        patterns = [[0] * 80, [1] * 80]
        if not label.startswith('names:'):
            for k in range(2, 9):
                for m in (1, 2, 3):
                    patterns.append([0] * k + [1] * m + [0] * 40)
                    patterns.append([1] * k + [0] * m + [1] * 40)
        if len(objs) == 3:
            patterns += [[2] * 80, [0, 1, 2] * 30, [2, 1, 0] * 30, [0, 0, 1, 1, 2, 2] * 15]
        base_runs = []
        for pat in patterns:
            base_runs.append(one(pat, {}))
        complete = None
        if mode == 'all':
            stack, n, complete = [[]], 0, True
            cap = ctx.budget(1500, 20000)
            while stack:
                if n >= cap:
                    complete = False
                    break
                prefix = stack.pop()
                res, sched = one(prefix, {})
                n += 1
                for i in range(len(prefix), len(sched)):
                    alive, chosen = res['choices'][i]
                    for alt in alive:
                        if alt != chosen:
                            stack.append(sched[:i] + [alt])
        else:
            for _ in range(mode):
                one([rng.randrange(len(objs)) for _ in range(90)], {})
        # one injected fault at each boundary of a few schedules
        extra_n = min(ctx.budget(3, 10) if not label.startswith('names:') else ctx.budget(1, 4), max(0, len(base_runs) - 2))
        picks = base_runs[:2] + [base_runs[i] for i in sorted(rng.sample(range(2, len(base_runs)), extra_n))]
        if label.startswith('names:') and results:
            picks = base_runs[:ctx.budget(1, 2)] + [(r, sc) for sc, _, r in rng.sample(results, min(len(results), ctx.budget(1, 6)))]
        for res, sched in picks:
            cnt = [0] * len(objs)
            for w in sched:
                idx = cnt[w]; cnt[w] += 1
                op = None
                k2 = 0
                for e in res['events']:
                    if e[0] == w:
                        if k2 == idx:
                            op = e[1]
                            break
                        k2 += 1
                kind = 'enoent' if op == 'unlink' and rng.random() < 0.5 else rng.choice(['eio', 'enospc', 'eperm'])
                if op == 'create' and rng.random() < 0.4:
                    kind = 'eexist'
                one(sched, {(w, idx): kind})
                ctx.count(f'history-fault@{op}')
        ctx.extra.setdefault('history_runs', {})[label] = {'schedules': len(results), 'all_interleavings': complete,
                                                            'wall_s': round(time.time() - t_cfg, 1)}
        # model
        # (two writers with a destination named tmp_<N> clobber each other - the open finding; once a file is renamed
        #  over or unlinked while open, writes go to an orphan inode, which the name-based model does not have)
        if mb.drv is not None and results and len(objs) == 2 and octx is ctx:
            files = results[0][2]['files']
            codes = {}
            for i, o in enumerate(objs):
                if not TMP_RE.match(o['dest']):
                    codes[o['dest']] = [0, i]
            for n in sorted(files):
                if n not in codes and not TMP_RE.match(n):
                    codes[n] = [0, 2 + len(codes)]
            dest_of = {i: o['dest'] for i, o in enumerate(objs)}
            queries, meta = [], []
            for sched, faults, res in results:
                cnt = [0] * len(objs)
                ms = []
                for w in sched:
                    ms.append([w, FAULT_CODE.get(faults.get((w, cnt[w])), 0)])
                    cnt[w] += 1
                queries.append({'sched': ms}); meta.append((sched, faults, res, None))
                step = 1 if len(res['snaps']) <= 24 else 3
                for k in range(0, len(res['snaps']), step):
                    queries.append({'sched': ms[:k]}); meta.append((sched, faults, res, k))
            mo = lambda o, code: {'dest': code, 'uses': [{'script': [['w', list(d)] if t == 'w' else ['s', d] for t, d in use_ops(u)],
                                                          'exc': (u['exc'][0] if u.get('exc') else None)} for u in o['uses']]}
            req = {'op': 'hist', 'impl': None, 'o1': mo(objs[0], name_code(codes, objs[0]['dest'])),
                   'o2': mo(objs[1], name_code(codes, objs[1]['dest'])),
                   'fs': model_fs(files, codes), 'full': True, 'queries': queries}

            def cb(rep, meta=meta, codes=codes, label=label, dest_of=dest_of):
                if 'error' in rep:
                    raise_internal('driver: ' + rep['error'])
                for (sched, faults, res, k), m in zip(meta, rep['r']):
                    cd = {'hist': label, 'schedule': sched, 'faults': sorted(faults.items()), 'k': k}
                    md = model_dir(m['dir'], codes)
                    if k is None:
                        mev = model_events(m['trace'], codes, dest_of)
                        if mev != res['events']:
                            ctx.disagree(cd, res['events'], mev, 'history: operation trace')
                        mouts = [[OUTNAMES[x] for x in m['outs1']], [OUTNAMES[x] for x in m['outs2']]]
                        if mouts != res['outcomes']:
                            ctx.disagree(cd, res['outcomes'], mouts, 'history: outcomes of the uses')
                        if not same_dir(res['dir'], md):
                            ctx.disagree(cd, show_dir(res['dir']), show_dir(md), 'history: final directory')
                        ctx.traces_vs_impl += 1
                    elif not same_dir(res['snaps'][k], md):
                        ctx.disagree(cd, show_dir(res['snaps'][k]), show_dir(md), f'history: directory after {k} operations')
            mb.add(req, cb)
            mb.flush()


# --------------------------------------------------------------------------- the check

def explore(ctx, drv):
    sb = Sandbox()
    mb = ModelBatch(drv)
    try:
        if drv is not None:
            ctx.extra['impl_shape_from_source'] = drv.batch([{'op': 'impl'}])[0].get('impl')
        t0 = time.time()
        # (A) AtomicWriter, single
        for j, sc in enumerate(gen_scenarios(ctx)):
            case = writer_case(sc)
            big = any(op[0] == 'w' and len(op[1]) > 1000 for op in case.script)
            forks = ()
            if j % ctx.budget(6, 1) == 0:
                forks = (True, False)
            explore_case(ctx, sb, mb, case, full=True, pairs=(j % ctx.budget(5, 2) == 0) and not big, forks=forks)
            ctx.count('script-len=%d' % min(len(sc['script']), 4))
            ctx.count('mode:' + sc['mode'])
            if len(mb.reqs) >= 40:
                mb.flush()
        mb.flush()
        ctx.log(f'single writer done in {time.time() - t0:.1f}s ({ctx.evaluations} cases)')
        # (A') destination name shapes with related bystander names
        t0 = time.time()
        for j, sc in enumerate(gen_name_scenarios(ctx)):
            case = writer_case(sc)
            explore_case(ctx, sb, mb, case, full=True, pairs=False, forks=(True, False) if j % ctx.budget(8, 2) == 0 else (),
                         label='name-shape')
            ctx.count('dest-name:' + sc['dest'])
            if len(mb.reqs) >= 40:
                mb.flush()
        mb.flush()
        ctx.log(f'destination name shapes (single writer) done in {time.time() - t0:.1f}s')
        # unflushed runs (real buffering): property oracle only
        t0 = time.time()
        for j, sc in enumerate(gen_scenarios(ctx)):
            if j % ctx.budget(3, 1):
                continue
            case = writer_case(sc)
            base = run_case(sb, case, None, flush=False, snaps=True)
            runs = [({}, base)]
            for i in range(len(base['events'])):
                runs.append(({i: 'enospc'}, run_case(sb, case, {i: 'enospc'}, flush=False, snaps=True)))
            for faults, res in runs:
                desc = dict(case.desc, faults={str(k): v for k, v in faults.items()}, flush=False)
                check_final(ctx, case, res, desc, bool(faults))
                for k, s in enumerate(res['snaps']):
                    check_crash_state(ctx, case, s, dict(desc, kill_at=k), f'(unflushed) killed before operation {k}')
                ctx.case({'case': _compact(case.desc), 'faults': faults, 'flush': False}, nontrivial=True, sample_every=997)
                ctx.count('unflushed-runs')
        # (B) BSP.save
        t0 = time.time()
        samples = bsp_samples(sb)
        case, ref = bsp_case(sb, 'small', samples['small'])
        ctx.extra['bsp_small'] = {'bytes': len(samples['small']), 'boundaries': len(ref['events']),
                                  'body_actions': len(case.script)}
        if replay_script(case.script) != case.new:
            ctx.disagree({'bsp': 'small'}, _short(case.new), _short(replay_script(case.script)),
                         'BSP.save: replaying the recorded write/seek script does not give the file that was written')
        explore_case(ctx, sb, mb, case, full=False, pairs=False, snaps=True, fault_snaps=False,
                     forks=(True, False) if ctx.thorough else (False,), label='bsp-small')
        mb.flush()
        case2, _ = bsp_case(sb, 'small', samples['small'], other_name='copy.bsp')
        explore_case(ctx, sb, mb, case2, full=False, pairs=False, snaps=True, fault_snaps=False, forks=(),
                     label='bsp-small-saveas')
        mb.flush()
        ctx.log(f'BSP.save (stripped sample, {len(ref["events"])} boundaries) done in {time.time() - t0:.1f}s')
        # full-size sample: oracle only (snapshots of 800 kB at every boundary of every run would be too slow)
        t0 = time.time()
        casef, reff = bsp_case(sb, 'full', samples['full'])
        T = len(reff['events'])
        ctx.extra['bsp_full'] = {'bytes': len(samples['full']), 'boundaries': T}
        step = ctx.budget(5, 1)
        for i in list(range(0, T, step)) + list(range(max(0, T - 6), T)):
            res = run_case(sb, casef, {i: 'enospc'}, flush=False, snaps=False)
            desc = dict(casef.desc, faults={str(i): 'enospc'}, flush=False)
            check_final(ctx, casef, res, desc, True)
            ctx.case({'bsp': 'full', 'fault': i}, nontrivial=True, sample_every=97)
            ctx.count('bsp-full-fault-runs')
        for k in list(range(0, T, ctx.budget(9, 2))) + list(range(max(0, T - 4), T + 1)):
            code, snap = run_killed(sb, casef, k, False)
            check_crash_state(ctx, casef, snap, dict(casef.desc, kill_at=k, flush=False), f'BSP.save killed before operation {k}')
            ctx.case({'bsp': 'full', 'kill_at': k}, nontrivial=True, sample_every=97)
            ctx.count('bsp-full-kills')
        ctx.log(f'BSP.save (full sample, {T} boundaries) done in {time.time() - t0:.1f}s')
        # (C) two writers
        t0 = time.time()
        explore_two(ctx, sb, mb)
        mb.flush()
        ctx.log(f'two writers done in {time.time() - t0:.1f}s')
        # (D) histories over re-used writer objects
        t0 = time.time()
        explore_hist(ctx, sb, mb)
        mb.flush()
        ctx.log(f'histories over re-used writer objects done in {time.time() - t0:.1f}s')
    finally:
        sb.close()


def correspond(ctx, drivers):
    explore(ctx, drivers['drv_c12'])
    ctx.exhaustive = False
    ctx.extra['explored'] = True


def search(ctx):
    """The oracle runs inside explore on every run. If the driver could not be built, explore without it;
    then shrink the first witness."""
    if not ctx.extra.get('explored'):
        explore(ctx, None)
    sb = Sandbox()
    try:
        _extras(ctx, sb)
        # witnesses of repaired defects must pass now
        import common
        for k in common.load_known(PID):
            if k.get('status') == 'fixed' and k.get('witness'):
                for w in _rerun(ctx, sb, k['witness']) or []:
                    ctx.witness(w['key'], 'regression of a repaired defect: ' + w['what'], w['input'])
                ctx.case({'fixed-witness': k.get('key')}, nontrivial=True)
                ctx.count('fixed-witness-replays')
        if ctx.witnesses:
            _shrink(ctx, sb, ctx.witnesses[0])
    finally:
        sb.close()


def _extras(ctx, sb):
    """Situations outside the model: missing parent directory, Path argument, re-use of a writer object."""
    import pathlib
    from srctools import AtomicWriter
    # parent directory does not exist yet
    d = sb.fresh({})
    target = pathlib.Path(d) / 'sub' / 'deeper' / DEST
    for exc in (None, ValueError):
        try:
            with AtomicWriter(target, is_bytes=True) as f:
                f.write(b'new')
                if exc:
                    raise exc(BODY_MARK)
        except ValueError:
            pass
        got = sorted(os.listdir(target.parent))
        want = [] if exc else [DEST]
        if got != want:
            ctx.witness('tmp-left-behind' if exc else 'commit-lost', f'new parent directory holds {got}, expected {want}',
                        {'kind': 'extra', 'what': 'missing-parent', 'exc': bool(exc)})
        if not exc:
            os.unlink(target)
        ctx.case({'extra': 'missing-parent', 'exc': bool(exc)}, nontrivial=True)
    sb.drop(d)
    # destination named tmp_<N> and absent: the writer picks the destination itself as its temp file
    # (excluded class `dest.isTmp = false` of the theorems; open known finding `dest-named-like-temp`)
    for w in _tmp_named_dest(sb):
        ctx.witness(TMPDEST_KEY, w, TMPDEST_WITNESS)
    ctx.case({'extra': 'dest-named-tmp_1'}, nontrivial=True)
    # the same writer object used twice (documented: "can be repeated")
    d = sb.fresh({DEST: OLD})
    w = AtomicWriter(os.path.join(d, DEST), is_bytes=True)
    with w as f:
        f.write(b'first')
    with w as f:
        f.write(b'second')
    snap = snapshot(d)
    if snap != {DEST: b'second'}:
        ctx.witness('commit-lost', f'writer object used twice leaves {show_dir(snap)}', {'kind': 'extra', 'what': 'reuse'})
    ctx.case({'extra': 'reuse'}, nontrivial=True)
    sb.drop(d)


TMPDEST_KEY = 'dest-named-like-temp'
TMPDEST_WITNESS = {'kind': 'writer', 'sc': {'mode': 'b', 'dest': 'tmp_1', 'script': [['w', '70617274'], ['w', '69616c']],
                                            'exc': None, 'old': None, 'decoys': {}}, 'faults': {}}


def _tmp_named_dest(sb):
    """Crash states of AtomicWriter('<dir>/tmp_1') when tmp_1 does not exist: list of failure descriptions."""
    case = writer_case(TMPDEST_WITNESS['sc'])
    res = run_case(sb, case, None, flush=True, snaps=True)
    bad = []
    for k, snap in enumerate(res['snaps']):
        got = snap.get(case.dest)
        if got not in (case.old, case.new):
            bad.append(f"AtomicWriter('tmp_1') with tmp_1 absent: a kill before operation {k} leaves the destination holding "
                       f"{got!r} (old: absent, new: {case.new!r}) - the writer chose the destination as its own temp file")
    return bad[:1]


def _rerun(ctx, sb, inp):
    """Re-run one recorded input; returns the list of witness keys it produces."""
    import common
    sub = common.Ctx(PID, ctx.tier, ctx.seed)
    kind = inp.get('kind')
    if kind == 'hist':
        faults = {(w, i): k for w, i, k in inp.get('faults', [])}
        res = run_hist(sb, inp['objs'], faults, inp.get('decoys', {}), inp['schedule'], flush=inp.get('flush', True))
        check_hist(sub, inp['objs'], faults, res, inp)
    elif kind == 'two':
        faults = {(w, i): k for w, i, k in inp.get('faults', [])}
        res = run_two(sb, inp['sc1'], inp['sc2'], faults, inp.get('decoys', {}), inp['schedule'], flush=inp.get('flush', True))
        check_two(sub, res, inp)
    elif kind in ('writer', 'bsp'):
        if kind == 'writer':
            case = writer_case(inp['sc'])
        else:
            samples = bsp_samples(sb)
            case, _ = bsp_case(sb, inp['sample'], samples[inp['sample']],
                               other_name=None if inp.get('dest', 'map.bsp') == 'map.bsp' else inp['dest'])
        faults = {int(k): v for k, v in (inp.get('faults') or {}).items()}
        flush = inp.get('flush', True)
        if inp.get('kill_at') is not None:
            code, snap = run_killed(sb, case, inp['kill_at'], flush)
            check_crash_state(sub, case, snap, inp, f'process killed before operation {inp["kill_at"]}')
        else:
            res = run_case(sb, case, faults, flush=flush, snaps=True)
            check_final(sub, case, res, inp, bool(faults))
            for k, s in enumerate(res['snaps']):
                check_crash_state(sub, case, s, inp, f'killed before operation {k}')
    elif kind == 'extra':
        _extras(sub, sb)
    else:
        return None
    return sub.witnesses


def _shrink(ctx, sb, w):
    """Shrink the body script of a single-writer witness."""
    inp = w['input']
    if inp.get('kind') != 'writer':
        return
    import common
    sc = inp['sc']
    key = w['key']

    def fails(script):
        sc2 = dict(sc, script=list(script))
        if sc2.get('exc') and sc2['exc'][0] > len(script):
            sc2['exc'] = [len(script), sc2['exc'][1]]
        for fk in [inp.get('faults') or {}]:
            # faults are indexed by boundary: try the same index and the shifted ones
            for shift in range(0, len(sc['script']) - len(script) + 1):
                f2 = {str(int(k) - shift): v for k, v in fk.items() if int(k) - shift >= 0}
                ws = _rerun(ctx, sb, dict(inp, sc=sc2, faults=f2))
                if ws and any(x['key'] == key for x in ws):
                    fails.last = dict(inp, sc=sc2, faults=f2)
                    return True
        return False
    fails.last = None
    if len(sc['script']) > 1:
        common.ddmin(sc['script'], fails, budget=60)
        if fails.last is not None:
            w['input'] = fails.last
            w['what'] += f" (shrunk to a script of {len(fails.last['sc']['script'])} action(s))"


def replay(ctx, payload):
    inp = payload.get('input') or {}
    if 'kind' not in inp:
        print('replay file names a broken obligation/correspondence, no input to replay:',
              payload.get('broken_obligations'), payload.get('disagreements', [])[:1])
        return False
    sb = Sandbox()
    try:
        ws = _rerun(ctx, sb, inp)
    finally:
        sb.close()
    print('input', json.dumps(inp)[:600])
    for w in ws or []:
        print('  property fails:', w['key'], '-', w['what'])
    return not ws


def replay_known(ctx, finding):
    sb = Sandbox()
    try:
        if finding.get('key') == TMPDEST_KEY:
            return bool(_tmp_named_dest(sb))
        ws = _rerun(ctx, sb, finding['witness'])
    finally:
        sb.close()
    return bool(ws)


LEVEL_TEXT = ("Theorems about the small-step model of AtomicWriter (as coded; shape parameters regenerated from the source): "
              "C12_crash (every script, fault plan and crash point: destination = old or = new; only a successful rename "
              "changes it), C12_fail (a raised outcome leaves the whole directory as it was unless the unlink itself failed), "
              "C12_commit, C12_two (two writers, distinct destinations, every schedule and fault plan: live temp names "
              "distinct, each destination old_i or new_i, nobody touches the other's temp), C12_reuse_fresh / C12_hist_two / "
              "C12_hist_no_touch (writer objects re-used any number of times: __exit__ restores the initial state - translator "
              "fact C12_gen_reset - so each use is a fresh writer and the two-writer theorems hold for histories), C12_save (translator fact: BSP.save "
              "writes only inside `with AtomicWriter(filename or self.filename)`). The model is tied to the code by the operation "
              "trace, outcome and directory bytes at every boundary of fault-injected, killed and interleaved runs.")
LEVEL_NOTE = ("Trusted: Lean kernel + propext/Classical.choice/Quot.sound; tools/gen_save.py; harness/c12_fs.py instrumentation; "
              "OS semantics of rename/O_EXCL are assumptions of the model. Not covered: fsync/power loss, more than two writers, "
              "other processes. Excluded class (open known finding dest-named-like-temp): destinations named tmp_N. "
              "Genuine defect found and fixed (/repo aa138fb): tmp_N left behind when close()/replace() raised; the theorems "
              "C12_fail_unfixed_close/_replace prove the old shape violates C12_fail.")
TECHNIQUE = "Lean 4 invariant proofs over a small-step file-system model (rely/guarantee for two writers) + fault-injection / fork-kill / lock-step differential correspondence"
DESIGN_REF = "DESIGN.md section 6, C12"
