"""C09 — copies of map objects are complete and independent of their source."""
import random, copy as _copy, warnings, json, hashlib
import c09_util as U
from c09_util import M

PID = 'C09'
GENS = ['copy']
DRIVERS = ['drv_c09']
PROPS = 'Srctools.Props.C09'
RULE = ("objects generated from (kind, seed): point entities with keys/outputs/fixups, brush entities, solids from "
        "vmf.make_prism and from arbitrary faces, faces with Strata point data, displacements of power 1-4 with vertex data, "
        "allowed-vertex arrays and multiblend, visgroup trees, groups, cameras, cordons, outputs, fixup tables, UV axes, "
        "Keyvalues trees; each copied within one map and into another map. A case = (kind, seed, across-maps); "
        "non-trivial = the object reaches at least one mutable sub-object besides itself; distinct by the serialised store. "
        "Per case: id-walk of original vs copy against the model copy driven by the extracted table (labelled trees), "
        "export equality modulo ids, then API-level and exhaustive in-place mutation of either side with snapshots of the other; "
        "Keyvalues +, +=, extend against the model; Vec/Angle/Matrix operators on random operands.")
TRUSTED = ["model: Heap.copyWith driven by Gen.Copy.table (lean/Srctools/Model/Heap.lean, Model/C09.lean); the table is "
           "regenerated from vmf.py/keyvalues.py by tools/gen_copy.py (ast only)",
           "harness/c09_util.py Walker: the id-walk that serialises implementation objects into the model's store "
           "(atoms = None/bool/int/float/str/enum/compiled regex/the VMF; ids of Entity/Solid/Side/VisGroup/EntityGroup are "
           "replaced by a constant because they are fresh by design)",
           "in-place mutations are assumed to write only to objects reachable from the mutated object (checked per case by "
           "the frame request: changed locations vs reach of the other side)"]
NOT_MODELLED = ["copy options: keep_vis=False is covered by the direct search only; des_id / side_mapping / group_mapping are not exercised",
                "Keyvalues '+'/'+=' iterate the live list in the implementation; the model iterates a snapshot (they differ only "
                "when a block is added to itself, which does not terminate in the implementation for '+=')",
                "VMF-level indexes (by_class/by_target) touched by Entity.__setitem__ — shared by design, property C07",
                "Vec/Angle/Matrix operator purity is checked by direct search only (no Lean model of math.py here)"]
ASSUMPTIONS = ["the VMF an object belongs to and object ids are not part of the copied value (reset by design)"]

KINDS = ['rich', 'entity', 'brush_entity', 'solid', 'side', 'disp1', 'disp2', 'disp3', 'disp4', 'visgroup', 'group', 'camera',
         'cordon', 'output', 'fixup', 'uvaxis', 'kv', 'kvroot']
WEIGHTS = {'rich': 1, 'entity': 8, 'brush_entity': 6, 'solid': 6, 'side': 4, 'disp1': 3, 'disp2': 3, 'disp3': 2, 'disp4': 1, 'visgroup': 3,
           'group': 1, 'camera': 1, 'cordon': 1, 'output': 1, 'fixup': 2, 'uvaxis': 1, 'kv': 4, 'kvroot': 3}


# ------------------------------------------------------------------ cases

def build(case):
    """-> (vmf the object lives in, another vmf, the object)"""
    vmf, kvm, sm = M.get()
    rng = random.Random('obj:' + case['seed'])
    home, other = vmf.VMF(), vmf.VMF()
    # occupy some ids in the other map so that "keep the id" sometimes has to pick another one
    for _ in range(rng.randrange(0, 3)):
        other.create_ent('info_null')
    k = case['kind']
    if k == 'rich': o = U.rich_entity(rng, home)
    elif k == 'entity': o = U.r_entity(rng, home, brush=False)
    elif k == 'brush_entity': o = U.r_entity(rng, home, brush=True, max_power=2)
    elif k == 'solid': o = U.r_solid(rng, home)
    elif k == 'side': o = U.r_side(rng, home, 0)
    elif k.startswith('disp'): o = U.r_side(rng, home, int(k[4]))
    elif k == 'visgroup': o = U.r_visgroup(rng, home)
    elif k == 'group': o = U.r_group(rng, home)
    elif k == 'camera': o = U.r_camera(rng, home)
    elif k == 'cordon': o = U.r_cordon(rng, home)
    elif k == 'output': o = U.r_output(rng)
    elif k == 'fixup':
        e = U.r_entity(rng, home, brush=False)
        e.fixup['always'] = 'x'
        if rng.random() < 0.5:
            e.fixup.substitute('$always text')      # populates the cached matcher
        o = e.fixup
    elif k == 'uvaxis': o = vmf.UVAxis(U.r_num(rng), U.r_num(rng), U.r_num(rng), U.r_num(rng), 0.25)
    elif k == 'kv': o = U.r_kv(rng, 0, block=rng.random() < 0.85)
    elif k == 'kvroot': o = U.r_kv(rng, root=True)
    else: raise ValueError(k)
    return home, other, o


def do_copy(o, other, across):
    vmf, kvm, sm = M.get()
    tgt = other if across else None
    with warnings.catch_warnings():
        warnings.simplefilter('ignore')
        if isinstance(o, (vmf.Entity, vmf.Solid, vmf.Side)):
            return o.copy(vmf_file=tgt)
        if isinstance(o, vmf.VisGroup):
            return o.copy(tgt, {})
        if isinstance(o, vmf.EntityGroup):
            return o.copy(tgt)
        if isinstance(o, vmf.EntityFixup):
            return _copy.deepcopy(o)
        return o.copy()


def gen_cases(ctx, n):
    rng = ctx.rng
    kinds = [k for k in KINDS for _ in range(WEIGHTS[k])]
    out = [{'kind': 'rich', 'seed': 'rich', 'across': False}, {'kind': 'rich', 'seed': 'rich', 'across': True},
           {'kind': 'kv', 'seed': 'kv0', 'across': False}, {'kind': 'fixup', 'seed': 'fixup0', 'across': False}]
    for i in range(n - len(out)):
        k = rng.choice(kinds)
        out.append({'kind': k, 'seed': f'{ctx.seed}:{i}:{rng.randrange(1 << 30)}',
                    'across': k not in ('camera', 'cordon', 'output', 'fixup', 'uvaxis', 'kv', 'kvroot') and rng.random() < 0.4})
    return out


_TABLE = None


def static_table():
    """Class -> field names, parsed from the generated Lean file (used when the driver is unavailable)."""
    import re, common
    txt = (common.LEAN / 'Srctools' / 'Gen' / 'Copy.lean').read_text(encoding='utf-8')
    tab = {}
    cur = None
    for line in txt.splitlines():
        m = re.match(r'\s*\{ name := "([^"]+)", site :=', line)
        if m:
            cur = tab.setdefault(m.group(1), [])
            continue
        m = re.match(r'\s*\{ name := "([^"]+)", kind :=', line)
        if m and cur is not None:
            cur.append(m.group(1))
    return tab


def table(drivers=None):
    global _TABLE
    if _TABLE is None:
        if drivers:
            r = drivers['drv_c09'].batch([{'op': 'table'}])[0]
            _TABLE = ({c: [f for f, _ in fs] for c, fs in r['classes']}, r)
        else:
            _TABLE = (static_table(), None)
    return _TABLE


# ------------------------------------------------------------------ direct property (implementation only)

def _owner_key(W, root, target):
    """`Class.field` of the nearest table-class object on a path from root to target."""
    seen, stack = set(), [(root, None)]
    while stack:
        x, own = stack.pop()
        if id(x) in seen:
            continue
        seen.add(id(x))
        if x is target:
            return own or type(x).__name__
        named = type(x).__name__ in W.table
        for f, v in W.fields_of(x):
            if not W.is_atom(v):
                stack.append((v, f'{type(x).__name__}.{f}' if named else own))
    return type(target).__name__


def _lost_key(path):
    parts = [p for p in path.split('.') if p and not p.isdigit()]
    return parts[-1] if parts else path


def check_case_impl(ctx, case, tab):
    """The property itself on the implementation for one generated object. Witnesses via ctx.witness."""
    vmf, kvm, sm = M.get()
    kind = case['kind']
    # 1. sharing + completeness at copy time
    home, other, o = build(case)
    cp = do_copy(o, other, case['across'])
    W = U.Walker(tab)
    W.add(o)
    k = len(W.objs)
    orig_ids = {id(x): x for x in W.reach(o)}
    for x in W.reach(cp):
        if id(x) in orig_ids and W.cls_of(x)[1]:
            key = 'shared:' + _owner_key(W, cp, x)
            ctx.witness(key, f'{type(o).__name__}.copy(): the copy shares the mutable {type(x).__name__} object at {key[7:]} with its source', case)
            break
    t_o, t_c = export_pair(o, cp)
    if t_o != t_c:
        d = U.diff_tree(U.strip_labels(W.lab(o, 0)), U.strip_labels(W.lab(cp, 0)))
        where = d[0] if d else '?'
        ctx.witness('lost:' + _lost_key(where), f'{type(o).__name__}.copy(): exported text of the copy differs from the original (apart from ids); first differing state at {where}: {d[1:] if d else ""}', case)
    else:
        d = U.diff_tree(U.strip_labels(W.lab(o, 0)), U.strip_labels(W.lab(cp, 0)))
        if d:
            ctx.witness('lost:' + _lost_key(d[0]), f'{type(o).__name__}.copy(): state of the copy differs from the original at {d[0]}: {d[1:]}', case)
    # 2. mutation scripts, both directions, API-level then exhaustive
    for direction in ('copy', 'orig'):
        for style in ('api', 'brutal'):
            rng = random.Random(f'mut:{case["seed"]}:{direction}:{style}')
            home, other, o = build(case)
            cp = do_copy(o, other, case['across'])
            mutated, watched = (cp, o) if direction == 'copy' else (o, cp)
            W = U.Walker(tab)
            before_txt = U.export_text(watched)
            before_tree = U.strip_labels(W.lab(watched, 0))
            try:
                if style == 'api':
                    ops = U.api_mutation(mutated, rng, rng.randrange(1, 8))
                else:
                    ops = ['brutal']
                    U.brutal_mutation(W, mutated, rng)
            except Exception as e:   # a mutation the object does not support: not an aliasing matter
                ctx.count(f'mutation-raised:{type(e).__name__}')
                ops = ['raised']
            ctx.count('mutation:' + style)
            after_txt = U.export_text(watched)
            after_tree = U.strip_labels(W.lab(watched, 0))
            if after_txt != before_txt or after_tree != before_tree:
                d = U.diff_tree(before_tree, after_tree)
                where = d[0] if d else 'export'
                who = 'original' if direction == 'copy' else 'copy'
                ctx.witness('visible:' + _lost_key(where),
                            f'{type(o).__name__}: mutating the {"copy" if direction == "copy" else "original"} ({", ".join(ops[:6])}) is visible through the {who} at {where}',
                            dict(case, direction=direction, style=style))
                return
    # 3. Keyvalues operators
    if kind in ('kv', 'kvroot'):
        check_kv_ops(ctx, case, tab)
    # 4. the keep_vis=False option of Entity.copy / Solid.copy
    if kind in ('rich', 'entity', 'brush_entity', 'solid'):
        check_keep_vis(ctx, case, tab)


def check_keep_vis(ctx, case, tab):
    """copy(keep_vis=False): the copy is the original with hidden/vis flags and visgroup ids reset — and independent."""
    vmf, kvm, sm = M.get()
    inp = dict(case, keep_vis=False)
    home, other, o = build(case)
    cp = o.copy(vmf_file=other if case['across'] else None, keep_vis=False)
    _, _, ref = build(case)               # the same object again (generation is deterministic)
    ref.hidden, ref.vis_shown, ref.vis_auto_shown = False, True, True
    ref.visgroup_ids = set()
    ctx.count('keep_vis=False')
    variants = [U.export_text(ref, True)]
    for sol in getattr(ref, 'solids', []):       # Entity.copy(keep_vis=False) may strip its brushes too (repo 25c2d1c)
        sol.hidden, sol.vis_shown, sol.vis_auto_shown = False, True, True
        sol.visgroup_ids = set()
    variants.append(U.export_text(ref, True))
    if U.export_text(cp, True) not in variants:
        ctx.witness('keepvis:export', f'{type(o).__name__}.copy(keep_vis=False): exported text differs from the original with its visibility reset', inp)
        return
    W = U.Walker(tab)
    orig_ids = {id(x) for x in W.reach(o)}
    for x in W.reach(cp):
        if id(x) in orig_ids and W.cls_of(x)[1]:
            ctx.witness('keepvis:shared:' + _owner_key(W, cp, x), f'{type(o).__name__}.copy(keep_vis=False) shares the mutable {type(x).__name__} at {_owner_key(W, cp, x)} with its source', inp)
            return
    for mutated, watched in ((cp, o), (o, cp)):
        before = U.export_text(watched)
        U.brutal_mutation(W, mutated, random.Random('kvis:' + case['seed']))
        if U.export_text(watched) != before:
            ctx.witness('keepvis:visible', f'{type(o).__name__}.copy(keep_vis=False): mutating one side is visible through the other', inp)
            return


def export_pair(o, cp):
    return U.export_text(o, True), U.export_text(cp, True)


def kv_operands(case):
    """-> (a block, b as given to the operator, description)"""
    vmf, kvm, sm = M.get()
    rng = random.Random('kvop:' + case['seed'])
    a = U.r_kv(rng, root=True) if case['kind'] == 'kvroot' else U.r_kv(rng, 0, block=True)
    form = rng.choice(['root', 'list', 'list', 'empty', 'named'])
    if form == 'named':      # deprecated: a named block/leaf is appended as one child
        b = U.r_kv(rng, 1)
    elif form == 'root':
        b = U.r_kv(rng, root=True)
    elif form == 'list':
        b = [U.r_kv(rng, 1) for _ in range(rng.randrange(1, 4))]
    else:
        b = []
    return a, b, form


def kv_text(x):
    if isinstance(x, list):
        return '\n'.join(U.export_text(c) for c in x)
    return U.export_text(x)


def check_kv_ops(ctx, case, tab):
    vmf, kvm, sm = M.get()
    for op in ('add', 'iadd', 'extend'):
        a, b, form = kv_operands(case)
        ta, tb = kv_text(a), kv_text(b)
        kids_a = [U.export_text(c) for c in a]
        if form == 'named':
            if op == 'extend' and not b.has_children():
                continue            # extend() of a leaf raises by design
            kids_b = [U.export_text(b)] if op != 'extend' else [U.export_text(c) for c in b]
        else:
            kids_b = [U.export_text(c) for c in b]
        with warnings.catch_warnings():
            warnings.simplefilter('ignore')
            if op == 'add':
                res = a + b
            elif op == 'iadd':
                res = a
                res += b
            else:
                res = a
                a.extend(b)
        ctx.count('kvop:' + op + ':' + form)
        inp = dict(case, kvop=op)
        if op == 'add':
            if kv_text(a) != ta:
                ctx.witness('kv-add-mutates-self', f'Keyvalues.__add__: `a + b` changed its left operand (a had {len(kids_a)} children, now {len(list(a))})', inp)
                continue
            if res is a:
                ctx.witness('kv-add-returns-self', 'Keyvalues.__add__ returned its left operand', inp)
                continue
        if kv_text(b) != tb:
            ctx.witness(f'kv-{op}-mutates-other', f'Keyvalues {op}: the right operand changed', inp)
            continue
        got = [U.export_text(c) for c in res]
        if got != kids_a + kids_b:
            ctx.witness(f'kv-{op}-wrong-result', f'Keyvalues {op}: result has children {len(got)}, expected {len(kids_a)}+{len(kids_b)} (a\'s then copies of b\'s)', inp)
            continue
        # independence: result vs operands
        W = U.Walker(tab)
        rb = {id(x) for x in (W.reach(b))}
        ra = {id(x) for x in W.reach(a)} if op == 'add' else set()
        for x in W.reach(res):
            if W.cls_of(x)[1] and (id(x) in rb or id(x) in ra) and x is not b:
                ctx.witness(f'kv-{op}-aliases-operand', f'Keyvalues {op}: the result shares a mutable {type(x).__name__} with an operand', inp)
                break
        tr = kv_text(res)
        rng = random.Random('kvmut:' + case['seed'])
        for c in ([b] if form == 'named' else list(b) if not isinstance(b, list) else b):
            U.brutal_mutation(W, c, rng)
        if kv_text(res) != tr:
            ctx.witness(f'kv-{op}-aliases-operand', f'Keyvalues {op}: mutating the right operand afterwards changes the result', inp)


# ------------------------------------------------------------------ Vec / Angle / Matrix operators

def math_state(x):
    vmf, kvm, sm = M.get()
    if isinstance(x, sm.VecBase): return ('V', repr(x.x), repr(x.y), repr(x.z))
    if isinstance(x, sm.AngleBase): return ('A', repr(x.pitch), repr(x.yaw), repr(x.roll))
    if isinstance(x, sm.MatrixBase): return ('M',) + tuple(repr(getattr(x, s)) for s in U.MAT_SLOTS)
    return ('other', repr(x))


def check_math_ops(ctx, n):
    vmf, kvm, sm = M.get()
    rng = random.Random(f'math:{ctx.seed}')
    import operator as op
    # neutral operands (zero vector, identity rotation, factor 1) are over-represented: "fast paths" live there
    def vec():
        cls = rng.choice([sm.Vec, sm.FrozenVec])
        r = rng.random()
        if r < 0.10: return cls(0, 0, 0)
        if r < 0.14: return cls(1, 1, 1)
        return cls(U.r_num(rng), U.r_num(rng), U.r_num(rng))
    def ang():
        cls = rng.choice([sm.Angle, sm.FrozenAngle])
        if rng.random() < 0.12: return cls(0, 0, 0)
        return cls(rng.choice([0, 45, 90, 270, 12.5]), rng.choice([0, 90, 180, 359]), rng.choice([0, 30, 45]))
    def mat(): return rng.choice([sm.Matrix, sm.FrozenMatrix]).from_angle(ang()) if rng.random() < 0.8 else rng.choice([sm.Matrix, sm.FrozenMatrix])()
    def scal(): return rng.choice([2, 0.5, -1, 3.0, 7, 1, 1.0, 0])
    def tup(): return (0, 0, 0) if rng.random() < 0.1 else (U.r_num(rng), U.r_num(rng), U.r_num(rng))
    binops = [('add', op.add, vec, lambda: rng.choice([vec, tup, scal])()), ('sub', op.sub, vec, lambda: rng.choice([vec, tup, scal])()),
              ('radd', lambda a, b: b + a, vec, lambda: rng.choice([tup, scal])()), ('rsub', lambda a, b: b - a, vec, lambda: rng.choice([tup, scal])()),
              ('mul', op.mul, vec, scal), ('rmul', lambda a, b: b * a, vec, scal), ('truediv', op.truediv, vec, scal),
              ('floordiv', op.floordiv, vec, scal), ('mod', op.mod, vec, scal), ('divmod', divmod, vec, scal),
              ('rtruediv', lambda a, b: b / a, lambda: sm.Vec(1, 2, 4), scal),
              ('vec@ang', op.matmul, vec, ang), ('vec@mat', op.matmul, vec, mat), ('tuple@ang', lambda a, b: a @ b, tup, ang),
              ('tuple@mat', lambda a, b: a @ b, tup, mat),
              ('ang*', op.mul, ang, scal), ('*ang', lambda a, b: b * a, ang, scal), ('ang@ang', op.matmul, ang, ang), ('ang@mat', op.matmul, ang, mat),
              ('mat@mat', op.matmul, mat, mat), ('mat@ang', op.matmul, mat, ang),
              ('cross', lambda a, b: a.cross(b), vec, vec), ('dot', lambda a, b: a.dot(b), vec, vec),
              ('lerp-like', lambda a, b: (a + b) / 2, vec, vec)]
    unops = [('neg', op.neg, vec), ('pos', op.pos, vec), ('abs', abs, vec), ('round', round, vec), ('norm', lambda v: v.norm(), vec),
             ('vec.copy', lambda v: v.copy(), vec), ('ang.copy', lambda a: a.copy(), ang), ('mat.copy', lambda m: m.copy(), mat),
             ('mat.transpose', lambda m: m.transpose(), mat), ('mat.to_angle', lambda m: m.to_angle(), mat),
             ('thaw/freeze', lambda v: v.thaw() if hasattr(v, 'thaw') else v.freeze(), vec)]
    mutable = (sm.Vec, sm.Angle, sm.Matrix)
    for _ in range(n):
        if rng.random() < 0.75:
            name, f, ga, gb = rng.choice(binops)
            a, b = ga(), gb()
            args = (a, b)
        else:
            name, f, ga = rng.choice(unops)
            a = ga()
            args = (a,)
        before = [math_state(x) for x in args]
        case = {'kind': 'math', 'op': name, 'types': [type(x).__name__ for x in args], 'state': before}
        try:
            r = f(*args)
        except (ZeroDivisionError, TypeError, ValueError) as e:
            ctx.count('math-raised:' + type(e).__name__)
            r = None
        ctx.count('math:' + name)
        after = [math_state(x) for x in args]
        tkey = '/'.join(type(x).__name__ for x in args)
        if after != before:
            ctx.witness(f'math-operand-changed:{name}:{tkey}', f'{name} on {tkey}: an operand changed from {before} to {after}', case)
            continue
        rs = r if isinstance(r, tuple) and not hasattr(r, '_fields') else (r,)
        for x in rs:
            if isinstance(x, mutable):
                if any(x is y for y in args):
                    ctx.witness(f'math-result-aliases:{name}:{tkey}', f'{name} on {tkey}: the result is the (mutable) operand itself', case)
                    break
                # mutate the result; operands must not move
                if isinstance(x, sm.Vec): x += (1, 1, 1)
                elif isinstance(x, sm.Angle): x.yaw = x.yaw + 10
                else: x[1, 1] = x[1, 1] + 1
                if [math_state(y) for y in args] != before:
                    ctx.witness(f'math-result-aliases:{name}:{tkey}', f'{name} on {tkey}: mutating the result changes an operand', case)
                    break


# ------------------------------------------------------------------ correspondence (model vs implementation)

def correspond(ctx, drivers):
    vmf, kvm, sm = M.get()
    drv = drivers['drv_c09']
    tab, info = table(drivers)
    ctx.extra['gen_table'] = {c: dict(fs) for c, fs in info['classes']}
    ctx.extra['kv_add_target'] = info['addTarget']
    cases = gen_cases(ctx, ctx.budget(700, 4500))
    ctx._cases = cases
    reqs, meta = [], []
    for case in cases:
        home, other, o = build(case)
        W = U.Walker(tab)
        root = W.add(o)
        store = W.store()
        k = len(store)
        cp = do_copy(o, other, case['across'])
        W.add(cp)
        impl_tree = W.lab(cp, k)
        reqs.append({'op': 'copy', 'heap': store, 'root': root, 'fuel': U.FUEL})
        meta.append(('copy', case, impl_tree, k, type(o).__name__))
        digest = hashlib.blake2b(json.dumps(store).encode(), digest_size=8).hexdigest()
        rec = {'kind': case['kind'], 'across': case['across'], 'objects': k, 'store_digest': digest}
        ctx.case(rec, nontrivial=k > 1, sample_every=97)     # distinct by content of the serialised store
        rec['seed'] = case['seed']                           # (for the samples in the evidence)
        ctx.count('kind:' + case['kind'] + (':across' if case['across'] else ''))
        ctx.count('objects<=%d' % (10 if k <= 10 else 100 if k <= 100 else 1000 if k <= 1000 else 100000))
        # frame: mutate one side, compare the other side's abstraction before/after
        rng = random.Random('frame:' + case['seed'])
        direction = rng.choice(['copy', 'orig'])
        mutated, watched = (cp, o) if direction == 'copy' else (o, cp)
        before = W.store()
        txt_before = U.export_text(watched)
        try:
            if rng.random() < 0.5:
                U.api_mutation(mutated, rng, rng.randrange(1, 6))
            else:
                U.brutal_mutation(W, mutated, rng)
        except Exception as e:
            ctx.count(f'mutation-raised:{type(e).__name__}')
        after = W.store()
        txt_same = U.export_text(watched) == txt_before
        reqs.append({'op': 'frame', 'before': before, 'after': after, 'other': W.loc[id(watched)], 'fuel': U.FUEL})
        meta.append(('frame', case, txt_same, direction, None))
        # Keyvalues operators
        if case['kind'] in ('kv', 'kvroot'):
            for opname in ('add', 'iadd', 'extend'):
                a, b, form = kv_operands(case)
                if form == 'named':
                    continue        # the deprecated single-keyvalue form is covered by the direct search only
                W2 = U.Walker(tab)
                la = W2.add(a)
                lb = W2.add(b)
                lbl = lb if isinstance(b, list) else W2.loc[id(b._value)]
                st = W2.store()
                k2 = len(st)
                with warnings.catch_warnings():
                    warnings.simplefilter('ignore')
                    if opname == 'add':
                        res = a + b
                    elif opname == 'iadd':
                        res = a
                        res += b
                    else:
                        res = a
                        a.extend(b)
                W2.add(res)
                impl = {'a': W2.lab(a, k2), 'b': W2.lab(b, k2), 'res': W2.lab(res, k2)}
                if opname == 'add':
                    reqs.append({'op': 'kvadd', 'heap': st, 'a': la, 'b': lb, 'bl': lbl, 'fuel': U.FUEL})
                else:
                    reqs.append({'op': 'kviadd', 'which': opname, 'heap': st, 'a': la, 'b': lb, 'bl': lbl, 'fuel': U.FUEL})
                meta.append(('kv' + opname, case, impl, form, None))
                ctx.count('kvop-model:' + opname + ':' + form)
    # run the model in chunks (stores can be large)
    replies = []
    CH = 150
    for i in range(0, len(reqs), CH):
        replies += drv.batch(reqs[i:i + CH])
    seen_broken = set()
    for (what, case, x, y, z), r in zip(meta, replies):
        brief = {'kind': case['kind'], 'seed': case['seed'], 'across': case['across'], 'what': what}
        if 'error' in r:
            ctx.disagree(brief, 'n/a', r, 'driver error')
            continue
        if what == 'copy':
            impl_tree, k, cname = x, y, z
            if not r['ok']:
                ctx.disagree(brief, 'copy made', r, 'model copy failed (fuel/dangling)')
                continue
            if not (r['closed'] and r['immClosed']):
                ctx.disagree(brief, 'n/a', {kk: r[kk] for kk in ('closed', 'immClosed')}, 'serialised store is not closed / immutables not deep')
            if not r['wellKinded'] or not r['adequate']:
                msg = f"sampled store does not satisfy the theorem's hypotheses for {cname}: wellKinded={r['wellKinded']} adequate={r['adequate']} {r.get('inadequate', [])[:4]}"
                keyb = json.dumps(r.get('inadequate', [])[:4])
                if keyb not in seen_broken:
                    seen_broken.add(keyb)
                    ctx.broken.append('hypothesis: ' + msg)
                ctx.count('hypothesis-failed')
            d = U.diff_tree(r['tree'], impl_tree)
            if d:
                ctx.disagree(brief, {'path': d[0], 'impl': d[2]}, {'path': d[0], 'model': d[1]}, 'copy: labelled tree of the copy')
            miss = U.missing_paths(r['tree'])
            if r['absEq'] != (not miss):
                ctx.disagree(brief, 'n/a', {'absEq': r['absEq'], 'missing': miss[:3]}, 'model absEq inconsistent with missing fields')
            if not r['origSame']:
                ctx.disagree(brief, 'n/a', r['origSame'], 'model copy changed the original')
            ctx.traces_vs_impl += 1
        elif what == 'frame':
            txt_same, direction = x, y
            if r['absEq'] and not txt_same:
                ctx.disagree(brief, 'export changed', r, 'frame: model abstraction unchanged but exported text changed')
            if not r['absEq'] and r['confined']:
                ctx.disagree(brief, f'export same={txt_same}', r, 'frame: writes confined away from the watched side yet its abstraction changed')
            ctx.count('frame:' + ('unchanged' if r['absEq'] else 'CHANGED'))
            ctx.traces_vs_impl += 1
        else:
            impl, form = x, y
            if not r.get('ok'):
                ctx.disagree(brief, 'done', r, what + ': model operation failed')
                continue
            for part in ('a', 'b', 'res'):
                if part in r:
                    d = U.diff_tree(r[part], impl[part])
                    if d:
                        ctx.disagree(dict(brief, form=form), {'part': part, 'path': d[0], 'impl': d[2]}, {'model': d[1]}, what + ': labelled tree')
                        break
            ctx.traces_vs_impl += 1


def search(ctx):
    tab, _ = table(None)
    cases = getattr(ctx, '_cases', None) or gen_cases(ctx, ctx.budget(700, 4500))
    # neighbours of whatever disagreed
    for d in ctx.disagreements[:20]:
        c = d['case']
        if isinstance(c, dict) and 'seed' in c:
            cases.append({'kind': c['kind'], 'seed': c['seed'], 'across': not c['across']})
    for case in cases:
        try:
            check_case_impl(ctx, case, tab)
        except Exception as e:
            import traceback
            ctx.notes.append(f'search: case {case} raised {type(e).__name__}: {e} {traceback.format_exc()[-400:]}')
            ctx.witness('copy-raised:' + type(e).__name__, f'copy / export of a generated {case["kind"]} raised {type(e).__name__}: {e}', case)
        if len(ctx.witnesses) >= 40:
            _dedupe(ctx)
            if len(ctx.witnesses) >= 40:
                break
    check_math_ops(ctx, ctx.budget(20000, 200000))
    _dedupe(ctx)


def _dedupe(ctx):
    """keep one witness per key, smallest kinds first (a crude shrink: simpler kinds are smaller objects)"""
    order = {k: i for i, k in enumerate(['rich', 'uvaxis', 'output', 'camera', 'cordon', 'group', 'fixup', 'side', 'disp1', 'kv', 'kvroot', 'visgroup', 'entity', 'disp2', 'solid', 'disp3', 'brush_entity', 'disp4', 'math'])}
    best = {}
    for w in ctx.witnesses:
        kk = w['key']
        if kk not in best or order.get(w['input'].get('kind'), 99) < order.get(best[kk]['input'].get('kind'), 99):
            best[kk] = w
    ctx.witnesses[:] = list(best.values())


def replay(ctx, payload):
    tab, _ = table(None)
    inp = payload.get('input') or {}
    if 'kind' not in inp:
        print('replay file names a broken obligation/correspondence, no input to replay:', payload.get('broken_obligations'), payload.get('disagreements', [])[:1])
        return False
    n0 = len(ctx.witnesses)
    if inp['kind'] == 'math':
        print('math operator case:', inp)
        check_math_ops(ctx, 20000)
    else:
        case = {'kind': inp['kind'], 'seed': inp['seed'], 'across': inp.get('across', False)}
        home, other, o = build(case)
        print('object:', type(o).__name__, 'copied', 'across maps' if case['across'] else 'within one map')
        check_case_impl(ctx, case, tab)
    for w in ctx.witnesses[n0:]:
        print('FAILS:', w['key'], '-', w['what'])
    return len(ctx.witnesses) == n0


def replay_known(ctx, finding):
    w = finding.get('witness') or {}
    sub = type(ctx)(ctx.pid, ctx.tier, ctx.seed)
    tab, _ = table(None)
    if w.get('kind') == 'math':
        check_math_ops(sub, 20000)
    else:
        check_case_impl(sub, {'kind': w['kind'], 'seed': w['seed'], 'across': w.get('across', False)}, tab)
    return any(x['key'] == finding['key'] for x in sub.witnesses)


LEVEL_TEXT = ("Heap model in Lean (store = list of objects, abs, Reach, copyWith driven by a per-class/per-field treatment): proved for all stores "
              "that a copy whose treatments are adequate is complete (same abstraction), separated (only immutable objects are reachable from both sides) "
              "and framed (any sequence of writes/allocations on one side leaves the other side's abstraction unchanged); the per-class treatment table is "
              "regenerated from vmf.py/keyvalues.py on every run and the obligations C09_complete/C09_deep/C09_gen_ok are decided on it; Keyvalues '+' is modelled "
              "on the heap and proved pure. The table is tied to behaviour by an id-walk of real copies against the model copy.")
LEVEL_NOTE = ("Trusted: Lean kernel + propext/Classical.choice/Quot.sound; tools/gen_copy.py; the id-walk. Copy options other than the defaults, VMF-level "
              "indexes, and math.py operators are covered by direct search only.")
TECHNIQUE = "Lean 4 heap/aliasing model with frame theorem; ast translator of copy() methods; differential id-walk correspondence; mutation-script search"
DESIGN_REF = "DESIGN.md section 3.3 and section 6, C09"
