"""C04 — Angles, matrices and vectors obey the rotation algebra."""
import math, itertools, random, struct
from fractions import Fraction as Fr

PID = 'C04'
GENS = ['rot']
DRIVERS = ['drv_c04']
PROPS = 'Srctools.Props.C04'
RULE = ("angle triples: ALL multiples of 15 degrees (24^3), pitch = 90/270 +- {1e-12..1e-3} and +- deltas around the 0.001 "
        "threshold of _to_angle (0.0573 deg), random real triples; for each: from_angle/from_pitch/yaw/roll, transpose, "
        "to_angle (branch + (cos,sin) of each result angle), inverse, compared entry by entry with the Lean model evaluated "
        "exactly over Rat on the same six sin/cos doubles (sent as exact rationals). composed: chains of 2-3 angles from the "
        "15-degree grid whose PRODUCT has its forward axis on the gimbal-lock pole up to rounding residue (all 880 "
        "(pitchA,yawA,pitchB,rollB) solutions x free rollA/yawB, sampled), optionally with a roll-only factor in front, a "
        "yaw-only factor behind, or a tiny (1e-12..0.06 deg) rotation that pushes it just off the pole: _to_angle of the "
        "product vs the model, and on the implementation round trip (rounding*(1+1/h) off the gimbal branch, 2h on it), "
        "Angle@Angle vs the matrix product, v @ (A @ B) vs (v @ A) @ B through Angle operands, @= forms. "
        "histories: random sequences (4..16/30 operations) over ONE pool of nine live objects "
        "(2 Vec, FrozenVec, 2 Angle, FrozenAngle, 2 Matrix, FrozenMatrix) of x @ y, x @= y, y.__rmatmul__(x), tuple @ y, "
        "ang.pitch/yaw/roll = v, ang[k] = v, ang *= k, vec.x = v, mat[i,j] = v (all nine), with x.transform(): m @= y, "
        "copy/freeze/thaw, results stored back into the pool; after EVERY step: the step's result vs the model applied to "
        "the operands' current values, every bystander bit-identical, setter/copy results exact, and Vec/tuple/Matrix @ Angle "
        "= ... @ Matrix.from_angle(Angle) and (v @ M) @ Angle = v @ (M @ from_angle(Angle)) through the live Angle objects. "
        "DIRECTED histories: for every operand class pair (right operand a "
        "rotation), operator form F and in-place mutator M of either operand the triples [F(x,y); M(y); F(x',y)], "
        "[F(x,y); M(x); F(x,y')] and [F; copy/freeze/thaw; F] on the same live objects inside a short random history, run "
        "both with and without identity probes between the steps; the probes also use the @= forms and visit the angles in "
        "rotating order (last probed = first probed next round). products: random pairs of rotations and "
        "vectors of magnitude 1e-3..1e6 (matMul, vecRot). dispatch: EVERY (left type, right type, form) of the 7x7x3 table "
        "{Vec,FrozenVec,tuple,Angle,FrozenAngle,Matrix,FrozenMatrix}^2 x {@, @=, direct __rmatmul__} on several value sets "
        "each, plus same-object operands (m @= m, a @= a, fm @ fm): result type, value, result-is-left-operand, left/right "
        "operand bits before/after. general matrices (integer and random, singular ones included) for inverse(). "
        "Tolerances (stated, not proved): polynomial entries 16*2^-53*(1+|v|_1); atan2-derived angles compared through "
        "cos/sin with 64*2^-53*(1+1/r), r the radius of that atan2; inverse 2^-40 relative. "
        "A case = one compared observation; non-trivial = not the identity rotation / not a zero vector; distinct by content.")
TRUSTED = ["model: lean/Srctools/Model/C04.lean (fromAngle, matMul, vecRot, transpose, toAngle, gaussJordanInverse, dispatch); "
           "from_angle/from_pitch/from_yaw/from_roll/_mat_mul (also with other is self)/_vec_rot/transpose/_to_angle's atan2 "
           "arguments and threshold are re-extracted from math.py by tools/gen_rot.py and proved equal to the model (C04_gen_*)",
           "sin/cos/atan2/sqrt/degrees/radians of CPython's libm are not modelled: an angle is three points of the unit circle, "
           "atan2 is its normalised output for a supplied radius; floating-point rounding is covered only by the stated tolerances",
           "the operand dispatch table and inverse() are tied by correspondence only (not by the translator), except the "
           "model parameter `fresh` (a FrozenMatrix product goes into a new object), which gen_rot.py reads off "
           "MatrixBase.__matmul__/__rmatmul__ (C04_gen_fresh) and the harness also probes"]
NOT_MODELLED = ['_math.pyx (Cython twin)', 'floating-point rounding error (tolerances only)', 'Matrix.from_basis / axis_angle',
                'the % 360 normalisation of resulting angles (C05)']
ASSUMPTIONS = ['operands are finite floats; rotation matrices are built by from_angle or products of those',
               'operand classes are the seven listed; no subclassing (all are @final or plain tuple)']

U = Fr(1, 2 ** 53)
TAGS = ['Vec', 'FrozenVec', 'tuple', 'Angle', 'FrozenAngle', 'Matrix', 'FrozenMatrix']
FORMS = ['@', '@=', '__rmatmul__']
VEC, FVEC, TUP, ANG, FANG, MAT, FMAT = range(7)
SLOTS = ['_aa', '_ab', '_ac', '_ba', '_bb', '_bc', '_ca', '_cb', '_cc']


# ----------------------------------------------------------------------------- small helpers

def dy(x):
    """exact value of a double as [n, k] = n / 2^k"""
    n, d = float(x).as_integer_ratio()
    return [n, d.bit_length() - 1]


def fr(p):
    return Fr(p[0], p[1])


def bits(x):
    return struct.pack('<d', float(x)).hex()


def trig(p, y, r):
    """the six doubles from_angle computes, in the model's order cp sp cy sy cr sr"""
    rp, ry, rr = math.radians(p), math.radians(y), math.radians(r)
    return [math.cos(rp), math.sin(rp), math.cos(ry), math.sin(ry), math.cos(rr), math.sin(rr)]


def mat_entries(m):
    return [getattr(m, s) for s in SLOTS]


def radii_of(e):
    """horiz_dist exactly as _to_angle computes it, and the radii of the other atan2 calls"""
    fx, fy, fz, lx, ly, lz, _, _, uz = e
    h = math.sqrt(fx ** 2 + fy ** 2)
    return [h, math.sqrt(fz * fz + h * h), math.sqrt(lz * lz + uz * uz), math.sqrt(lx * lx + ly * ly)]


class Impl:
    def __init__(self):
        import srctools.math as sm
        self.sm = sm
        self.cls = [sm.Vec, sm.FrozenVec, tuple, sm.Angle, sm.FrozenAngle, sm.Matrix, sm.FrozenMatrix]

    def make(self, tag, spec):
        """spec: 3 floats (vector components / angle degrees / angle degrees of the rotation)."""
        sm = self.sm
        a, b, c = spec
        if tag == VEC: return sm.Vec(a, b, c)
        if tag == FVEC: return sm.FrozenVec(a, b, c)
        if tag == TUP: return (float(a), float(b), float(c))
        if tag == ANG: return sm.Angle(a, b, c)
        if tag == FANG: return sm.FrozenAngle(a, b, c)
        if tag == MAT: return sm.Matrix.from_angle(a, b, c)
        if tag == FMAT: return sm.FrozenMatrix.from_angle(a, b, c)
        raise ValueError(tag)

    def tag_of(self, o):
        for i, c in enumerate(self.cls):
            if type(o) is c:
                return i
        if isinstance(o, tuple):
            return TUP
        return None

    def raw(self, o):
        """the floats of an operand, as a list"""
        sm = self.sm
        if isinstance(o, sm.MatrixBase): return mat_entries(o)
        if isinstance(o, sm.AngleBase): return [o.pitch, o.yaw, o.roll]
        if isinstance(o, sm.VecBase): return [o.x, o.y, o.z]
        return [float(t) for t in o]

    def snap(self, o):
        return [bits(x) for x in self.raw(o)]

    def model_val(self, o):
        """operand value as sent to the model"""
        sm = self.sm
        if isinstance(o, sm.AngleBase):
            return [dy(t) for t in trig(o.pitch, o.yaw, o.roll)]
        return [dy(t) for t in self.raw(o)]

    def as_matrix(self, o):
        sm = self.sm
        return sm.Matrix.from_angle(o) if isinstance(o, sm.AngleBase) else o

    def probe_fresh(self):
        sm = self.sm
        fm = sm.FrozenMatrix.from_yaw(30)
        before = self.snap(fm)
        r = fm @ sm.Matrix.from_yaw(10)
        return r is not fm and self.snap(fm) == before


def tol_poly(scale):
    return 16 * U * (1 + scale)


def tol_ang(r):
    return 64 * U * (1 + (1 / Fr(r) if r else 0)) if r else Fr(1)


def close(a, b, tol):
    return abs(Fr(a) - Fr(b)) <= tol


def is_finite_list(l):
    return all(math.isfinite(x) for x in l)


# ----------------------------------------------------------------------------- case generation

POLE_DELTAS = [10.0 ** -k for k in range(12, 2, -1)]
THRESH_DELTAS = [0.05, 0.0570, 0.05729, 0.0572958, 0.05730, 0.0575, 0.06, 0.1, 0.5]


def gen_angle_cases(ctx, rng):
    for t in itertools.product(range(0, 360, 15), repeat=3):
        yield ('grid15',) + tuple(float(x) for x in t)
    others = [0.0, 15.0, 90.0, 135.0, 200.0, 345.0]
    for pole in (90.0, 270.0, -90.0):
        for d in POLE_DELTAS + THRESH_DELTAS:
            for s in (1, -1):
                for y in others:
                    r = rng.choice(others)
                    yield ('pole' if d <= 1e-3 else 'threshold', pole + s * d, y, r)
                yield ('pole' if d <= 1e-3 else 'threshold', pole + s * d, rng.uniform(0, 360), rng.uniform(0, 360))
    for _ in range(ctx.budget(4000, 50000)):
        kind = rng.random()
        if kind < 0.7:
            yield ('random', rng.uniform(-360, 720), rng.uniform(-360, 720), rng.uniform(-360, 720))
        elif kind < 0.85:
            yield ('random-small', rng.uniform(-1, 1) * 10 ** rng.uniform(-9, 0), rng.uniform(-1, 1) * 10 ** rng.uniform(-9, 0), rng.uniform(-1, 1) * 10 ** rng.uniform(-9, 0))
        else:
            yield ('random-nearpole', rng.choice([90.0, 270.0]) + rng.uniform(-1, 1) * 10 ** rng.uniform(-13, 0), rng.uniform(0, 360), rng.uniform(0, 360))


def rand_angle(rng):
    k = rng.random()
    if k < 0.3:
        return tuple(float(rng.randrange(0, 360, 15)) for _ in range(3))
    if k < 0.4:
        return (rng.choice([90.0, 270.0]) + rng.choice([1, -1]) * rng.choice(POLE_DELTAS + THRESH_DELTAS), rng.uniform(0, 360), rng.uniform(0, 360))
    return (rng.uniform(0, 360), rng.uniform(0, 360), rng.uniform(0, 360))


def rand_vec(rng):
    k = rng.random()
    if k < 0.1:
        return rng.choice([(0.0, 0.0, 0.0), (1.0, 0.0, 0.0), (0.0, 1.0, 0.0), (0.0, 0.0, 1.0), (1e6, -1e6, 1e6), (-128.0, 64.0, 0.5)])
    if k < 0.3:
        return tuple(float(rng.randint(-1024, 1024)) for _ in range(3))
    mag = 10 ** rng.uniform(-3, 6)
    v = [rng.gauss(0, 1) for _ in range(3)]
    n = math.sqrt(sum(c * c for c in v)) or 1.0
    return tuple(c / n * mag for c in v)


def gen_mul_cases(ctx, rng):
    for _ in range(ctx.budget(1500, 20000)):
        yield (rand_angle(rng), rand_angle(rng), rand_angle(rng), rand_vec(rng))


def gen_dispatch_cases(ctx, rng):
    n = ctx.budget(6, 60)
    for l in range(7):
        for r in range(7):
            for f in range(3):
                for i in range(n):
                    ls = rand_vec(rng) if l <= TUP else rand_angle(rng)
                    rs = rand_vec(rng) if r <= TUP else rand_angle(rng)
                    yield (l, r, f, ls, rs, False)
    # operand pairs whose product lands on the gimbal-lock pole (angle results go through _to_angle)
    for l in (ANG, FANG):
        for r in (ANG, FANG, MAT, FMAT):
            for f in range(3):
                for c in COMPOSED_CORPUS[:1] + [rand_pole_pair(rng) for _ in range(n)]:
                    yield (l, r, f, tuple(c[0]), tuple(c[1]), False)
    # the same object on both sides
    for l in (ANG, FANG, MAT, FMAT):
        for f in range(3):
            for i in range(n):
                s = rand_angle(rng)
                yield (l, l, f, s, s, True)


_POLE_MATCHES = None


def pole_matches():
    """All (pitchA, yawA, pitchB, rollB) on the 15-degree grid such that the forward axis of
    from_angle(pitchA, yawA, *) @ from_angle(pitchB, *, rollB) is +-Z up to rounding: forward(A) must be
    + or - the third column of B, which does not depend on B's yaw (nor forward(A) on A's roll).
    Computed with plain math, independent of the implementation."""
    global _POLE_MATCHES
    if _POLE_MATCHES is None:
        grid = [float(x) for x in range(0, 360, 15)]
        key = lambda v: tuple(round(c, 9) + 0.0 for c in v)
        fw = {}
        for p in grid:
            for y in grid:
                cp, sp, cy, sy, _, _ = trig(p, y, 0.0)
                fw.setdefault(key((cp * cy, cp * sy, -sp)), []).append((p, y))
        out = []
        for p in grid:
            for r in grid:
                cp, sp, _, _, cr, sr = trig(p, 0.0, r)
                col = (-sp, sr * cp, cr * cp)
                for sg in (1, -1):
                    for (pa, ya) in fw.get(key(tuple(sg * c for c in col)), []):
                        out.append((pa, ya, p, r))
        _POLE_MATCHES = out
    return _POLE_MATCHES


# compositions quoted in the task statement of the extension (kept as a tiny corpus)
COMPOSED_CORPUS = [[(45.0, 0.0, 0.0), (45.0, 225.0, 0.0)], [(15.0, 0.0, 15.0), (255.0, 0.0, 0.0)]]
TINY = [10.0 ** -k for k in range(12, 2, -1)] + [0.01, 0.05, 0.0572958, 0.0573, 0.06]


def rand_pole_pair(rng):
    grid = range(0, 360, 15)
    pa, ya, pb, rb = rng.choice(pole_matches())
    return [(pa, ya, float(rng.choice(grid))), (pb, float(rng.choice(grid)), rb)]


def gen_composed_cases(ctx, rng):
    """Chains of 2-3 angles whose PRODUCT has its forward axis on (or, by a further tiny factor,
    near) the gimbal-lock pole: the matrix carries rounding residue that no single from_angle call
    produces."""
    grid = range(0, 360, 15)
    for c in COMPOSED_CORPUS:
        yield ('pole-pair', c, (100.0, -50.0, 25.0))
    for _ in range(ctx.budget(1500, 20000)):
        pair = rand_pole_pair(rng)
        k = rng.random()
        if k < 0.45:
            yield ('pole-pair', pair, rand_vec(rng))
        elif k < 0.55:      # a roll-only factor in front keeps the forward axis of the first factor
            yield ('pole-triple', [(0.0, 0.0, float(rng.choice(grid)))] + pair, rand_vec(rng))
        elif k < 0.65:      # a yaw-only factor behind keeps +-Z where it is
            yield ('pole-triple', pair + [(0.0, float(rng.choice(grid)), 0.0)], rand_vec(rng))
        else:               # pushed off the pole by a tiny rotation: near-pole by composition
            d = rng.choice(TINY) * rng.choice([1, -1])
            e = rng.choice([(d, 0.0, 0.0), (0.0, 0.0, d), (d, rng.uniform(0, 360), 0.0), (d, 0.0, rng.choice(TINY)),
                            (d * rng.random(), rng.uniform(0, 360), rng.uniform(0, 360))])
            yield ('near-pole-composed', (pair + [e]) if rng.random() < 0.7 else ([e] + pair), rand_vec(rng))


def gen_inverse_cases(ctx, rng):
    for _ in range(ctx.budget(600, 8000)):
        k = rng.random()
        if k < 0.35:
            e = [float(rng.randint(-4, 4)) for _ in range(9)]
        elif k < 0.5:      # exactly singular: third row is a combination of the first two
            a = [float(rng.randint(-4, 4)) for _ in range(6)]
            p, q = rng.randint(-2, 2), rng.randint(-2, 2)
            e = a + [p * a[i] + q * a[3 + i] for i in range(3)]
            rows = [e[0:3], e[3:6], e[6:9]]
            rng.shuffle(rows)
            e = rows[0] + rows[1] + rows[2]
        elif k < 0.8:
            e = [rng.uniform(-2, 2) for _ in range(9)]
        else:              # rotation scaled per row
            from_ang = trig(*rand_angle(rng))
            cp, sp, cy, sy, cr, sr = from_ang
            e = [cp * cy, cp * sy, -sp, sp * sr * cy - cr * sy, sp * sr * sy + cr * cy, sr * cp, sp * cr * cy + sr * sy, sp * cr * sy - sr * cy, cr * cp]
            sc = [10 ** rng.uniform(-2, 2) * rng.choice([1, -1]) for _ in range(3)]
            e = [e[i] * sc[i // 3] for i in range(9)]
        yield tuple(e)


def case_rng(ctx, salt):
    return random.Random(f'C04:{ctx.seed}:{salt}')


# ----------------------------------------------------------------------------- exact reference arithmetic (Fractions)

def f_matmul(a, b):
    return [sum(Fr(a[3 * i + k]) * Fr(b[3 * k + j]) for k in range(3)) for i in range(3) for j in range(3)]


def f_det(m):
    m = [Fr(x) for x in m]
    return (m[0] * (m[4] * m[8] - m[5] * m[7]) - m[1] * (m[3] * m[8] - m[5] * m[6]) + m[2] * (m[3] * m[7] - m[4] * m[6]))


IDENT = [1, 0, 0, 0, 1, 0, 0, 0, 1]


def maxdiff(a, b):
    return max(abs(Fr(x) - Fr(y)) for x, y in zip(a, b))


# ----------------------------------------------------------------------------- the property itself, on the implementation

def prop_angle_case(ctx, im, case):
    """orthonormal, det, convention, to_angle/from_angle round trip (gimbal bound 2h), inverse = transpose."""
    sm = im.sm
    kind, p, y, r = case
    inp = {'kind': 'angle', 'pyr': [p, y, r]}
    try:
        M = sm.Matrix.from_angle(p, y, r)
        e = mat_entries(M)
        if maxdiff(f_matmul(e, mat_entries(M.transpose())), IDENT) > tol_poly(1):
            ctx.witness('orthonormal', f'Matrix.from_angle({p!r},{y!r},{r!r}) times its transpose is not the identity', inp)
        if abs(f_det(e) - 1) > tol_poly(1):
            ctx.witness('det', f'det Matrix.from_angle({p!r},{y!r},{r!r}) = {float(f_det(e))!r} != 1', inp)
        C = sm.Matrix.from_roll(r) @ sm.Matrix.from_pitch(p) @ sm.Matrix.from_yaw(y)
        if maxdiff(e, mat_entries(C)) > tol_poly(1):
            ctx.witness('convention', f'Matrix.from_angle({p!r},{y!r},{r!r}) != from_roll @ from_pitch @ from_yaw', inp)
        A = M.to_angle()
        M2 = sm.Matrix.from_angle(A)
        h = math.sqrt(e[0] ** 2 + e[1] ** 2)
        d = maxdiff(e, mat_entries(M2))
        if h > 0.001:
            if d > tol_ang(h):
                ctx.witness('roundtrip', f'from_angle(to_angle(M)) differs from M = from_angle({p!r},{y!r},{r!r}) by {float(d):.3e} (horizontal length {h!r})', inp)
        else:
            if d > 2 * Fr(h) + tol_ang(1):
                ctx.witness('gimbal', f'from_angle(to_angle(M)) differs from M = from_angle({p!r},{y!r},{r!r}) by {float(d):.3e} > 2*h, h = {h!r}', inp)
        I = M.inverse()
        if maxdiff(mat_entries(I), mat_entries(M.transpose())) > Fr(1, 2 ** 40):
            ctx.witness('inverse', f'inverse() != transpose() for from_angle({p!r},{y!r},{r!r})', inp)
    except Exception as ex:
        ctx.witness('exception', f'{type(ex).__name__}: {ex} for rotation from_angle({p!r},{y!r},{r!r})', inp)


def prop_mul_case(ctx, im, case):
    """(v @ A) @ B = v @ (A @ B); (A @ B) @ C = A @ (B @ C); Vec @ Angle = Vec @ Matrix.from_angle(Angle)."""
    sm = im.sm
    a, b, c, v = case
    inp = {'kind': 'mul', 'a': list(a), 'b': list(b), 'c': list(c), 'v': list(v)}
    try:
        A, B, C = (sm.Matrix.from_angle(*t) for t in (a, b, c))
        V = sm.Vec(*v)
        n1 = sum(abs(Fr(t)) for t in v)
        lhs, rhs = (V @ A) @ B, V @ (A @ B)
        if maxdiff(im.raw(lhs), im.raw(rhs)) > 4 * tol_poly(n1):
            ctx.witness('assoc', f'(v @ A) @ B != v @ (A @ B) for v={v}, A=from_angle{a}, B=from_angle{b}', inp)
        if maxdiff(mat_entries((A @ B) @ C), mat_entries(A @ (B @ C))) > 4 * tol_poly(1):
            ctx.witness('matmul-assoc', f'(A @ B) @ C != A @ (B @ C) for angles {a},{b},{c}', inp)
        ang = sm.Angle(*a)
        if maxdiff(im.raw(V @ ang), im.raw(V @ sm.Matrix.from_angle(ang))) > 4 * tol_poly(n1):
            ctx.witness('vec-angle', f'Vec @ Angle != Vec @ Matrix.from_angle(Angle) for v={v}, angle={a}', inp)
    except Exception as ex:
        ctx.witness('exception', f'{type(ex).__name__}: {ex} for {inp}', inp)


def loss_bound(h):
    """What `matrix -> to_angle -> from_angle` may lose, by the property statement: rounding only off the
    gimbal branch (scaled by 1/h because the angles are atan2 of numbers of size h), 2*h on it."""
    return tol_ang(h) if h > 0.001 else 2 * Fr(h) + tol_ang(1)


def prop_composed_case(ctx, im, case):
    """Round trip and the Angle-operand identities on a PRODUCT of rotations that lands on / near the pole."""
    sm = im.sm
    kind, chain, v = case
    inp = {'kind': 'composed', 'chain': [list(t) for t in chain], 'v': list(v)}
    desc = ' @ '.join(f'from_angle{tuple(t)}' for t in chain)
    try:
        M = sm.Matrix.from_angle(*chain[0])
        ang = sm.Angle(*chain[0])
        ang_ip = sm.Angle(*chain[0])
        step = sm.Vec(*v) @ sm.Angle(*chain[0])
        budget = Fr(0)
        for t in chain[1:]:
            M = M @ sm.Matrix.from_angle(*t)
            ang = ang @ sm.FrozenAngle(*t)
            ang_ip @= sm.Angle(*t)
            step = step @ sm.Angle(*t)
            e = mat_entries(M)
            budget += loss_bound(math.sqrt(e[0] ** 2 + e[1] ** 2))
        e = mat_entries(M)
        h = math.sqrt(e[0] ** 2 + e[1] ** 2)
        if maxdiff(f_matmul(e, mat_entries(M.transpose())), IDENT) > len(chain) * 4 * tol_poly(1):
            ctx.witness('orthonormal', f'{desc} is not orthonormal', inp)
        A = M.to_angle()
        d = maxdiff(e, mat_entries(sm.Matrix.from_angle(A)))
        if d > loss_bound(h) + len(chain) * 4 * tol_poly(1):
            ctx.witness('gimbal' if h <= 0.001 else 'roundtrip',
                        f'M = {desc}: from_angle(M.to_angle()) differs from M by {float(d):.3e}; to_angle() = {A}, horizontal '
                        f'length of the forward axis {h!r}, allowed {float(loss_bound(h)):.3e}', inp)
        # the Angle computed by Angle @ Angle (through _to_angle) represents the product
        for name, a in (('Angle @ FrozenAngle', ang), ('Angle @= Angle', ang_ip)):
            d = maxdiff(e, mat_entries(sm.Matrix.from_angle(a)))
            if d > budget + len(chain) * 4 * tol_poly(1):
                ctx.witness('angle-product', f'{name} along {desc} gives {a}, whose matrix differs from the matrix product by {float(d):.3e} '
                                             f'(allowed {float(budget):.3e})', inp)
        # rotating by the composed Angle = rotating step by step
        n1 = sum(abs(Fr(t)) for t in v)
        once = sm.Vec(*v) @ ang
        ip = sm.Vec(*v)
        ip @= ang_ip
        tolv = (budget + len(chain) * 8 * tol_poly(1)) * n1 + 4 * tol_poly(n1)
        if maxdiff(im.raw(once), im.raw(step)) > tolv:
            ctx.witness('assoc-angle', f'(v @ A) @ B ... step by step = {im.raw(step)} but v @ (A @ B ...) = {im.raw(once)} for v={tuple(v)} along {desc} '
                                       f'[composed angle {ang}]', inp)
        if maxdiff(im.raw(ip), im.raw(step)) > tolv:
            ctx.witness('assoc-angle', f'a @= b ...; v @= a gives {im.raw(ip)} but rotating step by step gives {im.raw(step)} for v={tuple(v)} along {desc}', inp)
    except Exception as ex:
        ctx.witness('exception', f'{type(ex).__name__}: {ex} for {desc}', inp)


def run_form(im, l_obj, r_obj, form):
    """Execute one operator form. Returns (result or None, error-name or None)."""
    try:
        if form == 0:
            return l_obj @ r_obj, None
        if form == 1:
            t = l_obj
            t @= r_obj
            return t, None
        meth = getattr(type(r_obj), '__rmatmul__', None)
        if meth is None:
            return None, 'no-method'
        res = meth(r_obj, l_obj)
        if res is NotImplemented:
            return None, 'NotImplemented'
        return res, None
    except TypeError:
        return None, 'TypeError'


def observe_dispatch(im, case):
    l, r, f, ls, rs, alias = case
    lo = im.make(l, ls)
    ro = lo if alias else im.make(r, rs)
    lb, rb = im.snap(lo), im.snap(ro)
    lval, rval = im.model_val(lo), im.model_val(ro)
    # reference product for the radii of an angle result (same float operations as the operator)
    rad = [1.0, 1.0, 1.0, 1.0]
    ref = None
    sm = im.sm
    if l >= ANG and r >= ANG:
        L = sm.Matrix._from_raw(*mat_entries(im.as_matrix(lo)))
        R = sm.Matrix._from_raw(*mat_entries(im.as_matrix(ro)))
        ref = mat_entries(L @ R)
        rad = radii_of(ref)
    res, err = run_form(im, lo, ro, f)
    obs = {'err': err, 'res_tag': im.tag_of(res) if err is None else None, 'res': im.raw(res) if err is None else None,
           'res_is_left': res is lo if err is None else False, 'res_is_right': (res is ro and ro is not lo) if err is None else False,
           'left_before': lb, 'left_after': im.snap(lo), 'right_before': rb, 'right_after': im.snap(ro),
           'lval': lval, 'rval': rval, 'rad': rad, 'ref': ref}
    return lo, ro, res, obs


def expected_value(im, l, r, ls, rs, alias):
    """Reference value by the property's own words: convert Angle operands with from_angle, then
    _vec_rot / _mat_mul on FRESH objects; angle results are compared as matrices."""
    sm = im.sm
    lo = im.make(l, ls)
    ro = im.make(r, ls if alias else rs)
    R = sm.Matrix._from_raw(*mat_entries(im.as_matrix(ro)))
    if l <= TUP:
        return 'vec', im.raw(sm.Vec(*im.raw(lo)) @ R)
    L = sm.Matrix._from_raw(*mat_entries(im.as_matrix(lo)))
    return ('ang' if l <= FANG else 'mat'), mat_entries(L @ R)


def prop_dispatch_case(ctx, im, case, observed=None):
    l, r, f, ls, rs, alias = case
    inp = {'kind': 'dispatch', 'l': l, 'r': r, 'form': f, 'ls': list(ls), 'rs': list(rs), 'alias': alias}
    name = f'{TAGS[l]} {FORMS[f]} {TAGS[r]}' + (' (same object)' if alias else '')
    try:
        lo, ro, res, obs = observed or observe_dispatch(im, case)
    except Exception as ex:
        ctx.witness('exception', f'{name}: {type(ex).__name__}: {ex}', inp)
        return
    frozen = (FVEC, TUP, FANG, FMAT)
    key_l = 'frozen-matrix-mutated' if l == FMAT else 'frozen-operand-mutated'
    if l in frozen and obs['left_before'] != obs['left_after']:
        ctx.witness(key_l, f'{name}: the immutable left operand changed value', inp)
    if not alias and obs['right_before'] != obs['right_after']:
        ctx.witness('right-operand-mutated' if r not in frozen else ('frozen-matrix-mutated' if r == FMAT else 'frozen-operand-mutated'),
                    f'{name}: the right operand changed value', inp)
    if obs['err'] is not None:
        # a rotation on the right of a vector / angle / matrix must be accepted by the operators
        if r >= ANG and f != 2:
            ctx.witness('dispatch-rejected', f'{name} is rejected ({obs["err"]})', inp)
        return
    if r <= TUP:
        ctx.witness('dispatch-accepted', f'{name} is accepted although the right operand is not a rotation', inp)
        return
    want_tag = VEC if l == TUP else l
    if f == 2 and l in (ANG, FANG) and r in (ANG, FANG):
        want_tag = None   # direct AngleBase.__rmatmul__(angle): documented as unreachable through the operator; type not constrained here
    if want_tag is not None and obs['res_tag'] != want_tag:
        ctx.witness('dispatch-type', f'{name} returns {TAGS[obs["res_tag"]] if obs["res_tag"] is not None else "?"}, expected {TAGS[want_tag]}', inp)
    mutable = l in (VEC, ANG, MAT)
    if f == 1 and mutable and not obs['res_is_left']:
        ctx.witness('imatmul-not-inplace', f'{name}: the mutable left operand is not updated in place (a new object is bound)', inp)
    if not (f == 1 and mutable):
        if obs['res_is_left']:
            ctx.witness('frozen-matrix-mutated' if l == FMAT else 'result-is-operand', f'{name}: the result is the left operand object itself', inp)
        elif obs['left_before'] != obs['left_after']:
            ctx.witness('left-operand-mutated', f'{name}: the left operand changed value although the result is a new object', inp)
    if obs['res_is_right']:
        ctx.witness('result-is-operand', f'{name}: the result is the right operand object itself', inp)
    # value
    kind, want = expected_value(im, l, r, ls, rs, alias)
    got = obs['res']
    if kind == 'ang':
        got = mat_entries(im.sm.Matrix.from_angle(*got))
        h = math.sqrt(want[0] ** 2 + want[1] ** 2)
        tol = tol_ang(h) if h > 0.001 else 2 * Fr(h) + tol_ang(1)
    else:
        tol = 4 * tol_poly(sum(abs(Fr(t)) for t in ls) if kind == 'vec' else 1)
    if not is_finite_list(got) or maxdiff(got, want) > tol:
        key = 'value'
        if alias and l == MAT and f == 1: key = 'matmul-aliased'
        if l == FMAT: key = 'frozen-matrix-mutated'
        ctx.witness(key, f'{name}: value differs from "convert angles with from_angle, then rotate" by {float(maxdiff(got, want)):.3e}: got {got}, expected {want}', inp)


def prop_inverse_case(ctx, im, e):
    sm = im.sm
    inp = {'kind': 'inverse', 'm': list(e)}
    M = sm.Matrix._from_raw(*e)
    try:
        N = M.inverse()
    except ArithmeticError:
        d = f_det(e)
        scale = max(abs(Fr(x)) for x in e) or 1
        if abs(d) > Fr(1, 100) * scale ** 3:
            ctx.witness('inverse', f'inverse() raises for the well-conditioned matrix {list(e)} (det {float(d)!r})', inp)
        return 'error'
    except Exception as ex:
        ctx.witness('exception', f'inverse(): {type(ex).__name__}: {ex} for {list(e)}', inp)
        return 'exception'
    n = mat_entries(N)
    if not is_finite_list(n):
        ctx.witness('inverse', f'inverse() of {list(e)} is not finite', inp)
        return 'nonfinite'
    cond = max(abs(Fr(x)) for x in n) * max(abs(Fr(x)) for x in e)
    if maxdiff(f_matmul(n, e), IDENT) > Fr(1, 2 ** 40) * (1 + cond) ** 2:
        ctx.witness('inverse', f'inverse() of {list(e)} times the matrix is not the identity', inp)
    return 'ok'



# ----------------------------------------------------------------------------- operation histories over live objects

POOL = [VEC, VEC, FVEC, ANG, ANG, FANG, MAT, MAT, FMAT]      # classes of the pool slots (fixed for a whole history)
ROT_SLOTS = [3, 4, 5, 6, 7, 8]
PROBE_V = (100.0, -50.0, 25.0)


def slots_of(tag):
    return [i for i, k in enumerate(POOL) if k == tag]


def gen_history(rng, n_steps):
    """A history = initial pool + a list of operations that keep re-using the SAME objects."""
    init = [list(rand_vec(rng)) if k <= FVEC else list(rand_angle(rng)) for k in POOL]
    ops = []
    for _ in range(n_steps):
        c = rng.random()
        if c < 0.5:
            form = rng.choice([0, 0, 1, 1, 1, 2])
            ops.append(['rot', form, rng.randrange(len(POOL)), rng.choice(ROT_SLOTS), rng.randrange(64) if rng.random() < 0.6 else -1])
        elif c < 0.56:
            ops.append(['tup', list(rand_vec(rng)), rng.choice(ROT_SLOTS), rng.randrange(64) if rng.random() < 0.5 else -1])
        elif c < 0.64:
            ops.append(['ang-attr', rng.choice([3, 4]), rng.choice(['pitch', 'yaw', 'roll']), rng.uniform(-400, 800)])
        elif c < 0.69:
            ops.append(['ang-item', rng.choice([3, 4]), rng.choice([0, 1, 2, 'pitch', 'yaw', 'rol', 'p', 'y', 'r']), rng.uniform(-400, 800)])
        elif c < 0.73:
            ops.append(['ang-imul', rng.choice([3, 4]), rng.choice([2, 0.5, -1, 3.25, 1])])
        elif c < 0.78:
            ops.append(['vec-attr', rng.choice([0, 1]), rng.choice('xyz'), rng.uniform(-1, 1) * 10 ** rng.uniform(-3, 6)])
        elif c < 0.82:
            ops.append(['mat-items', rng.choice([6, 7]), list(rand_angle(rng))])
        elif c < 0.90:
            ops.append(['transform', rng.choice([0, 1, 3, 4]), rng.choice(ROT_SLOTS)])
        else:
            ops.append([rng.choice(['copy', 'freeze', 'thaw']), rng.randrange(len(POOL)), rng.randrange(64)])
    return {'init': init, 'ops': ops}


def fresh_like(im, obj):
    """A new object with the same class and value (built from the value only)."""
    sm = im.sm
    if isinstance(obj, sm.MatrixBase):
        return type(obj)._from_raw(*mat_entries(obj))
    if isinstance(obj, sm.AngleBase):
        return type(obj)(obj.pitch, obj.yaw, obj.roll)
    if isinstance(obj, sm.VecBase):
        return type(obj)(obj.x, obj.y, obj.z)
    return tuple(obj)


def reference_product(im, lo, ro):
    """'convert Angle operands with from_angle, then rotate', from the operands' current VALUES only."""
    sm = im.sm
    lf, rf = fresh_like(im, lo), fresh_like(im, ro)
    R = sm.Matrix._from_raw(*mat_entries(im.as_matrix(rf)))
    if not isinstance(lf, (sm.AngleBase, sm.MatrixBase)):
        return 'vec', im.raw(sm.Vec(*im.raw(lf)) @ R)
    L = sm.Matrix._from_raw(*mat_entries(im.as_matrix(lf)))
    return ('ang' if isinstance(lf, sm.AngleBase) else 'mat'), mat_entries(L @ R)


def place(im, pool, res, sel):
    """Put a result object into a slot of its own class (sel < 0: discard). Returns the slot or None."""
    if sel < 0 or res is None:
        return None
    cand = slots_of(im.tag_of(res))
    if not cand:
        return None
    i = cand[sel % len(cand)]
    pool[i] = res
    return i


def run_history(im, hist, on_step):
    """Run the operations on ONE pool of live objects. on_step(idx, op, pool, before, rec) after every operation;
    before = [(id, bits)] of every slot before the step; rec describes what the step did."""
    sm = im.sm
    pool = [im.make(k, spec) for k, spec in zip(POOL, hist['init'])]
    on_step(-1, ['init'], pool, [(id(o), im.snap(o)) for o in pool], {'kind': 'init', 'changed': set()})
    for idx, op in enumerate(hist['ops']):
        before = [(id(o), im.snap(o)) for o in pool]
        rec = {'kind': op[0], 'changed': set()}
        k = op[0]
        if k in ('rot', 'tup'):
            if k == 'rot':
                _, form, l, r, sel = op
                lo = pool[l]
            else:
                vals, r, sel = op[1], op[2], op[3]
                form, l, lo = (op[4] if len(op) > 4 else 0), None, tuple(vals)
            ro = pool[r]
            rec.update(form=form, l=l, r=r, ltag=im.tag_of(lo), rtag=im.tag_of(ro), lval=im.model_val(lo), rval=im.model_val(ro),
                       lraw=im.raw(lo), alias=(lo is ro))
            rec['want'] = reference_product(im, lo, ro)
            rec['rad'] = radii_of(rec['want'][1]) if rec['want'][0] != 'vec' else [1.0, 1.0, 1.0, 1.0]
            res, err = run_form(im, lo, ro, form)
            rec.update(err=err, res=res, res_tag=im.tag_of(res) if err is None else None,
                       res_raw=im.raw(res) if err is None else None, res_is_left=(res is lo) if err is None else False)
            if err is None:
                if form == 1 and l is not None:
                    pool[l] = res
                    rec['changed'].add(l)
                elif res is not lo and res is not ro:
                    d = place(im, pool, res, sel)
                    if d is not None:
                        rec['changed'].add(d)
        elif k == 'ang-attr':
            _, i, name, val = op
            old = im.raw(pool[i])
            setattr(pool[i], name, val)
            old[['pitch', 'yaw', 'roll'].index(name)] = float(val) % 360 % 360
            rec.update(exact=(i, old)); rec['changed'].add(i)
        elif k == 'ang-item':
            _, i, key, val = op
            old = im.raw(pool[i])
            pool[i][key] = val
            ax = key if isinstance(key, int) else {'p': 0, 'y': 1, 'r': 2}[key[0]]
            old[ax] = float(val) % 360.0 % 360.0
            rec.update(exact=(i, old)); rec['changed'].add(i)
        elif k == 'ang-imul':
            _, i, f = op
            old = im.raw(pool[i])
            x = pool[i]
            x *= f
            pool[i] = x
            rec.update(exact=(i, [t * f % 360.0 % 360.0 for t in old]), same_object=(x is pool[i])); rec['changed'].add(i)
        elif k == 'vec-attr':
            _, i, name, val = op
            old = im.raw(pool[i])
            setattr(pool[i], name, val)
            old['xyz'.index(name)] = float(val)
            rec.update(exact=(i, old)); rec['changed'].add(i)
        elif k == 'mat-items':
            _, i, ang = op
            src = mat_entries(sm.Matrix.from_angle(*ang))
            for a in range(3):
                for b in range(3):
                    pool[i][a, b] = src[3 * a + b]
            rec.update(exact=(i, src)); rec['changed'].add(i)
        elif k == 'transform':
            _, i, r = op
            lo, ro = pool[i], pool[r]
            rec.update(form=1, l=i, r=r, ltag=im.tag_of(lo), rtag=im.tag_of(ro), lval=im.model_val(lo), rval=im.model_val(ro),
                       lraw=im.raw(lo), alias=False)
            rec['want'] = reference_product(im, lo, ro)
            rec['rad'] = radii_of(rec['want'][1]) if rec['want'][0] != 'vec' else [1.0, 1.0, 1.0, 1.0]
            with lo.transform() as m:
                m @= ro
            rec.update(err=None, res=lo, res_tag=im.tag_of(lo), res_raw=im.raw(lo), res_is_left=True)
            rec['changed'].add(i)
        elif k in ('copy', 'freeze', 'thaw'):
            _, i, sel = op
            o = pool[i]
            meth = getattr(o, k, None)
            if meth is not None:
                n = meth()
                rec.update(derived=(im.raw(o), im.raw(n), im.tag_of(n), n is o))
                d = place(im, pool, n, sel) if n is not o else None
                if d is not None:
                    rec['changed'].add(d)
        on_step(idx, op, pool, before, rec)
    return pool


def history_property(ctx_witness, im, hist):
    """The property on a history: every step's result is what the operands' current VALUES dictate, bystanders do not
    change, and on the values current after every step Vec @ Angle = Vec @ Matrix.from_angle(Angle) etc."""
    sm = im.sm

    def on_step(idx, op, pool, before, rec):
        where = f'step {idx} {op}'
        for i, o in enumerate(pool):
            if i not in rec['changed'] and (id(o) != before[i][0] or im.snap(o) != before[i][1]):
                ctx_witness('history-bystander-changed', f'{where}: {TAGS[POOL[i]]} in slot {i} changed although it was not the target', idx)
        if 'exact' in rec:
            i, want = rec['exact']
            if im.snap(pool[i]) != [bits(x) for x in want]:
                ctx_witness('history-setter', f'{where}: slot {i} is {im.raw(pool[i])}, expected {want}', idx)
        if 'derived' in rec:
            a, b, _, _ = rec['derived']
            if [bits(x) for x in a] != [bits(x) for x in b]:
                ctx_witness('history-copy', f'{where}: the derived object has value {b}, source {a}', idx)
        if 'want' in rec and rec.get('err') is None:
            kind, want = rec['want']
            got = rec['res_raw']
            steps = max(idx, 0) + 1
            if kind == 'ang':
                got = mat_entries(sm.Matrix.from_angle(*got))
                tol = 8 * loss_bound(rec['rad'][0]) + steps * tol_poly(1)
            else:
                tol = 4 * tol_poly(sum(abs(Fr(t)) for t in rec['lraw']) if kind == 'vec' else 1)
            if not is_finite_list(got) or maxdiff(got, want) > tol:
                ctx_witness('history-value', f'{where}: {TAGS[rec["ltag"]]} {FORMS[rec["form"]]} {TAGS[rec["rtag"]]} gives {rec["res_raw"]}; the operands\' '
                                             f'current values give {want} ({kind}); differs by {float(maxdiff(got, want)):.3e}', idx)
            mutable = rec['ltag'] in (VEC, ANG, MAT)
            if rec['kind'] == 'rot' and rec['form'] == 1 and mutable and not rec['res_is_left']:
                ctx_witness('imatmul-not-inplace', f'{where}: @= on a mutable left operand bound a new object', idx)
            if rec['kind'] == 'rot' and not (rec['form'] == 1 and mutable) and rec['res_is_left']:
                ctx_witness('result-is-operand', f'{where}: the result is the left operand itself', idx)
        elif 'want' in rec and rec['rtag'] >= ANG and rec['form'] != 2:
            ctx_witness('dispatch-rejected', f'{where} rejected: {rec["err"]}', idx)
        if not hist.get('probes', True):
            return      # quiet history: nothing but the listed operations ever touches the live objects
        # identities on the values current NOW, through the live objects themselves. The order of the angles rotates so
        # that the angle probed LAST in one round is probed FIRST in the next (after whatever the step did to it).
        probes = [sm.Vec(*PROBE_V), pool[0]]
        order = [(3, 4, 5), (5, 3, 4), (4, 5, 3)][(idx + 1) % 3]
        for ai in order:
            a = pool[ai]
            Ma = sm.Matrix.from_angle(a.pitch, a.yaw, a.roll)
            # the in-place forms, on fresh left operands
            vi = sm.Vec(*PROBE_V)
            vi @= a
            if maxdiff(im.raw(vi), im.raw(sm.Vec(*PROBE_V) @ Ma)) > 4 * tol_poly(sum(abs(Fr(x)) for x in PROBE_V)):
                ctx_witness('vec-angle', f'after {where}: v = Vec{PROBE_V}; v @= {a!r} (slot {ai}) gives {im.raw(vi)} but '
                                         f'Vec @ Matrix.from_angle(same angle) = {im.raw(sm.Vec(*PROBE_V) @ Ma)}', idx)
            mi_ = sm.Matrix._from_raw(*mat_entries(pool[6]))
            mi_ @= a
            if maxdiff(mat_entries(mi_), mat_entries(sm.Matrix._from_raw(*mat_entries(pool[6])) @ Ma)) > 4 * tol_poly(1) * (1 + max(abs(x) for x in mat_entries(pool[6]))):
                ctx_witness('mat-angle', f'after {where}: m @= {a!r} (slot {ai}) != m @ Matrix.from_angle(same angle)', idx)
            for v in probes:
                n1 = sum(abs(Fr(t)) for t in im.raw(v))
                if maxdiff(im.raw(v @ a), im.raw(v @ Ma)) > 4 * tol_poly(n1):
                    ctx_witness('vec-angle', f'after {where}: Vec{tuple(im.raw(v))} @ {a!r} (slot {ai}) = {im.raw(v @ a)} but '
                                             f'Vec @ Matrix.from_angle(same angle) = {im.raw(v @ Ma)}', idx)
            t = tuple(PROBE_V)
            if maxdiff(im.raw(t @ a), im.raw(sm.Vec(*t) @ Ma)) > 4 * tol_poly(sum(abs(Fr(x)) for x in t)):
                ctx_witness('vec-angle', f'after {where}: tuple @ {a!r} (slot {ai}) != Vec @ Matrix.from_angle(same angle)', idx)
            for mi in (6, 8):
                Mm = pool[mi]
                if maxdiff(mat_entries(Mm @ a), mat_entries(Mm @ Ma)) > 4 * tol_poly(1) * (1 + max(abs(x) for x in mat_entries(Mm))):
                    ctx_witness('mat-angle', f'after {where}: {TAGS[POOL[mi]]} @ {a!r} (slot {ai}) != Matrix @ Matrix.from_angle(same angle)', idx)
            # (v @ A) @ a = v @ (A @ from_angle(a))
            A = pool[7]
            v = probes[0]
            if maxdiff(im.raw((v @ A) @ a), im.raw(v @ (A @ Ma))) > 16 * tol_poly(sum(abs(Fr(x)) for x in PROBE_V)) * (1 + max(abs(x) for x in mat_entries(A))):
                ctx_witness('assoc', f'after {where}: (v @ M) @ {a!r} (slot {ai}) != v @ (M @ Matrix.from_angle(same angle))', idx)
    run_history(im, hist, on_step)


def history_fails(im, hist):
    found = []
    try:
        history_property(lambda key, what, idx: found.append((key, what, idx)), im, hist)
    except Exception as ex:
        found.append(('exception', f'{type(ex).__name__}: {ex}', -1))
    return found


def prop_history(ctx, im, hist, shrink=True):
    found = history_fails(im, hist)
    if not found:
        return
    key, what, idx = found[0]
    small = hist
    if shrink:
        import common
        pr = hist.get('probes', True)
        mk = lambda ops: {'init': hist['init'], 'ops': list(ops), 'probes': pr}
        ops = hist['ops'][:idx + 1] if idx >= 0 else hist['ops']
        if not any(f[0] == key for f in history_fails(im, mk(ops))):
            ops = hist['ops']
        ops = common.ddmin(ops, lambda sub: any(f[0] == key for f in history_fails(im, mk(sub))), budget=200)
        if any(f[0] == key for f in history_fails(im, mk([]))):
            ops = []
        small = mk(ops)
        again = [f for f in history_fails(im, small) if f[0] == key]
        if again:
            what = again[0][1]
    ctx.witness(key, f'history over one pool of live objects ({len(small["ops"])} operation(s) after shrinking: {small["ops"]}; '
                     f'{"with" if small.get("probes", True) else "NO"} identity probes between the steps): {what}',
                {'kind': 'history', 'init': small['init'], 'ops': small['ops'], 'probes': small.get('probes', True)})


def mutators_of(rng, i):
    """Every in-place mutator of the object in slot i (none for the immutable classes)."""
    k = POOL[i]
    rs = lambda: rng.choice(ROT_SLOTS)
    if k == ANG:
        return [['ang-attr', i, rng.choice(['pitch', 'yaw', 'roll']), rng.uniform(-400, 800)],
                ['ang-item', i, rng.choice([0, 1, 2, 'p', 'yaw', 'rol']), rng.uniform(-400, 800)],
                ['ang-imul', i, rng.choice([2, 0.5, -1, 3.25])],
                ['rot', 1, i, rs(), -1],
                ['transform', i, rs()]]
    if k == VEC:
        return [['vec-attr', i, rng.choice('xyz'), rng.uniform(-1, 1) * 10 ** rng.uniform(-1, 4)],
                ['rot', 1, i, rs(), -1],
                ['transform', i, rs()]]
    if k == MAT:
        return [['mat-items', i, list(rand_angle(rng))], ['rot', 1, i, rs(), -1]]
    return []


def gen_directed_histories(ctx, rng):
    """For every operand class pair of the dispatch table (right operand a rotation), every operator form F and every
    in-place mutator M: [F(x,y); M(y); F(x',y)] and [F(x,y); M(x); F(x,y')], and [F; copy/freeze/thaw; F], on the SAME
    live objects, embedded at a random position of a short random history; once with and once without the identity probes
    between the steps (the probes themselves call the operators, which can refill or evict a cache)."""
    def F(l, r, form, tupvals):
        return ['tup', tupvals, r, -1, form] if l is None else ['rot', form, l, r, -1]
    every = ctx.budget(2, 1)       # quick: every other template (alternating with the seed), thorough: all
    n = 0
    for ltag in range(7):
        for rtag in (ANG, FANG, MAT, FMAT):
            for form in range(3):
                for li in ([None] if ltag == TUP else slots_of(ltag)[:1]):
                    for ri in slots_of(rtag)[:1]:
                        l2 = None if li is None else slots_of(ltag)[-1]        # another object of x's class (or x itself)
                        r2 = slots_of(rtag)[-1]
                        tv = list(rand_vec(rng))
                        triples = []
                        for m in mutators_of(rng, ri):
                            triples.append([F(li, ri, form, tv), m, F(l2, ri, form, tv)])
                        if li is not None:
                            for m in mutators_of(rng, li):
                                triples.append([F(li, ri, form, tv), m, F(li, r2, form, tv)])
                        for k in ('copy', 'freeze', 'thaw'):
                            who = rng.choice([ri] + ([li] if li is not None else []))
                            triples.append([F(li, ri, form, tv), [k, who, rng.randrange(64)], F(li, ri, form, tv)])
                        for t in triples:
                            n += 1
                            if (n + ctx.seed) % every:
                                continue
                            base = gen_history(rng, rng.randrange(0, 5))
                            pos = rng.randrange(0, len(base['ops']) + 1)
                            ops = base['ops'][:pos] + t + base['ops'][pos:]
                            for probes in (False, True):
                                yield {'init': base['init'], 'ops': [list(o) for o in ops], 'probes': probes}


def gen_histories(ctx, rng):
    for _ in range(ctx.budget(400, 4000)):
        h = gen_history(rng, rng.randrange(4, ctx.budget(16, 30)))
        h['probes'] = rng.random() < 0.7
        yield h
    yield from gen_directed_histories(ctx, rng)

# ----------------------------------------------------------------------------- correspondence

def correspond(ctx, drivers):
    im = Impl()
    sm = im.sm
    drv = drivers['drv_c04']
    fresh = im.probe_fresh()
    ctx.extra['fmat_product_fresh'] = fresh
    reqs, post = [], []      # post: (n_replies, function(replies))

    def add(rs, fn):
        reqs.extend(rs)
        post.append((len(rs), fn))

    # --- the dispatch table as a whole (types / in-place / formula only)
    def chk_table(rep):
        tab = {(a, b, c): e for a, b, c, e in rep[0]['table']}
        ctx.extra['model_table_entries'] = len(tab)
        ctx.extra['model_table_defined'] = sum(1 for e in tab.values() if e is not None)
        if rep[0]['fresh'] != fresh:
            ctx.disagree({'probe': 'fm @ m is a new object'}, fresh, rep[0]['fresh'],
                         'FrozenMatrix product goes to a fresh object: source (Gen.Rot.fmatProductFresh) vs observed')
    add([{'op': 'table'}], chk_table)

    # --- angle cases
    rng = case_rng(ctx, 'angles')
    for case in gen_angle_cases(ctx, rng):
        kind, p, y, r = case
        t = trig(p, y, r)
        M = sm.Matrix.from_angle(p, y, r)
        e = mat_entries(M)
        a6 = [dy(x) for x in t]
        e9 = [dy(x) for x in e]
        rad = radii_of(e)
        A = M.to_angle()
        got_ang = trig(A.pitch, A.yaw, A.roll)
        h = rad[0]
        try:
            inv = mat_entries(M.inverse())
        except ArithmeticError:
            inv = None
        parts = {'rx': mat_entries(sm.Matrix.from_roll(r)), 'ry': mat_entries(sm.Matrix.from_pitch(p)), 'rz': mat_entries(sm.Matrix.from_yaw(y))}
        tr = mat_entries(M.transpose())
        rs = [{'op': 'fromAngle', 'a': a6}, {'op': 'rx', 'a': a6}, {'op': 'ry', 'a': a6}, {'op': 'rz', 'a': a6},
              {'op': 'transpose', 'm': e9}, {'op': 'toAngle', 'm': e9, 'rad': [dy(x) for x in rad]}, {'op': 'inverse', 'm': e9}]

        def chk(rep, case=case, e=e, parts=parts, tr=tr, rad=rad, got_ang=got_ang, inv=inv, h=h):
            c = {'case': list(case)}
            mm = [fr(x) for x in rep[0]['m']]
            if maxdiff(e, mm) > tol_poly(1):
                ctx.disagree(c, e, [float(x) for x in mm], 'from_angle')
            for i, k in ((1, 'rx'), (2, 'ry'), (3, 'rz')):
                if [fr(x) for x in rep[i]['m']] != [Fr(x) for x in parts[k]]:
                    ctx.disagree(c, parts[k], rep[i]['m'], {'rx': 'from_roll', 'ry': 'from_pitch', 'rz': 'from_yaw'}[k])
            if [fr(x) for x in rep[4]['m']] != [Fr(x) for x in tr]:
                ctx.disagree(c, tr, rep[4]['m'], 'transpose')
            ma = [fr(x) for x in rep[5]['a']]
            general = rep[5]['general']
            if general != (h > 0.001):
                ctx.disagree(c, h > 0.001, general, '_to_angle branch')
            rr = [rad[1], rad[1], rad[0] if general else rad[3], rad[0] if general else rad[3], rad[2] if general else 1.0, rad[2] if general else 1.0]
            for i in range(6):
                if abs(ma[i] - Fr(got_ang[i])) > tol_ang(rr[i]):
                    ctx.disagree(c, got_ang, [float(x) for x in ma], f'_to_angle component {"cp sp cy sy cr sr".split()[i]}')
                    break
            mi = rep[6]['m']
            if (mi is None) != (inv is None):
                ctx.disagree(c, inv, mi, 'inverse (raises?)')
            elif mi is not None and maxdiff(inv, [fr(x) for x in mi]) > Fr(1, 2 ** 40):
                ctx.disagree(c, inv, [float(fr(x)) for x in mi], 'inverse')
            ctx.case(c, nontrivial=any(x % 360 for x in case[1:]), sample_every=3001)
            ctx.count('angle:' + case[0]); ctx.count('to_angle:' + ('general' if general else 'gimbal'))
            ctx.traces_vs_impl += 1
        add(rs, chk)

    # --- products
    rng = case_rng(ctx, 'mul')
    for case in gen_mul_cases(ctx, rng):
        a, b, c3, v = case
        A, B = sm.Matrix.from_angle(*a), sm.Matrix.from_angle(*b)
        ea, eb = mat_entries(A), mat_entries(B)
        prod = mat_entries(A @ B)
        vr = im.raw(sm.Vec(*v) @ A)
        rs = [{'op': 'matMul', 'm': [dy(x) for x in ea], 'o': [dy(x) for x in eb]},
              {'op': 'vecRot', 'v': [dy(x) for x in v], 'm': [dy(x) for x in ea]}]

        def chk(rep, case=case, prod=prod, vr=vr, v=v):
            c = {'case': [list(x) for x in case]}
            mm = [fr(x) for x in rep[0]['m']]
            if maxdiff(prod, mm) > tol_poly(1):
                ctx.disagree(c, prod, [float(x) for x in mm], '_mat_mul')
            mv = [fr(x) for x in rep[1]['v']]
            if maxdiff(vr, mv) > tol_poly(sum(abs(Fr(t)) for t in v)):
                ctx.disagree(c, vr, [float(x) for x in mv], '_vec_rot')
            ctx.case(c, nontrivial=any(v), sample_every=997)
            ctx.count('product'); ctx.traces_vs_impl += 1
        add(rs, chk)

    # --- _to_angle on products that land on / near the pole
    rng = case_rng(ctx, 'composed')
    for case in gen_composed_cases(ctx, rng):
        kind, chain, v = case
        M = sm.Matrix.from_angle(*chain[0])
        for t in chain[1:]:
            M = M @ sm.Matrix.from_angle(*t)
        e = mat_entries(M)
        rad = radii_of(e)
        A = M.to_angle()
        got_ang = trig(A.pitch, A.yaw, A.roll)

        def chk(rep, case=case, rad=rad, got_ang=got_ang):
            c = {'chain': [list(t) for t in case[1]]}
            ma = [fr(x) for x in rep[0]['a']]
            general = rep[0]['general']
            if general != (rad[0] > 0.001):
                ctx.disagree(c, rad[0] > 0.001, general, '_to_angle branch (composed)')
            rr = [rad[1], rad[1], rad[0] if general else rad[3], rad[0] if general else rad[3], rad[2] if general else 1.0, rad[2] if general else 1.0]
            for i in range(6):
                if abs(ma[i] - Fr(got_ang[i])) > tol_ang(rr[i]):
                    ctx.disagree(c, got_ang, [float(x) for x in ma], f'_to_angle (composed) component {"cp sp cy sy cr sr".split()[i]}')
                    break
            ctx.case(c, nontrivial=True, sample_every=701)
            ctx.count('composed:' + case[0]); ctx.count('to_angle:' + ('general' if general else 'gimbal'))
            ctx.traces_vs_impl += 1
        add([{'op': 'toAngle', 'm': [dy(x) for x in e], 'rad': [dy(x) for x in rad]}], chk)

    # --- the operand table, entry by entry
    rng = case_rng(ctx, 'dispatch')
    for case in gen_dispatch_cases(ctx, rng):
        l, r, f, ls, rs_, alias = case
        try:
            observed = observe_dispatch(im, case)
        except Exception as ex:
            ctx.disagree({'case': list(case)}, f'{type(ex).__name__}: {ex}', None, 'dispatch raised')
            continue
        obs = observed[3]
        req = {'op': 'dispatch', 'l': l, 'r': r, 'form': f, 'lv': obs['lval'], 'rv': obs['rval'],
               'rad': [dy(x) for x in obs['rad']]}

        def chk(rep, case=case, obs=obs):
            l, r, f, ls, rs_, alias = case
            c = {'l': TAGS[l], 'r': TAGS[r], 'form': FORMS[f], 'ls': list(ls), 'rs': list(rs_), 'alias': alias}
            m = rep[0]
            ctx.case(c, nontrivial=True, sample_every=211)
            ctx.count(f'dispatch:{FORMS[f]}'); ctx.traces_vs_impl += 1
            if m['res'] is None or obs['err'] is not None:
                if (m['res'] is None) != (obs['err'] is not None):
                    ctx.disagree(c, obs['err'] or TAGS[obs['res_tag']], m, 'dispatch: accepted/rejected')
                ctx.count('dispatch-entry:rejected')
                return
            ctx.count('dispatch-entry:' + ('in-place' if m['inplace'] else 'new-object'))
            if m['res'] != obs['res_tag']:
                ctx.disagree(c, TAGS[obs['res_tag']] if obs['res_tag'] is not None else None, TAGS[m['res']], 'dispatch: result type')
                return
            if m['inplace'] != obs['res_is_left']:
                ctx.disagree(c, obs['res_is_left'], m['inplace'], 'dispatch: result is the left operand')
            if not m['inplace'] and not alias and obs['left_before'] != obs['left_after']:
                ctx.disagree(c, obs['left_after'], obs['left_before'], 'dispatch: left operand changed')
            if not alias and obs['right_before'] != obs['right_after']:
                ctx.disagree(c, obs['right_after'], obs['right_before'], 'dispatch: right operand changed')
            if m['val'] is None:
                ctx.disagree(c, obs['res'], None, 'dispatch: model could not evaluate its formula')
                return
            mv = [fr(x) for x in m['val']]
            if m['res'] in (ANG, FANG):
                got = trig(*obs['res'])
                rad = obs['rad']
                general = rad[0] > 0.001
                rr = [rad[1], rad[1], rad[0] if general else rad[3], rad[0] if general else rad[3], rad[2] if general else 1.0, rad[2] if general else 1.0]
                # the model's product differs from the float product by rounding of two steps
                bad = [i for i in range(6) if abs(mv[i] - Fr(got[i])) > 4 * tol_ang(rr[i])]
            else:
                got = obs['res']
                scale = sum(abs(Fr(t)) for t in ls) if l <= TUP else 1
                bad = [i for i in range(len(got))] if not is_finite_list(got) else \
                      [i for i in range(len(got)) if abs(mv[i] - Fr(got[i])) > 4 * tol_poly(scale)]
            if bad:
                ctx.disagree(c, got, [float(x) for x in mv], 'dispatch: value')
        add([req], chk)

    # --- operation histories over one pool of live objects: every step vs the model applied to the CURRENT values
    for hist in gen_histories(ctx, case_rng(ctx, 'history')):
        def on_step(idx, op, pool, before, rec, hist=hist):
            if 'want' not in rec:
                ctx.count('history-op:' + rec['kind'])
                return
            req = {'op': 'dispatch', 'l': rec['ltag'], 'r': rec['rtag'], 'form': rec['form'], 'lv': rec['lval'], 'rv': rec['rval'],
                   'rad': [dy(x) for x in rec['rad']]}

            def chk(rep, rec=rec, idx=idx, op=op, hist=hist):
                c = {'history': {'init': hist['init'], 'ops': hist['ops'][:idx + 1]}, 'step': idx}
                m = rep[0]
                ctx.case({'step': idx, 'op': op, 'l': rec['lval'], 'r': rec['rval']}, nontrivial=True, sample_every=1013)
                ctx.count('history-op:' + rec['kind'] + ':' + FORMS[rec['form']]); ctx.traces_vs_impl += 1
                if m['res'] is None or rec['err'] is not None:
                    if (m['res'] is None) != (rec['err'] is not None):
                        ctx.disagree(c, rec['err'] or TAGS[rec['res_tag']], m, 'history: accepted/rejected')
                    return
                if rec['kind'] != 'transform':
                    if m['res'] != rec['res_tag']:
                        ctx.disagree(c, TAGS[rec['res_tag']], TAGS[m['res']], 'history: result type')
                        return
                    if m['inplace'] != rec['res_is_left']:
                        ctx.disagree(c, rec['res_is_left'], m['inplace'], 'history: result is the left operand')
                if m['val'] is None:
                    ctx.disagree(c, rec['res_raw'], None, 'history: model could not evaluate its formula')
                    return
                mv = [fr(x) for x in m['val']]
                if m['res'] in (ANG, FANG):
                    got = trig(*rec['res_raw'])
                    rad = rec['rad']
                    general = rad[0] > 0.001
                    rr = [rad[1], rad[1], rad[0] if general else rad[3], rad[0] if general else rad[3], rad[2] if general else 1.0, rad[2] if general else 1.0]
                    bad = [i for i in range(6) if abs(mv[i] - Fr(got[i])) > (4 + idx) * tol_ang(rr[i])]
                else:
                    got = rec['res_raw']
                    scale = sum(abs(Fr(t)) for t in rec['lraw']) if rec['ltag'] <= TUP else 1
                    bad = list(range(len(got))) if not is_finite_list(got) else \
                        [i for i in range(len(got)) if abs(mv[i] - Fr(got[i])) > 4 * tol_poly(scale)]
                if bad:
                    ctx.disagree(c, got, [float(x) for x in mv], 'history: value of a step differs from the model on the current values')
            add([req], chk)
        try:
            run_history(im, hist, on_step)
        except Exception as ex:
            ctx.disagree({'history': hist}, f'{type(ex).__name__}: {ex}', None, 'history raised')

    # --- general matrices for inverse()
    rng = case_rng(ctx, 'inverse')
    for e in gen_inverse_cases(ctx, rng):
        M = sm.Matrix._from_raw(*e)
        try:
            inv = mat_entries(M.inverse())
        except ArithmeticError:
            inv = None

        def chk(rep, e=e, inv=inv):
            c = {'m': list(e)}
            mi = rep[0]['m']
            ctx.case(c, nontrivial=True, sample_every=499)
            ctx.traces_vs_impl += 1
            d = abs(f_det(e))
            scale = max(abs(Fr(x)) for x in e) or 1
            if (mi is None) != (inv is None):
                if d != 0 and d < Fr(1, 1000) * scale ** 3:
                    ctx.count('inverse:skipped-near-singular')     # the 1e-5 diagonal test is rounding sensitive there
                    return
                ctx.disagree(c, inv, mi, 'inverse (raises?)')
                return
            if mi is None:
                ctx.count('inverse:singular')
                return
            ctx.count('inverse:ok')
            mf = [fr(x) for x in mi]
            cond = max(abs(x) for x in mf) * scale
            if not is_finite_list(inv) or maxdiff(inv, mf) > Fr(1, 2 ** 40) * (1 + cond) ** 2 * (max(abs(x) for x in mf) or 1):
                ctx.disagree(c, inv, [float(x) for x in mf], 'inverse')
        add([{'op': 'inverse', 'm': [dy(x) for x in e]}], chk)

    replies = drv.batch(reqs, timeout=ctx.budget(600, 2400))
    for r in replies:
        if isinstance(r, dict) and 'error' in r:
            raise_internal(f'driver error: {r["error"]}')
    i = 0
    for n, fn in post:
        fn(replies[i:i + n])
        i += n
    ctx.exhaustive = False
    ctx.extra['exhaustive_part'] = 'all 24^3 multiples of 15 degrees; all 7x7x3 operand/form combinations'


def raise_internal(msg):
    import common
    raise common.InternalError(msg)


# ----------------------------------------------------------------------------- search

# ----------------------------------------------------------------------------- near-twin operands
# The frozen classes compare (and hash) with a tolerance: two *different* rotations can be == . Anything
# memoised on such a key hands one rotation's matrix to the other.  The dispatch law "x @ angle is x @
# Matrix.from_angle(angle)" is checked for a pair of near twins used one after the other, on vectors large
# enough that a borrowed matrix is visible, and (matrix/angle left operands) on the resulting entries.

def _flat(sm, x):
    if isinstance(x, (sm.Matrix, sm.FrozenMatrix)):
        return tuple(mat_entries(x))
    return tuple(float(c) for c in x)


def prop_near_twin_case(ctx, im, case):
    sm = im.sm
    pyr, d, v = tuple(case['pyr']), tuple(case['d']), tuple(case['v'])
    pyr2 = tuple(a + b for a, b in zip(pyr, d))
    rcls = {'FrozenAngle': sm.FrozenAngle, 'Angle': sm.Angle}[case['r']]
    lefts = {'Vec': lambda: sm.Vec(*v), 'FrozenVec': lambda: sm.FrozenVec(*v), 'tuple': lambda: tuple(v),
             'Matrix': lambda: sm.Matrix.from_angle(*v), 'FrozenMatrix': lambda: sm.FrozenMatrix.from_angle(*v),
             'Angle': lambda: sm.Angle(*v), 'FrozenAngle': lambda: sm.FrozenAngle(*v)}
    mk = lefts[case['l']]
    a1, a2 = rcls(*pyr), rcls(*pyr2)
    try:
        first = mk() @ a1                      # whatever is remembered about a1 is remembered now
        got = _flat(sm, mk() @ a2)
        want = _flat(sm, mk() @ sm.Matrix.from_angle(*pyr2))
    except Exception as e:
        ctx.witness('near-twin-raises', f'{case["l"]} @ {case["r"]}{pyr2}: {type(e).__name__}: {e}', dict(case, kind='near_twin'))
        return
    scale = max(1.0, max(abs(c) for c in want))
    if any(abs(g - w) > 1e-12 * scale for g, w in zip(got, want)):
        ctx.witness('near-twin-borrowed-rotation',
                    f'after {case["l"]}{v} @ {case["r"]}{pyr}, the product {case["l"]}{v} @ {case["r"]}{pyr2} is {got} but '
                    f'{case["l"]}{v} @ Matrix.from_angle{pyr2} is {want}: x @ angle must equal x @ Matrix.from_angle(angle) '
                    f'whatever was rotated before (the two angles differ by {d}, within the tolerance of __eq__/__hash__)',
                    dict(case, kind='near_twin'))


def gen_near_twin_cases(ctx, rng):
    for i in range(ctx.budget(300, 3000)):
        l = ['Vec', 'FrozenVec', 'tuple', 'Matrix', 'FrozenMatrix', 'Angle', 'FrozenAngle'][i % 7]
        big = l in ('Vec', 'FrozenVec', 'tuple')
        v = [rng.choice([-1, 1]) * rng.uniform(2e5, 2e6) for _ in range(3)] if big else [rng.uniform(0, 360) for _ in range(3)]
        yield {'l': l, 'r': ['FrozenAngle', 'Angle'][(i // 7) % 2], 'pyr': [round(rng.uniform(0, 359), rng.choice([0, 2, 6])) for _ in range(3)],
               'd': [rng.choice([-1, 1]) * rng.choice([2e-7, 4e-7, 4.9e-7]) for _ in range(3)], 'v': v}


def search(ctx):
    im = Impl()
    for case in gen_angle_cases(ctx, case_rng(ctx, 'angles')):
        prop_angle_case(ctx, im, case)
    for case in gen_mul_cases(ctx, case_rng(ctx, 'mul')):
        prop_mul_case(ctx, im, case)
    for case in gen_composed_cases(ctx, case_rng(ctx, 'composed')):
        prop_composed_case(ctx, im, case)
        ctx.count('search:composed:' + case[0])
    for case in gen_dispatch_cases(ctx, case_rng(ctx, 'dispatch')):
        prop_dispatch_case(ctx, im, case)
    for case in gen_near_twin_cases(ctx, case_rng(ctx, 'near_twin')):
        prop_near_twin_case(ctx, im, case)
        ctx.count('search:near-twin:' + case['l'] + '@' + case['r'])
    n_shrunk = 0
    for hist in gen_histories(ctx, case_rng(ctx, 'history')):
        before = len(ctx.witnesses)
        prop_history(ctx, im, hist, shrink=n_shrunk < 3)
        n_shrunk += len(ctx.witnesses) > before
        ctx.count('search:history')
    for e in gen_inverse_cases(ctx, case_rng(ctx, 'inverse')):
        prop_inverse_case(ctx, im, e)
    # witnesses of findings recorded as fixed must pass now
    import common
    for k in common.load_known(PID):
        if k.get('status') == 'fixed' and isinstance(k.get('witness'), dict):
            _replay_input(ctx, im, k['witness'])
            ctx.count('fixed-finding-witness-replayed')
    # neighbours of whatever disagreed in the correspondence
    rng = case_rng(ctx, 'neighbours')
    for d in ctx.disagreements[:20]:
        c = d['case']
        if 'probe' in c:
            continue
        if 'history' in c:
            prop_history(ctx, im, c['history'], shrink=True)
            continue
        if 'l' in c:
            l, r, f = TAGS.index(c['l']), TAGS.index(c['r']), FORMS.index(c['form'])
            for _ in range(20):
                ls = rand_vec(rng) if l <= TUP else rand_angle(rng)
                rs = rand_vec(rng) if r <= TUP else rand_angle(rng)
                prop_dispatch_case(ctx, im, (l, r, f, ls, rs, False))
                if l == r:
                    prop_dispatch_case(ctx, im, (l, r, f, ls, ls, True))
        elif 'case' in c and len(c['case']) == 4 and isinstance(c['case'][0], str):
            _, p, y, r = c['case']
            for dp in (0, 1e-9, -1e-9, 1e-3, -1e-3):
                prop_angle_case(ctx, im, ('neighbour', p + dp, y, r))
                prop_mul_case(ctx, im, ((p + dp, y, r), rand_angle(rng), rand_angle(rng), rand_vec(rng)))
        elif 'case' in c:
            a, b, c3, v = c['case']
            prop_mul_case(ctx, im, (tuple(a), tuple(b), tuple(c3), tuple(v)))
            for t in (a, b):
                prop_angle_case(ctx, im, ('neighbour',) + tuple(t))
        elif 'chain' in c:
            prop_composed_case(ctx, im, ('neighbour', [tuple(t) for t in c['chain']], (100.0, -50.0, 25.0)))
        elif 'm' in c:
            prop_inverse_case(ctx, im, tuple(c['m']))
    # prefer small witnesses: simple angles first
    ctx.witnesses.sort(key=lambda w: (w['key'] in ('frozen-matrix-mutated',), len(str(w['input']))))


# ----------------------------------------------------------------------------- replay

def _replay_input(ctx, im, inp):
    k = inp.get('kind')
    if k == 'angle':
        prop_angle_case(ctx, im, ('replay',) + tuple(inp['pyr']))
    elif k == 'mul':
        prop_mul_case(ctx, im, (tuple(inp['a']), tuple(inp['b']), tuple(inp['c']), tuple(inp['v'])))
    elif k == 'dispatch':
        prop_dispatch_case(ctx, im, (inp['l'], inp['r'], inp['form'], tuple(inp['ls']), tuple(inp['rs']), inp['alias']))
    elif k == 'inverse':
        prop_inverse_case(ctx, im, tuple(inp['m']))
    elif k == 'composed':
        prop_composed_case(ctx, im, ('replay', [tuple(t) for t in inp['chain']], tuple(inp['v'])))
    elif k == 'near_twin':
        prop_near_twin_case(ctx, im, inp)
    elif k == 'history':
        prop_history(ctx, im, {'init': inp['init'], 'ops': inp['ops'], 'probes': inp.get('probes', True)}, shrink=False)
    else:
        return False
    return True


def replay(ctx, payload):
    inp = payload.get('input') or {}
    im = Impl()
    n0 = len(ctx.witnesses)
    if not _replay_input(ctx, im, inp):
        print('replay file names a broken obligation/correspondence, no input to replay:', payload.get('broken_obligations'),
              payload.get('disagreements', [])[:1])
        return False
    for w in ctx.witnesses[n0:]:
        print('fails:', w['key'], '-', w['what'])
    return len(ctx.witnesses) == n0


def replay_known(ctx, finding):
    im = Impl()
    w = finding.get('witness')
    if not isinstance(w, dict) or 'kind' not in w:
        return None
    sub = type(ctx)(ctx.pid, ctx.tier, ctx.seed)
    _replay_input(sub, im, w)
    return any(x['key'] == finding['key'] for x in sub.witnesses)


LEVEL_TEXT = ("Theorems in Lean over an arbitrary commutative ring (field / ordered field where division or order is needed), with the "
              "three angles as points of the unit circle: from_angle gives orthonormal rows and determinant 1, equals "
              "Rx(roll)*Ry(pitch)*Rz(yaw); rotating composes associatively; to_angle followed by from_angle reproduces a rotation "
              "matrix exactly off the gimbal branch; the Gauss-Jordan inverse is a left inverse whenever it returns, never raises on a rotation and equals the transpose there; within 2h of the matrix on the gimbal branch; "
              "the 7x7x3 operand dispatch table has the left operand's type, converts Angle operands with from_angle and is in place "
              "exactly for @= on a mutable left operand. The formulas are re-extracted from math.py on every run and proved equal to "
              "the model; the dispatch, _to_angle and inverse control flow are tied by a differential run within stated tolerances.")
LEVEL_NOTE = ("Trusted: Lean kernel + propext/Classical.choice/Quot.sound; tools/gen_rot.py; the correspondence harness and its "
              "tolerances. Not modelled: libm sin/cos/atan2/sqrt, floating-point rounding, _math.pyx.")
TECHNIQUE = "Lean 4 proofs by ring / linear_combination / decide over generic number types; translator (symbolic execution of straight-line arithmetic) + differential correspondence over Rat with tolerances"
DESIGN_REF = "DESIGN.md section 6, C04"
