"""C08 helpers: run an operation history (the op language of lean/Drv/C08.lean) on the
implementation with explicit control of object lifetime, observe every id, and the direct
oracle (scan all live objects for duplicate / non-positive ids)."""
import gc, io, warnings

KINDS = ('ent', 'solid', 'face', 'group', 'vis', 'node')
PLANE = '(0 0 0) (1 0 0) (0 1 0)'


_frozen = False


def _api():
    global _frozen
    from srctools import vmf as V
    from srctools.keyvalues import Keyvalues
    from srctools.math import Vec
    if not _frozen:
        # everything imported so far is immortal for our purposes: keep it out of every later
        # gc.collect() so that collecting after each operation costs microseconds, not 20 ms
        gc.collect()
        gc.freeze()
        _frozen = True
    return V, Keyvalues, Vec


def var_name(v, variant=0):
    return ['v%d', 'V%d', '$v%d', '$V%d'][variant % 4] % v


def var_num(name):
    return int(name.casefold().lstrip('$')[1:])


def node_repr(n, variant):
    """A value that `int()` maps to n; which one is the harness's choice."""
    k = variant % 5
    if k == 0:
        return str(n)
    if k == 1:
        return n
    if k == 2:
        return ' %d ' % n
    if k == 3 and abs(n) < 2 ** 50:
        return float(n)
    return '%+d' % n


RAW_NODE = ['abc', '', '5.0', '1e3', 'x7']


class _BadInt:
    """int() of it raises something other than TypeError/ValueError; str() is harmless."""
    def __init__(self, exc):
        self.exc = exc

    def __int__(self):
        raise self.exc('verif: refused')

    def __str__(self):
        return 'bad'


# values whose conversion raises at different points of Entity.__setitem__
BAD_NODE = [lambda: float('inf'), lambda: float('nan'), lambda: float('-inf'), lambda: _BadInt(OverflowError),
            lambda: _BadInt(RuntimeError), lambda: _BadInt(KeyError), lambda: 1e400, lambda: _BadInt(ZeroDivisionError)]


# ------------------------------------------------------------------ rendering a Doc as VMF text

def _solid_text(out, ind, sd, hidden):
    sid, sides = sd
    if hidden:
        out.append(f'{ind}hidden\n{ind}{{\n')
        ind += '\t'
    out.append(f'{ind}solid\n{ind}{{\n')
    if sid != -1 or hidden:
        out.append(f'{ind}\t"id" "{sid}"\n')
    for f in sides:
        out.append(f'{ind}\tside\n{ind}\t{{\n')
        if f != -1:
            out.append(f'{ind}\t\t"id" "{f}"\n')
        out.append(f'{ind}\t\t"plane" "{PLANE}"\n{ind}\t\t"material" "tools/toolsnodraw"\n'
                   f'{ind}\t\t"uaxis" "[1 0 0 0] 0.25"\n{ind}\t\t"vaxis" "[0 -1 0 0] 0.25"\n{ind}\t}}\n')
    out.append(f'{ind}\teditor\n{ind}\t{{\n{ind}\t\t"color" "0 100 200"\n{ind}\t}}\n{ind}}}\n')
    if hidden:
        out.append(f'{ind[:-1]}}}\n')


def _vis_forest(vis):
    """post-order [(id, nkids)] -> forest of (id, children)."""
    stack = []
    for vid, n in vis:
        n = min(n, len(stack))
        kids = stack[len(stack) - n:] if n else []
        del stack[len(stack) - n:]
        stack.append((vid, kids))
    return stack


def _vis_text(out, ind, node):
    vid, kids = node
    out.append(f'{ind}visgroup\n{ind}{{\n{ind}\t"name" "g{vid}"\n')
    if vid != -1:
        out.append(f'{ind}\t"visgroupid" "{vid}"\n')
    out.append(f'{ind}\t"color" "1 2 3"\n')
    for k in kids:
        _vis_text(out, ind + '\t', k)
    out.append(f'{ind}}}\n')


def doc_text(doc, salt=0):
    out = ['versioninfo\n{\n\t"editorversion" "400"\n\t"formatversion" "100"\n}\n', 'visgroups\n{\n']
    # NB: the model creates a group's children before the group and top-level groups in order;
    # the stack left after reading the post-order list is the forest in order (bottom first).
    for t in _vis_forest(doc['vis']):
        _vis_text(out, '\t', t)
    out.append('}\nworld\n{\n')
    wid = doc['world']
    if wid >= 0:
        out.append(f'\t"id" "{wid}"\n')
    elif salt % 2:
        out.append('\t"id" "none"\n')
    out.append('\t"classname" "worldspawn"\n')
    for i, sd in enumerate(doc['wsolids']):
        _solid_text(out, '\t', sd, hidden=(i + salt) % 3 == 0)
    for g in doc['groups']:
        out.append('\tgroup\n\t{\n')
        if g != -1:
            out.append(f'\t\t"id" "{g}"\n')
        out.append('\t\teditor\n\t\t{\n\t\t\t"color" "9 9 9"\n\t\t}\n\t}\n')
    out.append('}\n')
    for j, (eid, node, solids, fix) in enumerate(doc['ents']):
        out.append('entity\n{\n')
        if eid >= 0:
            out.append(f'\t"id" "{eid}"\n')
        elif (j + salt) % 3 == 0:
            out.append(f'\t"id" "{eid - 3}"\n')     # negative: not isnumeric() -> ignored
        out.append('\t"classname" "info_node"\n')
        if node is not None:
            key = ['nodeid', 'NodeID'][(j + salt) % 2]
            val = RAW_NODE[(j + salt) % len(RAW_NODE)] if node == 'raw' else str(node)
            out.append(f'\t"{key}" "{val}"\n')
        for var, idx in fix:
            out.append(f'\t"replace{idx:02}" "${var_name(var, idx).lstrip("$")} val{idx}"\n')
        for i, sd in enumerate(solids):
            _solid_text(out, '\t', sd, hidden=(i + j + salt) % 4 == 0)
        out.append('}\n')
    return ''.join(out)


# ------------------------------------------------------------------ interpreter

class Impl:
    """State of one history on the implementation."""

    def __init__(self):
        self.V, self.Keyvalues, self.Vec = _api()
        self.maps = []
        self.regs = {}
        self.step_no = 0

    # -- observation
    def dump(self, o, depth=12):
        V = self.V
        if o is None or depth == 0:
            return None
        if isinstance(o, V.Entity):
            try:
                node = int(o['nodeid', None])
            except (TypeError, ValueError):
                node = None
            fix = [[var_num(f.var), f.id] for f in o.fixup.copy_values()]
            return [0, o.id, node, fix, [self.dump(s, depth - 1) for s in o.solids]]
        if isinstance(o, V.Solid):
            return [1, o.id, None, [], [self.dump(s, depth - 1) for s in o.sides]]
        if isinstance(o, V.Side):
            return [2, o.id, None, [], []]
        if isinstance(o, V.EntityGroup):
            return [3, o.id, None, [], []]
        if isinstance(o, V.VisGroup):
            return [4, o.id, None, [], [self.dump(c, depth - 1) for c in o.child_groups]]
        raise TypeError(type(o))

    def observe(self):
        maps = []
        for v in self.maps:
            maps.append({
                'used': [sorted(m) for m in (v.ent_id, v.solid_id, v.face_id, v.group_id, v.vis_id, v.node_id)],
                'ents': [self.dump(e) for e in v.entities],
                'brushes': [self.dump(b) for b in v.brushes],
                'spawn': self.dump(v.spawn),
            })
        return {'maps': maps, 'regs': [[r, self.dump(o)] for r, o in sorted(self.regs.items())]}

    # -- helpers
    def _reg(self, r, cls):
        o = self.regs.get(r)
        return o if isinstance(o, cls) else None

    def _regs(self, rs, cls):
        out = [self._reg(r, cls) for r in rs]
        return None if any(o is None for o in out) else out

    def _map(self, m):
        return self.maps[m] if 0 <= m < len(self.maps) else None

    def _node_val(self, node):
        if node == 'raw':
            return RAW_NODE[self.step_no % len(RAW_NODE)]
        return node_repr(node, self.step_no)

    def _fixups(self, fix):
        return [self.V.FixupValue(var_name(v, (i + self.step_no) % 2), 'val', idx) for i, (v, idx) in enumerate(fix)]

    def apply(self, op):
        """Run one operation; unknown registers / wrong kinds make it a no-op (as in the model)."""
        V, Vec = self.V, self.Vec
        self.step_no += 1
        name = op[0]
        if name == 'newmap':
            self.maps.append(V.VMF())
        elif name == 'ent':
            _, r, m, des, node, solids, fix = op
            vmf, ss = self._map(m), self._regs(solids, V.Solid)
            if vmf is not None and ss is not None:
                keys = {'classname': 'info_node'}
                if node is not None:
                    keys[['nodeid', 'NodeID'][self.step_no % 2]] = self._node_val(node)
                self.regs[r] = V.Entity(vmf, keys=keys, fixup=self._fixups(fix), ent_id=des, solids=ss)
        elif name == 'addent':
            e = self._reg(op[1], V.Entity)
            if e is not None:
                e.map.add_ent(e)
        elif name == 'rment':
            e = self._reg(op[1], V.Entity)
            if e is not None:
                try:
                    e.remove()
                except ValueError:      # "The worldspawn entity cannot be removed!" (nothing was done)
                    pass
        elif name == 'side':
            _, r, m, des = op
            vmf = self._map(m)
            if vmf is not None:
                self.regs[r] = V.Side(vmf, [Vec(), Vec(1, 0, 0), Vec(0, 1, 0)], des)
        elif name == 'solid':
            _, r, m, des, sides = op
            vmf, ss = self._map(m), self._regs(sides, V.Side)
            if vmf is not None and ss is not None:
                self.regs[r] = V.Solid(vmf, des, ss)
        elif name == 'addbrush':
            s = self._reg(op[1], V.Solid)
            if s is not None:
                s.map.add_brush(s)
        elif name == 'rmbrush':
            s = self._reg(op[1], V.Solid)
            if s is not None:
                s.remove()
        elif name == 'copy':
            _, r2, r, des, tgt = op
            o = self.regs.get(r)
            if o is not None and (tgt is None or self._map(tgt) is not None):
                vmf = None if tgt is None else self.maps[tgt]
                if isinstance(o, (V.Entity, V.Solid, V.Side)):
                    self.regs[r2] = o.copy(des_id=des, vmf_file=vmf, side_mapping={})
                elif isinstance(o, V.EntityGroup):
                    self.regs[r2] = o.copy(vmf)
                elif isinstance(o, V.VisGroup):
                    self.regs[r2] = o.copy(vmf, {}, des)
        elif name == 'drop':
            self.regs.pop(op[1], None)
        elif name == 'kid':
            _, r2, r, i = op
            o = self.regs.get(r)
            kids = (o.solids if isinstance(o, V.Entity) else o.sides if isinstance(o, V.Solid)
                    else o.child_groups if isinstance(o, V.VisGroup) else [])
            if i < len(kids):
                self.regs[r2] = kids[i]
        elif name == 'entat':
            _, r2, m, i = op
            vmf = self._map(m)
            if vmf is not None and i < len(vmf.entities):
                self.regs[r2] = vmf.entities[i]
        elif name == 'brushat':
            _, r2, m, i = op
            vmf = self._map(m)
            if vmf is not None and i < len(vmf.brushes):
                self.regs[r2] = vmf.brushes[i]
        elif name == 'spawn':
            vmf = self._map(op[2])
            if vmf is not None:
                self.regs[op[1]] = vmf.spawn
        elif name == 'setnode':
            e = self._reg(op[1], V.Entity)
            if e is not None and op[2] is not None:
                e[['nodeid', 'NODEID', 'NodeId'][self.step_no % 3]] = self._node_val(op[2])
        elif name == 'setnode_raise':
            # search-only (the model has no such step): an assignment the implementation may refuse with an
            # exception; the caller catches it and keeps using the map. Whatever happened, ids must stay unique.
            e = self._reg(op[1], V.Entity)
            if e is not None:
                try:
                    e[['nodeid', 'NODEID', 'NodeId'][self.step_no % 3]] = BAD_NODE[op[2] % len(BAD_NODE)]()
                except Exception:
                    pass
        elif name == 'delnode':
            e = self._reg(op[1], V.Entity)
            if e is not None:
                del e[['nodeid', 'NodeID'][self.step_no % 2]]
        elif name == 'popnode':
            e = self._reg(op[1], V.Entity)
            if e is not None:
                e.pop('nodeid')
        elif name == 'group':
            _, r, m, des = op
            vmf = self._map(m)
            if vmf is not None:
                self.regs[r] = V.EntityGroup(vmf, des)
        elif name == 'vis':
            _, r, m, des, kids = op
            vmf, ks = self._map(m), self._regs(kids, V.VisGroup)
            if vmf is not None and ks is not None:
                self.regs[r] = V.VisGroup(vmf, 'vis', des, Vec(1, 2, 3), ks)
        elif name == 'fxset':
            e = self._reg(op[1], V.Entity)
            if e is not None:
                e.fixup[var_name(op[2], self.step_no)] = 'v%d' % self.step_no
        elif name == 'fxdel':
            e = self._reg(op[1], V.Entity)
            if e is not None:
                del e.fixup[var_name(op[2], self.step_no)]
        elif name == 'parse':
            text = doc_text(op[1], self.step_no)
            self.maps.append(V.VMF.parse(self.Keyvalues.parse(io.StringIO(text), 'doc'), preserve_ids=False))
        elif name == 'failsolid':
            vmf = self._map(op[1])
            if vmf is not None:
                try:
                    V.Solid(vmf, op[2], [], 5)     # visgroup_ids=5: the converter raises
                except TypeError:
                    pass
        elif name == 'failent':
            vmf = self._map(op[1])
            if vmf is not None:
                try:
                    V.Entity(vmf, ent_id=op[2], groups=5)      # raises after the id was obtained
                except TypeError:
                    pass
        elif name == 'failside':
            vmf = self._map(op[1])
            if vmf is not None:
                try:
                    V.Side(vmf, [Vec(), Vec(1, 0, 0), Vec(0, 1, 0)], op[2], disp_power='x')
                except TypeError:
                    pass
        else:
            raise ValueError(f'unknown op {name}')
        o = e = s = vmf = ss = ks = kids = None
        gc.collect()

    # -- the property, stated directly
    def live_objects(self, held=True):
        """{(map index, kind): [(id, python object)]} for every object reachable from the maps
        (and, with held=True, from the caller's variables)."""
        V = self.V
        seen, out = set(), {}
        midx = {id(v): i for i, v in enumerate(self.maps)}

        def add(o):
            if o is None or id(o) in seen:
                return
            seen.add(id(o))
            if isinstance(o, V.Entity):
                k, vmf, kids = 'ent', o.map, o.solids
            elif isinstance(o, V.Solid):
                k, vmf, kids = 'solid', o.map, o.sides
            elif isinstance(o, V.Side):
                k, vmf, kids = 'face', o.map, []
            elif isinstance(o, V.EntityGroup):
                k, vmf, kids = 'group', o.vmf, []
            elif isinstance(o, V.VisGroup):
                k, vmf, kids = 'vis', o.vmf, o.child_groups
            else:
                return
            out.setdefault((midx.get(id(vmf), -1), k), []).append((o.id, o))
            for c in kids:
                add(c)

        for v in self.maps:
            add(v.spawn)
            for e in v.entities:
                add(e)
            for b in v.brushes:
                add(b)
            for g in v.vis_tree:
                add(g)
            for g in v.groups.values():
                add(g)
        if held:
            for o in self.regs.values():
                add(o)
        return out

    def violations(self, check_fix_positive=True):
        """[(key, text)] — every way the property fails in the current state."""
        res = []
        for held in (False, True):
            suffix = '-held' if held else ''
            live = self.live_objects(held)
            for (m, k), lst in sorted(live.items(), key=lambda kv: (kv[0][0], kv[0][1])):
                ids = [i for i, _ in lst]
                dup = sorted({i for i in ids if ids.count(i) > 1})
                if dup:
                    res.append((f'dup-{k}-id{suffix}', f'map {m}: {len([i for i in ids if i == dup[0]])} live {k} objects share id {dup[0]}'))
                bad = sorted(i for i in ids if not (isinstance(i, int) and i > 0))
                if bad:
                    res.append((f'nonpos-{k}-id{suffix}', f'map {m}: live {k} object has id {bad[0]}'))
            for m in range(len(self.maps)):
                nodes = []
                for _, e in live.get((m, 'ent'), []):
                    try:
                        nodes.append(int(e['nodeid', None]))
                    except (TypeError, ValueError):
                        pass
                dup = sorted({i for i in nodes if nodes.count(i) > 1})
                if dup:
                    res.append((f'dup-node-id{suffix}', f'map {m}: {nodes.count(dup[0])} live entities have nodeid {dup[0]}'))
                if any(i <= 0 for i in nodes):
                    res.append((f'nonpos-node-id{suffix}', f'map {m}: a live entity has nodeid {min(nodes)}'))
            for (m, k), lst in live.items():
                if k != 'ent':
                    continue
                for _, e in lst:
                    idx = [f.id for f in e.fixup.copy_values()]
                    if len(set(idx)) != len(idx):
                        res.append((f'dup-fixup-index{suffix}', f'map {m}: entity {e.id} has fixup indexes {idx}'))
                    if check_fix_positive and any(i <= 0 for i in idx):
                        res.append((f'nonpos-fixup-index{suffix}', f'map {m}: entity {e.id} has fixup indexes {idx}'))
            if res:
                break
        return res


def fix_inputs_positive(ops):
    """True when no operation of the history supplies a non-positive replaceNN index itself."""
    for op in ops:
        if op[0] == 'ent' and any(i <= 0 for _, i in op[6]):
            return False
        if op[0] == 'parse' and any(i <= 0 for e in op[1]['ents'] for _, i in e[3]):
            return False
    return True


def run_history(ops, observe=True, oracle=False):
    """Returns (observations per step, first violation or None as (step, key, text))."""
    warnings.simplefilter('ignore')
    im = Impl()
    obs, viol = [], None
    posfix = fix_inputs_positive(ops)
    for i, op in enumerate(ops):
        im.apply(op)
        if observe:
            obs.append(im.observe())
        if oracle and viol is None:
            v = im.violations(posfix)
            if v:
                viol = (i, v[0][0], v[0][1])
                if not observe:
                    break
    return obs, viol
