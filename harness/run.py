#!/usr/bin/env python3
"""usage: run.py <PID> [--tier quick|thorough] [--replay FILE]"""
import sys, os, argparse, importlib, pathlib, json
HERE = pathlib.Path(__file__).resolve().parent
sys.path.insert(0, str(HERE))
import common

def main():
    ap = argparse.ArgumentParser()
    ap.add_argument('pid')
    ap.add_argument('--tier', default=os.environ.get('VERIF_TIER') or 'quick', choices=['quick', 'thorough'])
    ap.add_argument('--replay')
    a = ap.parse_args()
    tier = os.environ.get('VERIF_TIER') or a.tier
    if tier not in ('quick', 'thorough'):
        tier = a.tier
    seed = int(os.environ.get('VERIF_SEED', '0') or 0)
    spec = importlib.import_module('p_' + a.pid.lower())
    if a.replay:
        common.import_impl()
        payload = json.loads(pathlib.Path(a.replay).read_text())
        ctx = common.Ctx(a.pid, tier, seed)
        ok = spec.replay(ctx, payload)
        print('replay: property', 'HOLDS on this input' if ok else 'FAILS on this input')
        sys.exit(0 if ok else 1)
    # hard wall-clock limit for the whole check: a harness that cannot finish is an internal error
    # (exit 2), never a verdict; checks whose property has a termination clause convert hangs of the
    # implementation into witnesses themselves, under their own much shorter watchdogs
    import threading
    limit = int(os.environ.get('VERIF_WALL_LIMIT', '1800' if tier == 'quick' else '7200'))
    def _too_long():
        print(f'[{a.pid}] internal: check exceeded its wall-clock limit of {limit}s (tier {tier})', flush=True)
        os._exit(2)
    _wd = threading.Timer(limit, _too_long)   # a thread, not SIGALRM: some checks use SIGALRM for their own watchdogs
    _wd.daemon = True
    _wd.start()
    try:
        rc = common.run_check(spec, tier, seed)
    except (common.Timeout, common.InternalError) as e:
        print(f'[{a.pid}] internal: {e}')
        rc = 2
    except Exception:
        import traceback
        traceback.print_exc()
        rc = 2
    sys.exit(rc)

if __name__ == '__main__':
    main()
