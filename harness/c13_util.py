"""C13 helpers: operation sequences on a VPK, the implementation runner, the simple specification
(`name triple -> bytes`, Python dict) used as the oracle of the direct search, payload generation
(deterministic, reproduced bit-for-bit by the Lean driver) and CRC-32 collision forging.

A *case* is {'single': bool, 'ops': [op, ...]}.  Operations (all JSON):
  ['open', mode, limit]            mode in 'r','w','a'; limit: int or None (dir_data_limit)
  ['new', name]                    VPK.new_file
  ['add', name, data, idx]         VPK.add_file(name, data, arch_index=idx)      idx: int or None
  ['write', name, data, idx]       VPK[name].write(data, idx)
  ['del', name]                    del VPK[name]
  ['flush']                        VPK.write_dirfile()
  ['exit', exc]                    VPK.__exit__ at the end of a `with VPK(...) as v:` block (open also calls __enter__);
                                   exc = True: an exception was raised inside the block
  ['has', name]                    name in VPK
  ['check']                        observe: triples, filenames, read of every file, verify_all, files on disk
  ['plant', hex]                   (harness only) put these raw bytes in place of the directory file; closes the handle
name:  ['s', str] | ['p', dir, file] | ['t', dir, file, ext]     (strings as lists of code points)
data:  ['g', seed, size]  (generated)  |  ['x', hexstring]
"""
import os, shutil, struct, tempfile, zlib, functools

MAXP = 0xFFFF


# ------------------------------------------------------------------ payloads

@functools.lru_cache(maxsize=64)
def gen_bytes(seed, size):
    """Byte i is ((i*i + seed*(2*i+1)) // 4) % 256  — the Lean driver computes the same."""
    return bytes((((i * i + seed * (2 * i + 1)) >> 2) & 255) for i in range(size))


def data_of(spec):
    if spec[0] == 'g':
        return gen_bytes(spec[1], spec[2])
    return bytes.fromhex(spec[1])


def forge_suffix(prefix, target):
    """4 bytes s with zlib.crc32(prefix + s) == target (CRC-32 is affine over GF(2) in s)."""
    c0 = zlib.crc32(prefix + b'\0\0\0\0')
    cols = []
    for bit in range(32):
        s = (1 << bit).to_bytes(4, 'little')
        cols.append(zlib.crc32(prefix + s) ^ c0)
    want = target ^ c0
    # solve sum x_i cols[i] = want over GF(2)
    rows = [(cols[i], 1 << i) for i in range(32)]
    basis = {}
    for v, m in rows:
        while v:
            h = v.bit_length() - 1
            if h in basis:
                bv, bm = basis[h]
                v ^= bv; m ^= bm
            else:
                basis[h] = (v, m)
                break
    x = 0
    v = want
    while v:
        h = v.bit_length() - 1
        if h not in basis:
            raise ValueError('no solution')
        bv, bm = basis[h]
        v ^= bv; x ^= bm
    s = x.to_bytes(4, 'little')
    assert zlib.crc32(prefix + s) == target
    return s


def collide(data, seed=1):
    """A payload different from `data` with the same CRC-32 (same length when len(data) >= 5)."""
    n = len(data) if len(data) >= 5 else 8
    pre = bytes(((data[k] if k < len(data) else 0) + seed) & 255 for k in range(n - 4))
    out = pre + forge_suffix(pre, zlib.crc32(data))
    assert out != data and zlib.crc32(out) == zlib.crc32(data)
    return out


# ------------------------------------------------------------------ names

def cps(s):
    return [ord(c) for c in s]


def st(l):
    return ''.join(chr(c) for c in l)


def py_name(name):
    if name[0] == 's':
        return st(name[1])
    if name[0] == 'p':
        return (st(name[1]), st(name[2]))
    return (st(name[1]), st(name[2]), st(name[3]))


def join_parts(d, n, e):
    return f"{d}{'/' if d else ''}{n}{'.' if e else ''}{e}"


def spell(kind, d, n, e):
    """The three spellings of the triple (d, n, e)."""
    if kind == 's':
        return ['s', cps(join_parts(d, n, e))]
    if kind == 'p':
        return ['p', cps(d), cps(n + ('.' + e if e else ''))]
    if kind == 'z' and e:
        # fourth spelling: a 3-tuple whose extension part is empty while the name part carries ".ext"
        return ['t', cps(d), cps(n + '.' + e), []]
    return ['t', cps(d), cps(n), cps(e)]


# ------------------------------------------------------------------ running the implementation

def err_code(exc):
    import struct as _s
    t = type(exc).__name__
    msg = str(exc)
    if isinstance(exc, ValueError) and 'does not allow writing' in msg:
        return 'readonly'
    if isinstance(exc, ValueError) and 'must be ASCII' in msg:
        return 'nonascii'
    if isinstance(exc, ValueError) and 'signature' in msg:
        return 'badsig'
    if isinstance(exc, ValueError) and 'VPK version' in msg:
        return 'badversion'
    if isinstance(exc, ValueError) and 'bad terminator' in msg:
        return 'badterm'
    if isinstance(exc, FileExistsError):
        return 'exists'
    if isinstance(exc, KeyError):
        return 'missing'
    if isinstance(exc, FileNotFoundError):
        return 'nofile'
    if isinstance(exc, _s.error):
        return 'struct'
    if isinstance(exc, NotImplementedError):
        return 'v2'
    if isinstance(exc, ValueError) and 'NUL' in msg:
        return 'nul'
    return 'exc:' + t


def digest(b):
    return [len(b), zlib.crc32(b)]


class ImplWorld:
    """One temp folder holding pak01_dir.vpk (+ numbered archives) or pak01.vpk (single)."""

    def __init__(self, single, forms=None):
        # forms: how the (same) arguments are handed over — {'path': 'str'|'Path'|'PathLike', 'mode': 'str'|'enum',
        # 'data': 'bytes'|'bytearray' (mutated by the caller after the call), 'names': 'tuple'|'list', 'pos': bool}
        self.forms = forms or {}
        self.form_fail = None
        self.single = single
        self.dir = tempfile.mkdtemp(prefix='c13_')
        self.path = os.path.join(self.dir, 'pak01.vpk' if single else 'pak01_dir.vpk')
        self.vpk = None

    def close(self):
        shutil.rmtree(self.dir, ignore_errors=True)

    # ---- argument forms (the denoted value is the same; see p_c13._argforms_property for what is accepted as coded)
    def _path_arg(self):
        f = self.forms.get('path', 'str')
        if f == 'Path':
            import pathlib
            return pathlib.Path(self.path)
        if f == 'PathLike':
            class _P:
                def __init__(s, p): s.p = p
                def __fspath__(s): return s.p
            return _P(self.path)
        return self.path

    def _mode_arg(self, m):
        if self.forms.get('mode') == 'enum':
            from srctools.vpk import OpenModes
            return OpenModes(m)
        return m

    def _name_arg(self, name):
        n = py_name(name)
        if self.forms.get('names') == 'list' and not isinstance(n, str):
            return list(n)
        return n

    def _data_arg(self, data):
        """(argument, callback run after the call): a bytearray is checked to be unchanged by the callee and is then
        overwritten by the caller — the archive must keep the bytes as they were at call time."""
        if self.forms.get('data') != 'bytearray':
            return data, (lambda: None)
        ba = bytearray(data)

        def after():
            if bytes(ba) != data:
                self.form_fail = 'the callee changed the bytearray passed as data'
            for k in range(len(ba)):
                ba[k] ^= 0xA5
        return ba, after

    def _unchanged(self, snap, obj, what):
        if repr(obj) != snap:
            self.form_fail = f'the {what} argument was changed by the call: {snap} -> {obj!r}'

    def __enter__(self):
        return self

    def __exit__(self, *a):
        self.close()

    def disk(self):
        """{'dir': None | bytes, 'arch': {idx: bytes}, 'other': [names]}"""
        out = {'dir': None, 'arch': {}, 'other': []}
        for fn in sorted(os.listdir(self.dir)):
            p = os.path.join(self.dir, fn)
            with open(p, 'rb') as f:
                b = f.read()
            if p == self.path:
                out['dir'] = b
            elif not self.single and fn.startswith('pak01_') and fn.endswith('.vpk') and fn[6:-4].isdigit():
                out['arch'][int(fn[6:-4])] = b
            else:
                out['other'].append(fn)
        return out

    def triples(self):
        return sorted((i.dir, i._filename, i.ext) for i in self.vpk)

    def observe(self, full=False):
        """Observation of a 'check'."""
        v = self.vpk
        if v is None:
            return {'nohandle': True}
        infos = sorted(((i.dir, i._filename, i.ext), i) for i in v)
        reads = []
        datas = {}
        for k, i in infos:
            try:
                b = i.read()
                reads.append(digest(b))
                datas[k] = b
            except Exception as e:
                reads.append(err_code(e))
                datas[k] = e
        try:
            ver = bool(v.verify_all())
        except Exception as e:
            ver = err_code(e)
        d = self.disk()
        obs = {
            'triples': [[cps(a), cps(b), cps(c)] for (a, b, c), _ in infos],
            'filenames': sorted(cps(x) for x in v.filenames()),
            'reads': reads,
            'verify': ver,
            'len': len(v),
            'spell': [[(nm in v) and (v[nm] is i) for nm in (py_name(spell(kd, *k)) for kd in 'sptz')] for k, i in infos],
            'dirfile': None if d['dir'] is None else digest(d['dir']),
            'arch': [[k, digest(b)] for k, b in sorted(d['arch'].items())],
        }
        if full:
            obs['_datas'] = datas
            obs['_disk'] = d
        return obs

    def step(self, op):
        """Run one operation; returns its canonical result ('ok' | error code | observation)."""
        from srctools.vpk import VPK
        kind = op[0]
        if kind == 'open':
            self.vpk = None
            try:
                v = VPK(self._path_arg(), mode=self._mode_arg(op[1]), dir_data_limit=op[2])
                self.vpk = v.__enter__()
                if self.vpk is not v:
                    return 'enter-not-self'
            except Exception as e:
                return err_code(e)
            return 'ok'
        if kind == 'check':
            return self.observe()
        if kind == 'plant':
            self.vpk = None
            with open(self.path, 'wb') as f:
                f.write(bytes.fromhex(op[1]))
            return 'ok'
        v = self.vpk
        if v is None:
            return 'nohandle'
        try:
            if kind == 'new':
                nm = self._name_arg(op[1]); snap = repr(nm)
                if self.forms.get('pos'):
                    v.new_file(nm, '')
                else:
                    v.new_file(nm)
                self._unchanged(snap, nm, 'name')
            elif kind == 'add':
                nm = self._name_arg(op[1]); snap = repr(nm)
                data, after = self._data_arg(data_of(op[2]))
                try:
                    if self.forms.get('pos'):
                        v.add_file(nm, data, '', op[3])
                    else:
                        v.add_file(nm, data, arch_index=op[3])
                finally:
                    after()
                self._unchanged(snap, nm, 'name')
            elif kind == 'write':
                nm = self._name_arg(op[1]); snap = repr(nm)
                info = v[nm]
                data, after = self._data_arg(data_of(op[2]))
                try:
                    if self.forms.get('pos'):
                        info.write(data, op[3])
                    elif op[3] is None and self.forms.get('omit'):
                        info.write(data)
                    else:
                        info.write(data, arch_index=op[3])
                finally:
                    after()
                self._unchanged(snap, nm, 'name')
            elif kind == 'del':
                nm = self._name_arg(op[1]); snap = repr(nm)
                del v[nm]
                self._unchanged(snap, nm, 'name')
            elif kind == 'flush':
                v.write_dirfile()
            elif kind == 'exit':
                if op[1]:
                    exc = RuntimeError('raised inside the with block')
                    r = v.__exit__(RuntimeError, exc, None)
                else:
                    r = v.__exit__(None, None, None)
                if r:
                    return 'exit-swallows-exception'
            elif kind == 'has':
                return 'yes' if self._name_arg(op[1]) in v else 'no'
            else:
                raise AssertionError(op)
        except AssertionError:
            raise
        except Exception as e:
            return err_code(e)
        return 'ok'


def run_impl(case):
    with ImplWorld(case['single'], case.get('forms')) as w:
        return [w.step(op) for op in case['ops']]


# ------------------------------------------------------------------ the specification (oracle of the search)

def get_parts(name):
    from srctools.vpk import _get_file_parts
    return _get_file_parts(py_name(name))


def ref_parts(name):
    """INDEPENDENT statement of how a name denotes (folder, name, extension) — what `_get_file_parts` does on the
    unchanged tree, written with posixpath directly; the oracle uses this, never the implementation's own function
    (compared with it and with the Lean model on every run)."""
    import posixpath
    v = py_name(name)
    if isinstance(v, str):
        path, fn = posixpath.split(v); ext = ''
    elif len(v) == 2:
        path, fn = v; ext = ''
    else:
        path, fn, ext = v
    if not ext and '.' in fn:
        fn, ext = fn.rsplit('.', 1)
    path = posixpath.normpath(path).replace('\\', '/').rstrip('/')
    if path == '.':
        path = ''
    return path, fn, ext


def spellable(d, n, e):
    """the three spellings of (d, n, e) must resolve to it (hypotheses of C13_names)"""
    return ('/' not in n and '/' not in e and '.' not in e and not (e == '' and '.' in n) and not d.endswith('/')
            and _is_clean(d))


def _is_clean(d):
    return ref_parts(['t', cps(d), cps('x'), cps('y')])[0] == d


def is_ascii_name(s):
    return all(ord(c) < 0x80 or 0xDC80 <= ord(c) <= 0xDCFF for c in s)


class Spec:
    """`triple -> bytes`, committed copy on 'disk', current copy in the open handle."""

    def __init__(self):
        self.disk = None        # None = no file; 'blank' = empty file; dict = committed map
        self.cur = None         # None | dict
        self.mode = None
        self.gone = set()       # every triple ever addressed (to check that absent ones are not found)

    def step(self, op, parts):
        """Returns the set of acceptable results ('ok'/codes) or None when anything goes."""
        k = op[0]
        if k == 'open':
            self.cur = None
            self.mode = op[1]
            if op[1] == 'w':
                self.disk = 'blank'
                self.cur = {}
                return {'ok'}
            if self.disk is None:
                if op[1] == 'a':
                    self.disk = 'blank'
                    self.cur = {}
                    return {'ok'}
                return {'nofile'}
            if self.disk == 'blank':
                # an empty file is not a VPK: the code raises; listing nothing would also be acceptable
                return {'struct', 'ok-empty'}
            self.cur = dict(self.disk)
            return {'ok'}
        if k == 'check':
            return None
        if self.cur is None:
            return {'nohandle'}
        ro = self.mode == 'r'
        if k in ('new', 'add', 'write', 'del', 'has'):
            self.gone.add(parts(op[1]))
        if k in ('new', 'add'):
            if ro:
                return {'readonly'}
            t = parts(op[1])
            if not all(is_ascii_name(x) for x in t):
                return {'nonascii'}
            if t in self.cur:
                return {'exists'}
            self.cur[t] = b'' if k == 'new' else data_of(op[2])
            return {'ok'}
        if k == 'write':
            t = parts(op[1])
            if t not in self.cur:
                return {'missing'}
            if ro:
                return {'readonly'}
            self.cur[t] = data_of(op[2])
            return {'ok'}
        if k == 'del':
            if ro:
                return {'readonly'}
            t = parts(op[1])
            if t not in self.cur:
                return {'missing'}
            del self.cur[t]
            return {'ok'}
        if k == 'flush':
            if ro:
                return {'readonly'}
            self.disk = dict(self.cur)
            return {'ok'}
        if k == 'has':
            return {'yes' if parts(op[1]) in self.cur else 'no'}
        if k == 'exit':
            # leaving a with block saves the index when no exception was raised and the mode is writable
            if not op[1] and not ro:
                self.disk = dict(self.cur)
            return {'ok'}
        raise AssertionError(op)


def _placement(w, hist):
    if w.vpk is None:
        return
    for i in w.vpk:
        if i.arch_len == 0:
            k = 'preload-only' if i.start_data else 'empty'
        elif i.arch_index is None:
            k = 'single-file tail' if w.single else 'dir tail'
        else:
            k = 'numbered archive'
        if i.start_data and i.arch_len:
            k += '+preload'
        hist[k] = hist.get(k, 0) + 1


def run_case(case, oracle=True, capture=0, hist=None):
    """ONE run of the case on the implementation.  Returns {'obs': per-op results (what the model
    driver must reproduce), 'fails': [(key, what, op_index)] = points where the PROPERTY fails
    (specification oracle), 'dirs': up to `capture` directory files written by flush}."""
    fails = []
    obs_all = []
    dirs = []
    spec = Spec() if oracle and not any(op[0] == 'plant' for op in case['ops']) else None
    ro_disk = None
    with ImplWorld(case['single'], case.get('forms')) as w:
        for n, op in enumerate(case['ops']):
            if w.form_fail:
                fails.append(('argforms', w.form_fail, n)); w.form_fail = None
            want = spec.step(op, ref_parts) if spec else None
            if op[0] == 'check':
                obs = w.observe(full=True)
                datas = obs.pop('_datas', None); disk = obs.pop('_disk', None)
                obs_all.append(obs)
                if hist is not None:
                    _placement(w, hist)
                if spec is None or spec.cur is None or obs.get('nohandle'):
                    continue
                exp = sorted(spec.cur)
                got = [tuple(st(x) for x in t) for t in obs['triples']]
                if got != exp:
                    fails.append(('listing', f'files listed {got} but should be {exp}', n))
                    spec = None
                    continue
                for t in exp:
                    b = datas[t]
                    if isinstance(b, Exception):
                        fails.append(('readback', f'read of {t} raised {type(b).__name__}: {b}', n))
                    elif b != spec.cur[t]:
                        fails.append(('readback', f'read of {t} returned {len(b)} bytes (crc {zlib.crc32(b):08x}), last written {len(spec.cur[t])} bytes (crc {zlib.crc32(spec.cur[t]):08x})', n))
                if obs['verify'] is not True and not any(f[2] == n for f in fails):
                    fails.append(('verify', f'verify_all() = {obs["verify"]} although every file reads back what was written', n))
                if sorted(st(x) for x in obs['filenames']) != sorted(join_parts(*t) for t in exp):
                    fails.append(('listing', f'filenames() = {sorted(st(x) for x in obs["filenames"])}', n))
                if obs['len'] != len(exp):
                    fails.append(('listing', f'len() = {obs["len"]} with {len(exp)} files', n))
                for t in exp:
                    for kd in (('s', 'p', 't', 'z') if spellable(*t) else ('t',)):
                        nm = py_name(spell(kd, *t))
                        try:
                            ok = (nm in w.vpk) and w.vpk[nm].read() == spec.cur[t]
                        except Exception as e:
                            ok = False
                        if not ok:
                            fails.append(('lookup', f'{nm!r} (a spelling of {t}) is not found by `in` / [] or reads other data', n))
                for t in getattr(spec, 'gone', ()):
                    if t not in spec.cur and spellable(*t):
                        for kd in 'sptz':
                            nm = py_name(spell(kd, *t))
                            found = nm in w.vpk
                            try:
                                w.vpk[nm]; found = True
                            except KeyError:
                                pass
                            if found:
                                fails.append(('lookup', f'{nm!r} is found although {t} should not exist', n))
                if spec.mode == 'r':
                    if ro_disk is not None and ro_disk != (disk['dir'], disk['arch']):
                        fails.append(('readonly', 'files on disk changed while the archive was open read-only', n))
                    ro_disk = (disk['dir'], disk['arch'])
                continue
            got = w.step(op)
            obs_all.append(got)
            if op[0] == 'open':
                ro_disk = None
            if op[0] in ('flush', 'exit') and got == 'ok' and len(dirs) < capture and os.path.exists(w.path):
                with open(w.path, 'rb') as f:
                    dirs.append(f.read())
            if spec is None:
                continue
            if op[0] == 'open' and want == {'struct', 'ok-empty'}:
                if got == 'ok':
                    spec.cur = {}
                elif got != 'struct':
                    fails.append(('error', f'open of an empty file: {got}', n))
                    spec = None
            elif want is not None and got not in want:
                fails.append(('error', f'operation {n} {op[0]} gave {got!r}, the specification says {sorted(want)}', n))
                spec = None     # the histories diverge from here on
    return {'obs': obs_all, 'fails': fails, 'dirs': dirs}


def check_case_against_spec(case):
    return run_case(case)['fails']


def impl_decode(data):
    """What the implementation makes of these bytes as a directory file: error code or listing
    in the shape of the driver's `decode` reply."""
    from srctools.vpk import VPK
    d = tempfile.mkdtemp(prefix='c13d_')
    try:
        p = os.path.join(d, 'x_dir.vpk')
        with open(p, 'wb') as f:
            f.write(data)
        try:
            v = VPK(p, mode='r')
        except Exception as e:
            return {'err': err_code(e)}
        return {'version': v.version,
                'entries': [[cps(i.ext), cps(i.dir), cps(i._filename), i.crc, digest(i.start_data), i.arch_index,
                             i.offset, i.arch_len] for i in v],
                'footer': digest(v.footer_data)}
    finally:
        shutil.rmtree(d, ignore_errors=True)


def mutants(rng, data, n):
    """Damaged copies of a directory file (truncation, byte change, tree-length change, insert/delete)."""
    out = []
    for _ in range(n):
        b = bytearray(data)
        r = rng.random()
        if r < 0.25 and len(b) > 0:
            b = b[:rng.randrange(0, len(b))]
        elif r < 0.55 and len(b) > 0:
            i = rng.randrange(0, len(b))
            b[i] = rng.choice([0, 0x20, 0xff, 0x7f, b[i] ^ 1, rng.randrange(256)])
        elif r < 0.70 and len(b) >= 12:
            tl = struct.unpack_from('<I', b, 8)[0]
            struct.pack_into('<I', b, 8, max(0, tl + rng.choice([-2, -1, 1, 2, 5, -5])) & 0xffffffff)
        elif r < 0.80 and len(b) > 0:
            i = rng.randrange(0, len(b))
            del b[i]
        elif r < 0.90:
            i = rng.randrange(0, len(b) + 1)
            b[i:i] = bytes([rng.choice([0, 0x20, 0x41, 0xff])])
        elif len(b) >= 12:
            # version 2 header: 16 more bytes before the tree
            struct.pack_into('<I', b, 4, 2)
            b[12:12] = bytes(16)
        out.append(bytes(b))
    return out


# ------------------------------------------------------------------ generators

SIZES = [0, 1, 15, 16, 17, 1023, 1024, 1025, 65535, 65536, 300 * 1024 + 7]
SIZE_W = [6, 6, 5, 5, 5, 4, 4, 4, 1, 1, 1]
LIMITS = [None, 0, 16, 1024]
INDEXES = [None, 0, 1, 7]
DIRS = ['', 'a', 'a/b', 'materials/models', 'x y', 'A', 'a.b', '..', 'a\udc80']
# unnormalised spellings of the directory part that _get_file_parts must map to the same folder
DIR_SPELL = {'a': ['a', './a', 'a/', 'a//', 'a/.', 'b/../a', 'a\\'], 'a/b': ['a/b', 'a//b', 'a\\b', 'a/./b', 'a/b/'],
             '': ['', '.', './', '/']}
NAMES = ['n', '', 'file', 'N', 'n n', 'n\udcff', 'n.m', 'a.b.c', '.lead', 'n..m']
EXTS = ['', 'txt', 'e', 'vmt', 'T', 'e\udc9f']
BAD_NAMES = ['é', 'nĀ', '\ud800']   # rejected by new_file (not ASCII / surrogateescape)


def in_class(d, n, e):
    """The class the generators stay in (see known findings): no NUL, no part spelled ' '."""
    return all('\0' not in x and x != ' ' for x in (d, n, e))


CRC0 = collide(b'')
BOUNDARY = [2, 31, 32, 33, 63, 64, 65, 127, 128, 129, 191, 192, 193, 255, 256, 257]


def gen_triple(rng):
    d = rng.choice(DIRS) if rng.random() < 0.8 else rng.choice(DIRS[:4])
    n = rng.choice(NAMES)
    e = rng.choice(EXTS)
    if '.' in n and not e:
        e = 'e'
    if rng.random() < 0.08:
        L = rng.choice([63, 64, 65, 127, 128, 129, 191, 192, 193, 256])
        w = rng.randrange(3)
        if w == 0:
            d = 'D' * L
        elif w == 1:
            n = 'N' * L
        else:
            e = 'E' * L
    return d, n, e


def gen_name(rng, trip):
    d, n, e = trip
    kind = rng.choice('sptz')
    if rng.random() < 0.15 and d in DIR_SPELL:
        d = rng.choice(DIR_SPELL[d])
        if kind == 's' and d.endswith(('/', '\\')) or (kind == 's' and d in ('.', '/', './')):
            kind = rng.choice('pt')
    if rng.random() < 0.02:
        n = n + rng.choice(BAD_NAMES)
    return spell(kind, d, n, e)


def gen_data(rng, big_ok=True):
    size = rng.choices(SIZES, SIZE_W)[0]
    if not big_ok and size > 2000:
        size = rng.choice([15, 17, 1025])
    if rng.random() < 0.15:
        size = rng.randrange(0, 2100)
    if rng.random() < 0.08:
        size = rng.choice(BOUNDARY)
    if rng.random() < 0.02:
        return ['x', CRC0.hex()]        # non-empty payload whose CRC-32 equals EMPTY_CHECKSUM
    return ['g', rng.randrange(0, 1000), size]


def _gen_save(rng):
    """explicit write_dirfile(), or leaving the `with` block normally, or (rarely) with an exception"""
    r = rng.random()
    return ['flush'] if r < 0.5 else ['exit', False] if r < 0.92 else ['exit', True]


def gen_case(rng, max_ops=25, collide_p=0.04):
    """A random history.  Returns the case; files are addressed through a small pool of triples so that
    overwrites, deletes and re-adds of the same file happen often."""
    single = rng.random() < 0.3
    pool = [gen_triple(rng) for _ in range(rng.randrange(1, 6))]
    ops = []
    nbig = 0
    last = {}          # triple -> last data spec (for CRC collisions)
    flushed = False
    ops.append(['open', rng.choice('wwa'), rng.choice(LIMITS)])
    ops.append(['check'])
    nops = rng.randrange(3, max_ops + 1)
    while len(ops) < nops:
        r = rng.random()
        trip = rng.choice(pool)
        name = gen_name(rng, trip)
        if r < 0.30:
            d = gen_data(rng, nbig < 3); nbig += len(data_of(d)) > 2000
            ops.append(['add', name, d, rng.choice(INDEXES)]); last[trip] = d
        elif r < 0.50:
            d = gen_data(rng, nbig < 3); nbig += len(data_of(d)) > 2000
            if trip in last and rng.random() < collide_p * 4 and len(data_of(last[trip])) < 5000:
                d = ['x', collide(data_of(last[trip])).hex()]
            ops.append(['write', name, d, rng.choice(INDEXES)]); last[trip] = d
        elif r < 0.56:
            ops.append(['new', name]); last.setdefault(trip, ['g', 0, 0])
        elif r < 0.66:
            ops.append(['del', name])
        elif r < 0.72:
            ops.append(['has', name])
        elif r < 0.80:
            ops.append(_gen_save(rng)); flushed = flushed or ops[-1] != ['exit', True]
        elif r < 0.84:
            ops.append(['check'])
        else:
            # reopen: usually saved first (write_dirfile or leaving a with block), sometimes not
            if rng.random() < (0.85 if flushed else 0.97):
                ops.append(_gen_save(rng)); flushed = flushed or ops[-1] != ['exit', True]
            mode = rng.choice('rraaw')
            ops.append(['open', mode, rng.choice(LIMITS)])
            ops.append(['check'])
    ops.append(rng.choice([['flush'], ['exit', False]]))
    ops.append(['open', 'r', rng.choice(LIMITS)])
    ops.append(['check'])
    case = {'single': single, 'ops': ops}
    if rng.random() < 0.5:
        case['forms'] = gen_forms(rng)
    return case


def gen_forms(rng):
    """a random way of handing over the same arguments (all accepted by the code as it is today)"""
    return {'path': rng.choice(['str', 'Path', 'PathLike']), 'mode': rng.choice(['str', 'enum']),
            'data': rng.choice(['bytes', 'bytearray']), 'names': rng.choice(['tuple', 'list']),
            'pos': rng.random() < 0.3, 'omit': rng.random() < 0.5}

