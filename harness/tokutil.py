"""Canonical observation of the implementation's Tokenizer, in the shape the Lean driver prints."""
import re

OPT_NAMES = ['string_bracket', 'string_parens', 'allow_escapes', 'allow_star_comments',
             'preserve_comments', 'colon_operator', 'plus_operator']
DEFAULT_OPTS = [False, True, True, False, False, False, False]

_MSGS = [
    (1, re.compile(r'^Reached end of line without closing "\]"!$')),
    (2, re.compile(r'^Cannot nest \[\] brackets!$')),
    (3, re.compile(r'^Unterminated property flag!')),
    (4, re.compile(r'^Cannot nest \(\) brackets!$')),
    (5, re.compile(r'^Unterminated parentheses!$')),
    (6, re.compile(r'^No open \[\] to close with "\]"!$')),
    (7, re.compile(r'^No open \(\) to close with "\)"!$')),
    (8, re.compile(r'^Unexpected character "(.)"!$', re.S)),
    (9, re.compile(r'^Unclosed /\* comment \(starting on line (\d+)\)!$')),
    (10, re.compile(r'^/\*\*/-style comments are not allowed!$')),
    (11, re.compile(r'^Single slash found, instead of two for a comment \((// or /\* \*/|//)\)!$')),
    (12, re.compile(r'^No character to escape!$')),
    (13, re.compile(r'^Unterminated string!$')),
]


def err_code(exc):
    """(id, arg, line) of a TokenSyntaxError, matching Tok.Err.code in the model."""
    mess = exc.mess
    for i, rx in _MSGS:
        m = rx.match(mess)
        if m:
            arg = 0
            if i == 8:
                arg = ord(m.group(1))
            elif i == 9:
                arg = int(m.group(1))
            elif i == 11:
                arg = 1 if '/*' in m.group(1) else 0
            return [i, arg, exc.line_num]
    return [-1, mess, exc.line_num]


def impl_run(Tokenizer, TokenSyntaxError, data, opts, max_calls=None):
    """Tokenize to the first EOF or error. Returns {'toks': [[kind, [cp], line]], 'err': None|[..],
    'exc': None | 'ClassName: text' for a non-TokenSyntaxError exception}."""
    kw = dict(zip(OPT_NAMES, opts))
    tok = Tokenizer(data, None, **kw)
    toks = []
    res = {'toks': toks, 'err': None}
    n = 0
    while True:
        n += 1
        if max_calls is not None and n > max_calls:
            res['exc'] = f'no EOF or error after {max_calls} calls'
            return res
        try:
            k, v = tok()
        except TokenSyntaxError as e:
            res['err'] = err_code(e)
            if type(e) is not TokenSyntaxError:
                res['exc'] = 'subclass ' + type(e).__name__
            return res
        except Exception as e:  # property C03: nothing but TokenSyntaxError may escape
            res['exc'] = f'{type(e).__name__}: {e}'
            return res
        toks.append([k.value, [ord(c) for c in v], tok.line_num])
        if k.value == 0:
            return res


def fold_table(text):
    """casefold pairs for the characters of `text` whose casefold is not the identity."""
    out = []
    for c in sorted(set(text)):
        f = c.casefold()
        if f != c:
            out.append([ord(c), [ord(x) for x in f]])
    return out


def strip_exc(r):
    return {'toks': r['toks'], 'err': r['err']}
