"""C18 — a constrained directory filesystem never reaches outside its root."""
import itertools, os, shutil, tempfile
from common import codes, uncodes, ddmin

PID = 'C18'
GENS = ['fsys']
DRIVERS = ['drv_c18']
PROPS = 'Srctools.Props.C18'
RULE = ("(A) pure path functions: normpath/abspath/component split on ALL strings of length <= 7 over {. / \\ a b}; "
        "join on all pairs of strings of length <= 3; relpath/unify_path on random strings; plus random longer strings. "
        "(B) a real temp tree (root a/root, nested root/root, siblings a/root_evil, a/roo, file a/rootx, ancestor files): "
        "paths = lead x segments x separators, lead in {'', '/', '//', <abs root>, <abs root>/, <abs sibling>/, <abs ancestor>/}, "
        "segments over {.. . root root_evil rootx roo sub in.txt s.txt deep.txt anc.txt nope}, separators / \\ //, exhaustive up to 3 "
        "segments (4 in thorough) + random up to 8; every path is applied to _resolve_path, `in`, fs[p], open_bin, open_str, "
        "fs[p].open_bin(), walk_folder on RawFileSystem (roots a/root, a/root/sub, a/root/root; constrained and not; 9 root spellings) "
        "and to chains with sub-folder prefixes. A case = (configuration, path); non-trivial = the lexical target is outside the root "
        "or the path contains '..', a backslash or an absolute lead; distinct by content.")
TRUSTED = ["model: Path.normpath/join2/abspath/relpath (lean/Srctools/Model/Path.lean) re-state CPython's posixpath; C18.resolve/"
           "walk/chainGet (Model/C18.lean) re-state filesys.py by hand; the containment test's shape is regenerated from the "
           "source by tools/gen_fsys.py",
           "the directory tree is modelled as a list of regular files addressed by component lists: no symlinks, no "
           "mount points, POSIX separators only (ntpath is not modelled)"]
NOT_MODELLED = ['symbolic links (abspath does not resolve them; outside the quantifier)', 'Windows path rules (ntpath, drive letters, UNC)',
                'RawFileSystem._get_cache_key (same _resolve_path guard, tied statically by Gen.Fsys.osCalls)']
ASSUMPTIONS = ['os.getcwd() is absolute', 'no symlinks inside the tree', 'POSIX os.path']

ALPHA = './\\ab'
SEGS = ['..', '.', 'root', 'root_evil', 'rootx', 'roo', 'sub', 'in.txt', 's.txt', 'deep.txt', 'anc.txt', 'nope']
SEPS = ['/', '\\', '//']
LEADS = ['', '/', '//', '<ROOT>', '<ROOT>/', '<EVIL>/', '<A>/', '<T>/']
# files of the temp tree (relative to T) -> id
FILES = ['top.txt', 'a/anc.txt', 'a/rootx', 'a/roo/short.txt', 'a/root/in.txt', 'a/root/sub/deep.txt', 'a/root/sub/in.txt',
         'a/root/root/nested.txt', 'a/root/root/in.txt', 'a/root_evil/s.txt', 'a/root_evil/in.txt', 'a/root_evil/sub/deep.txt',
         'a/root/sub/root_evil/s.txt']
WALK_CAP = 60


# ----------------------------------------------------------------------------------------- the tree

class Tree:
    def __init__(self):
        self.T = os.path.realpath(tempfile.mkdtemp(prefix='c18_'))
        self.ids = {}
        for i, rel in enumerate(FILES):
            p = os.path.join(self.T, rel)
            os.makedirs(os.path.dirname(p), exist_ok=True)
            with open(p, 'w') as f:
                f.write(f'id={i}\n')
            self.ids[p] = i
        os.makedirs(os.path.join(self.T, 'a/root/empty'), exist_ok=True)
        self.sym = {'<T>': self.T, '<T1>': self.T.lstrip('/'), '<A>': self.T + '/a', '<ROOT>': self.T + '/a/root', '<EVIL>': self.T + '/a/root_evil'}

    def subst(self, s):
        if s.startswith('<BS>'):        # every separator written as a backslash, also inside the absolute prefix
            return self.subst(s[4:]).replace('/', '\\')
        for k, v in self.sym.items():
            s = s.replace(k, v)
        return s

    def model_tree(self):
        return [[[codes(c) for c in p.split('/') if c], i] for p, i in self.ids.items()]

    def close(self):
        shutil.rmtree(self.T, ignore_errors=True)


def inside(root_real, loc):
    return loc == root_real or loc.startswith(root_real.rstrip('/') + '/')


def _err(e, RootEscapeError):
    if isinstance(e, RootEscapeError):
        return 'escape'
    if isinstance(e, (FileNotFoundError, IsADirectoryError, NotADirectoryError)):
        return 'notfound'
    return f'exc:{type(e).__name__}'


def _read_id(h):
    with h:
        d = h.read()
    if isinstance(d, bytes):
        d = d.decode()
    return int(d.strip()[3:])


# ----------------------------------------------------------------------------------------- path generation

def gen_paths(ctx):
    """Symbolic paths (strings with <ROOT> etc.)."""
    out = []
    nseg = ctx.budget(3, 4)
    for lead in LEADS:
        out.append(lead)
        for n in range(1, nseg + 1):
            # all separator combinations up to 2 segments, uniform separators beyond
            if n <= 2:
                sepsets = list(itertools.product(SEPS, repeat=n - 1))
            else:
                sepsets = [tuple([s] * (n - 1)) for s in SEPS[:2]]
            if lead not in ('', '/', '<ROOT>', '<EVIL>/') and n > ctx.budget(2, 3):
                continue
            for segs in itertools.product(SEGS, repeat=n):
                if n >= 3 and not ({'..', 'root_evil', 'rootx', 'roo'} & set(segs)):
                    continue
                for seps in sepsets:
                    s = lead + segs[0] + ''.join(sp + sg for sp, sg in zip(seps, segs[1:]))
                    out.append(s)
    # glued leads: "<ROOT>" immediately followed by text (extends the root's name)
    for tail in ['_evil', '_evil/s.txt', '_evil/sub', 'x', '/../root_evil/s.txt', '/..', '/.', '//', '/sub/../../root_evil/in.txt',
                 '\\..\\root_evil\\s.txt', '_evil\\s.txt']:
        out.append('<ROOT>' + tail)
    rng = ctx.rng
    # every real file, addressed from every root of RAW_CONFIGS, relatively and absolutely, with decorations
    import posixpath
    for rel in FILES:
        for root_rel in ('a/root', 'a/root/sub', 'a/root/root'):
            r = posixpath.relpath('/' + rel, '/' + root_rel)
            forms = [r, '<T>/' + rel, '\\<T1>/' + rel, '<BS><T>/' + rel, '\\\\<T1>/' + rel, '<BS><T>/' + posixpath.dirname(rel), './' + r, r.replace('/', '\\'), r.replace('/', '//'), 'sub/../' + r, 'nope/../' + r,
                     r + '/', r + '/.', r + '/..', '<ROOT>/' + r, '<ROOT>/./' + r, r.replace('../', '.././'), '/' + r,
                     posixpath.dirname(r), posixpath.dirname(r) + '/', posixpath.dirname(r).replace('/', '\\')]
            out.extend(forms)
            for _ in range(ctx.budget(3, 12)):
                parts = r.split('/')
                i = rng.randrange(0, len(parts) + 1)
                parts[i:i] = [rng.choice(['.', 'sub/..', 'nope/..', '', 'root/..', '../root', '../root_evil/..', 'nope\\x/..', '..\\roo/..',
                                          'sub\\../..', '..\\..'])]
                x = rng.random()
                if x < 0.3:
                    out.append(rng.choice(['/', '\\', '//']).join(parts))
                elif x < 0.6:
                    out.append('/'.join(parts))
                else:
                    out.append(parts[0] + ''.join(rng.choice(SEPS) + q for q in parts[1:]))
    for _ in range(ctx.budget(4000, 60000)):
        n = rng.randrange(1, 9)
        s = rng.choice(LEADS)
        for i in range(n):
            if i:
                s += rng.choice(SEPS)
            s += rng.choice(SEGS) if rng.random() < 0.9 else ''.join(rng.choice(ALPHA) for _ in range(rng.randrange(0, 4)))
        if rng.random() < 0.2:
            s += rng.choice(SEPS)
        out.append(s)
    seen, res = set(), []
    for s in out:
        if s not in seen:
            seen.add(s)
            res.append(s)
    return res


# ----------------------------------------------------------------------------------------- implementation observations

def obs_raw(fsmod, fs, p, tree):
    """Observations of one path on a RawFileSystem, in the shape of the driver's reply, plus `loc`:
    real locations of everything that was handed out (for the direct property check)."""
    REE = fsmod.RootEscapeError
    o, locs = {}, []

    def call(key, fn):
        try:
            o[key] = fn()
        except Exception as e:
            o[key] = _err(e, REE)

    def resolve():
        q = fs._resolve_path(p)
        locs.append(('resolve', os.path.realpath(q)))
        return codes(q)
    call('resolve', resolve)
    call('exists', lambda: bool(p in fs))

    def get():
        f = fs[p]
        locs.append(('get', os.path.realpath(os.path.join(fs.path, f.path))))
        return codes(f.path)
    call('get', get)

    def open_bin():
        h = fs.open_bin(p)
        locs.append(('open_bin', os.path.realpath(h.name)))
        return _read_id(h)
    call('open', open_bin)

    def open_str():
        h = fs.open_str(p)
        locs.append(('open_str', os.path.realpath(h.name)))
        return _read_id(h)
    call('open_str', open_str)

    def getopen():
        h = fs[p].open_bin()
        locs.append(('getopen', os.path.realpath(h.name)))
        return _read_id(h)
    call('getopen', getopen)

    def walk():
        res = []
        for f in itertools.islice(fs.walk_folder(p), WALK_CAP):
            loc = os.path.realpath(os.path.join(fs.path, f.path))
            locs.append(('walk', loc))
            res.append([codes(f.path), tree.ids.get(loc, -1)])
        if len(res) >= WALK_CAP:
            return 'overflow'
        return sorted(res)
    call('walk', walk)
    return o, locs


def obs_chain(fsmod, chain, p, tree):
    REE = fsmod.RootEscapeError
    o, locs = {}, []

    def call(key, fn):
        try:
            o[key] = fn()
        except Exception as e:
            o[key] = _err(e, REE)

    def get():
        f = chain[p]
        inner = f._data
        return [codes(f.path), codes(inner.path)]
    call('get', get)

    def op():
        h = chain.open_bin(p)
        locs.append(('chain.open_bin', os.path.realpath(h.name)))
        return _read_id(h)
    call('open', op)

    def exists():
        return bool(p in chain)
    call('exists', exists)

    def walker(meth):
        def run():
            res = []
            for f in itertools.islice(meth(p), WALK_CAP):
                try:
                    h = f.open_bin()
                    locs.append(('chain.walk', os.path.realpath(h.name)))
                    r = _read_id(h)
                except Exception as e:
                    r = _err(e, REE)
                res.append([codes(f.path), r])
            if len(res) >= WALK_CAP:
                return 'overflow'
            return res
        return run
    call('walkrep', walker(chain.walk_folder_repeat))
    call('walk', walker(chain.walk_folder))
    return o, locs


def canon_model_raw(m):
    m = dict(m)
    if isinstance(m.get('walk'), list):
        m['walk'] = sorted(m['walk'])
    return m


def canon_chain(o):
    o = dict(o)
    for k in ('walkrep',):
        if isinstance(o.get(k), list):
            o[k] = sorted(o[k], key=lambda x: (x[0], str(x[1])))
    if isinstance(o.get('walk'), list):
        # de-duplicated walk: which duplicate survives depends on directory listing order -> compare path sets
        o['walk'] = sorted(x[0] for x in o['walk'])
    return o


# ----------------------------------------------------------------------------------------- configurations

ROOT_SPELLINGS = [  # (cwd relative to T or None, spelling with symbols) — all name a/root
    (None, '<ROOT>'), (None, '<ROOT>/'), (None, '<ROOT>//'), (None, '<ROOT>/.'), (None, '<ROOT>/sub/..'),
    ('a', 'root'), ('a', 'root/'), ('a', './root'), ('a/root', '.'), ('a/root/sub', '..'), (None, '<A>/./root'),
    (None, '/' + '<ROOT>'),
]
RAW_CONFIGS = [  # (root rel to T, constrain)
    ('a/root', True), ('a/root/sub', True), ('a/root/root', True), ('a/root', False),
]
CHAIN_CONFIGS = [  # list of (root rel to T, prefix)
    [('a/root', 'sub')], [('a/root', 'sub/')], [('a/root', '')], [('a/root', 'root')], [('a/root', '../root_evil')],
    [('a/root', 'sub\\')], [('a/root/sub', ''), ('a/root', '')], [('a/root', 'sub'), ('a/root/root', '')],
    [('a/root', 'nope'), ('a/root', 'sub')],
]


def nontrivial(p):
    return '..' in p or '\\' in p or p.startswith('/') or p.startswith('<')


def _outside(root, p):
    tgt = os.path.normpath(os.path.join(root, p))
    rc = [c for c in root.split('/') if c]
    tc = [c for c in tgt.split('/') if c]
    return tc[:len(rc)] != rc


def lexical_outside(root, p):
    """The property's own notion, stated with os.path: the lexical target of root/p is outside root — whether a
    backslash is read as a separator (as the module documents) or as a name character (as POSIX does)."""
    return _outside(root, p) and _outside(root, p.replace('\\', '/'))


def exists_inside(root, p):
    """Some reading of p names an existing regular file inside root."""
    for q in (p, p.replace('\\', '/')):
        if not _outside(root, q) and os.path.isfile(os.path.normpath(os.path.join(root, q))):
            return True
    return False


def check_property(ctx, cfg, sym_p, root_real, o, locs, op_keys):
    """The property on the implementation: everything handed out lies inside the root."""
    for op, loc in locs:
        if not inside(root_real, loc):
            ctx.witness('root-escape', f'{op}({sym_p!r}) on a constrained filesystem rooted at {cfg} handed out {loc.replace(ctx_T(ctx), "<T>")} '
                        f'which is outside the root', {'config': cfg, 'path': sym_p, 'op': op})


def ctx_T(ctx):
    return ctx.extra.get('_T', '\0')


def run_fs(ctx, drv, tree, fsmod):
    T = tree.T
    ctx.extra['_T'] = T
    paths = gen_paths(ctx)
    mt = tree.model_tree()
    cwd0 = os.getcwd()
    reqs, pend = [], []
    try:
        # --- root spellings: same self.path, a reduced path set
        small = [p for p in paths if len(p) < 40][:400] + ['../root_evil/s.txt', '<ROOT>_evil/s.txt', '..\\root_evil\\s.txt']
        for cwd_rel, spelling in ROOT_SPELLINGS:
            cwd = os.path.join(T, cwd_rel) if cwd_rel else T
            os.chdir(cwd)
            fs = fsmod.RawFileSystem(tree.subst(spelling))
            root_real = os.path.realpath(os.path.join(cwd, tree.subst(spelling)))
            cfg = {'kind': 'raw', 'cwd': cwd_rel, 'root': spelling, 'constrain': True}
            obs = []
            for sp in small:
                p = tree.subst(sp)
                o, locs = obs_raw(fsmod, fs, p, tree)
                check_property(ctx, cfg, sp, root_real, o, locs, None)
                obs.append(o)
                ctx.case({'cfg': cfg, 'p': sp}, nontrivial=nontrivial(sp), sample_every=4001)
                ctx.count('raw:spelling')
            reqs.append({'op': 'fs', 'kind': None, 'cwd': codes(cwd), 'tree': mt, 'chain': False, 'fold': [],
                         'members': [{'root': codes(tree.subst(spelling)), 'constrain': True, 'pfx': []}],
                         'paths': [codes(tree.subst(sp)) for sp in small]})
            pend.append((cfg, small, obs, codes(fs.path), False))
        os.chdir(T)
        # --- full path set on the main configurations
        for root_rel, constrain in RAW_CONFIGS:
            root = os.path.join(T, root_rel)
            fs = fsmod.RawFileSystem(root, constrain)
            cfg = {'kind': 'raw', 'root': root_rel, 'constrain': constrain}
            use = paths if root_rel == 'a/root' and constrain else paths[::3]
            obs = []
            for sp in use:
                p = tree.subst(sp)
                if not constrain and not (inside(T, os.path.normpath(os.path.join(root, p)))
                                          and inside(T, os.path.normpath(os.path.join(root, p.replace('\\', '/'))))):
                    continue   # never walk the machine's whole file system
                o, locs = obs_raw(fsmod, fs, p, tree)
                if constrain:
                    check_property(ctx, cfg, sp, root, o, locs, None)
                    out = lexical_outside(root, p)
                    ctx.count('raw:target-outside' if out else 'raw:target-inside')
                    if o['exists'] is True and not exists_inside(root, p):
                        ctx.witness('root-escape', f'{sp!r} in <constrained filesystem rooted at {root_rel}> is True but no reading of the path names a file inside the root',
                                    {'config': cfg, 'path': sp, 'op': 'exists'})
                    for k, v in o.items():
                        if out and v != 'escape':
                            ctx.witness('root-escape', f'{k}({sp!r}) on a constrained filesystem rooted at {root_rel}: the path names '
                                        f'{os.path.normpath(os.path.join(root, p)).replace(T, "<T>")} outside the root but no RootEscapeError was raised (got {short(v)})',
                                        {'config': cfg, 'path': sp, 'op': k})
                            break
                for k, v in o.items():
                    ctx.count(f'raw:{k}:' + ('escape' if v == 'escape' else 'notfound' if v == 'notfound' else v if isinstance(v, str) else 'ok'))
                obs.append((sp, o))
                ctx.case({'cfg': cfg, 'p': sp}, nontrivial=nontrivial(sp), sample_every=7919)
            reqs.append({'op': 'fs', 'kind': None, 'cwd': codes(T), 'tree': mt, 'chain': False, 'fold': [],
                         'members': [{'root': codes(root), 'constrain': constrain, 'pfx': []}],
                         'paths': [codes(tree.subst(sp)) for sp, _ in obs]})
            pend.append((cfg, [sp for sp, _ in obs], [o for _, o in obs], codes(fs.path), False))
        # --- chains
        cpaths = [p for p in paths if len(p) < 60][::ctx.budget(12, 4)] + ['../root_evil/s.txt', '../../root_evil/s.txt', 'in.txt', 'deep.txt', '',
                                                                          '..\\..\\root_evil\\s.txt', '..', '../in.txt']
        for members in CHAIN_CONFIGS:
            chain = fsmod.FileSystemChain(*[(fsmod.RawFileSystem(os.path.join(T, r)), pf) for r, pf in members])
            cfg = {'kind': 'chain', 'members': members}
            roots_real = [os.path.join(T, r) for r, _ in members]
            obs = []
            for sp in cpaths:
                p = tree.subst(sp)
                o, locs = obs_chain(fsmod, chain, p, tree)
                for op, loc in locs:
                    if not any(inside(r, loc) for r in roots_real):
                        ctx.witness('root-escape', f'{op}({sp!r}) on a chain over constrained filesystems {members} handed out '
                                    f'{loc.replace(T, "<T>")} which is outside every member root', {'config': cfg, 'path': sp, 'op': op})
                    elif len(members) == 1 and members[0][1] and not lexical_outside(roots_real[0], members[0][1]):
                        sub = os.path.normpath(os.path.join(roots_real[0], members[0][1].replace('\\', '/')))
                        ctx.count('chain:inside-root-but-outside-subfolder' if not inside(sub, loc) else 'chain:inside-subfolder')
                obs.append(o)
                ctx.case({'cfg': cfg, 'p': sp}, nontrivial=nontrivial(sp), sample_every=3001)
                for k, v in o.items():
                    ctx.count(f'chain:{k}:' + ('escape' if v == 'escape' else 'notfound' if v == 'notfound' else v if isinstance(v, str) else 'ok'))
            reqs.append({'op': 'fs', 'kind': None, 'cwd': codes(T), 'tree': mt, 'chain': True, 'fold': [],
                         'members': [{'root': codes(os.path.join(T, r)), 'constrain': True, 'pfx': codes(pf)} for r, pf in members],
                         'paths': [codes(tree.subst(sp)) for sp in cpaths]})
            pend.append((cfg, cpaths, obs, None, True))
    finally:
        os.chdir(cwd0)
    if drv is None:
        return
    replies = drv.batch(reqs)
    for (cfg, sps, obs, root_codes, is_chain), rep in zip(pend, replies):
        if 'error' in rep:
            ctx.disagree(cfg, None, rep, 'driver error')
            continue
        if not is_chain and rep['root'] != root_codes:
            ctx.disagree(cfg, uncodes(root_codes), uncodes(rep['root']), 'RawFileSystem.path')
        for sp, o, m in zip(sps, obs, rep['obs']):
            ctx.traces_vs_impl += 1
            if is_chain:
                oo = canon_chain({k: v for k, v in o.items() if k != 'exists'})
                mm = canon_chain(m)
                ex = (m['get'] != 'notfound') if m['get'] != 'escape' else 'escape'
                if o['exists'] != ex:
                    ctx.disagree({'cfg': cfg, 'p': sp}, o['exists'], ex, 'name in chain')
            else:
                oo = {k: v for k, v in o.items() if k != 'open_str'}
                mm = canon_model_raw(m)
                if o['open_str'] != o['open']:
                    ctx.disagree({'cfg': cfg, 'p': sp}, o['open_str'], o['open'], 'open_str vs open_bin')
            if oo != mm:
                keys = [k for k in mm if oo.get(k) != mm.get(k)]
                ctx.disagree({'cfg': cfg, 'p': sp}, {k: short(oo.get(k)) for k in keys}, {k: short(mm.get(k)) for k in keys},
                             'filesystem observation ' + ','.join(keys))


def short(v):
    if isinstance(v, list) and v and all(isinstance(x, int) for x in v):
        return uncodes(v)
    if isinstance(v, list):
        return [short(x) for x in v]
    return v


# ----------------------------------------------------------------------------------------- pure path functions

def run_pure(ctx, drv):
    import posixpath
    from srctools.packlist import unify_path
    L = 7
    strings = [''.join(t) for n in range(0, L + 1) for t in itertools.product(ALPHA, repeat=n)]
    rng = ctx.rng
    big = 'abAB./\\. _-é'
    for _ in range(ctx.budget(20000, 300000)):
        n = rng.randrange(8, 40)
        if rng.random() < 0.7:
            strings.append(''.join(rng.choice(ALPHA) for _ in range(n)))
        else:
            strings.append(''.join(rng.choice(big) if rng.random() < 0.7 else rng.choice(['/', '../', './', '//', '\\']) for _ in range(n)))
    ctx.extra['exhaustive_part'] = f'normpath/abspath/comps: all {5 ** 8 // 4} strings of length <= {L} over {{. / \\ a b}}; join: all pairs of strings of length <= 3'
    cwd0 = os.getcwd()
    cwds = ['/x/y', '/', '//x', cwd0][:ctx.budget(2, 4)]
    reqs = []
    for cwd in cwds:
        reqs.append({'op': 'path', 'cwd': codes(cwd), 's': [codes(s) for s in strings]})
    shorts = [''.join(t) for n in range(0, 4) for t in itertools.product(ALPHA, repeat=n)]
    pairs = [(a, b) for a in shorts for b in shorts]
    for _ in range(ctx.budget(5000, 50000)):
        pairs.append((rng.choice(strings), rng.choice(strings)))
    reqs.append({'op': 'join', 'pairs': [[codes(a), codes(b)] for a, b in pairs]})
    rel_pairs = [(rng.choice(strings[:20000]), rng.choice(shorts + strings[:3000])) for _ in range(ctx.budget(20000, 100000))]
    reqs.append({'op': 'relpath', 'cwd': codes('/x/y'), 'pairs': [[codes(a), codes(b)] for a, b in rel_pairs]})
    ustr = strings[:ctx.budget(30000, 97656)] + strings[97656:][:20000]
    fold = sorted({c for s in ustr for c in s if c.casefold() != c})
    reqs.append({'op': 'unify', 'fold': [[ord(c), codes(c.casefold())] for c in fold], 's': [codes(s) for s in ustr]})
    if drv is None:
        return
    reps = drv.batch(reqs)
    real_getcwd = os.getcwd
    try:
        for cwd, rep in zip(cwds, reps):
            os.getcwd = lambda cwd=cwd: cwd          # abspath reads the current directory through os.getcwd
            for s, m in zip(strings, rep):
                impl = {'norm': codes(posixpath.normpath(s)), 'abs': codes(os.path.abspath(s)),
                        'comps': [codes(c) for c in s.split('/') if c]}
                ctx.case({'fn': 'normpath/abspath', 'cwd': cwd, 's': s}, nontrivial=('.' in s or '//' in s), sample_every=49999)
                if impl != m:
                    ctx.disagree({'fn': 'normpath/abspath/comps', 'cwd': cwd, 's': s}, {k: uncodes(v) if k != 'comps' else v for k, v in impl.items()},
                                 {k: uncodes(v) if k != 'comps' else v for k, v in m.items()}, 'pure path function')
            ctx.count('pure:normpath/abspath', len(strings))
        os.getcwd = lambda: '/x/y'
        rep = reps[len(cwds)]
        for (a, b), m in zip(pairs, rep):
            r = os.path.join(a, b)
            ctx.case({'fn': 'join', 'a': a, 'b': b}, nontrivial=True, sample_every=29989)
            if codes(r) != m:
                ctx.disagree({'fn': 'join', 'a': a, 'b': b}, r, uncodes(m), 'os.path.join')
        ctx.count('pure:join', len(pairs))
        rep = reps[len(cwds) + 1]
        for (a, b), m in zip(rel_pairs, rep):
            try:
                r = codes(os.path.relpath(a, b))
            except ValueError:
                r = None
            ctx.case({'fn': 'relpath', 'a': a, 'b': b}, nontrivial=True, sample_every=29989)
            if r != m:
                ctx.disagree({'fn': 'relpath', 'path': a, 'start': b}, short(r), short(m), 'os.path.relpath')
        ctx.count('pure:relpath', len(rel_pairs))
        rep = reps[len(cwds) + 2]
        for s, m in zip(ustr, rep):
            try:
                r = codes(unify_path(s))
            except ValueError:
                r = None
            ctx.case({'fn': 'unify_path', 's': s}, nontrivial='..' in s, sample_every=29989)
            ctx.count('pure:unify:' + ('rejected' if r is None else 'ok'))
            if r != m:
                ctx.disagree({'fn': 'unify_path', 's': s}, short(r), short(m), 'packlist.unify_path')
            if r is not None:
                q = uncodes(r)
                if '..' in q.split('/')[:-1] or q.startswith('/'):
                    ctx.witness('unify-escape', f'unify_path({s!r}) = {q!r} still contains a parent reference before its last component', {'s': s})
    finally:
        os.getcwd = real_getcwd


# ----------------------------------------------------------------------------------------- entry points

def correspond(ctx, drivers):
    import srctools.filesys as fsmod
    drv = drivers['drv_c18']
    kind = drv.batch([{'op': 'kind'}])[0]
    ctx.extra['containment_test_in_source'] = kind
    ctx.notes.append(f'containment test of _resolve_path as extracted from the source: {kind}')
    run_pure(ctx, drv)
    tree = Tree()
    try:
        run_fs(ctx, drv, tree, fsmod)
    finally:
        tree.close()
    ctx.extra.pop('_T', None)
    ctx.extra['_ran_fs'] = True


def _fails(fsmod, tree, cfg, sym_path, op):
    """Does `op(path)` on configuration cfg hand out something outside the root(s)?"""
    T = tree.T
    p = tree.subst(sym_path)
    cwd0 = os.getcwd()
    try:
        if cfg['kind'] == 'raw':
            if 'cwd' in cfg:
                cwd = os.path.join(T, cfg['cwd']) if cfg['cwd'] else T
                os.chdir(cwd)
                fs = fsmod.RawFileSystem(tree.subst(cfg['root']))
                root = os.path.realpath(os.path.join(cwd, tree.subst(cfg['root'])))
            else:
                os.chdir(T)
                root = os.path.join(T, cfg['root'])
                fs = fsmod.RawFileSystem(root, cfg.get('constrain', True))
            o, locs = obs_raw(fsmod, fs, p, tree)
            key = {'open_bin': 'open'}.get(op, op)
            if any(not inside(root, loc) for k, loc in locs if k == op):
                return True
            if op == 'exists' and o['exists'] is True and not exists_inside(root, p):
                return True
            return lexical_outside(root, p) and o.get(key, 'escape') != 'escape'
        else:
            os.chdir(T)
            members = [tuple(m) for m in cfg['members']]
            chain = fsmod.FileSystemChain(*[(fsmod.RawFileSystem(os.path.join(T, r)), pf) for r, pf in members])
            o, locs = obs_chain(fsmod, chain, p, tree)
            roots = [os.path.join(T, r) for r, _ in members]
            return any(not any(inside(r, loc) for r in roots) for _, loc in locs)
    finally:
        os.chdir(cwd0)


def _tokens(s):
    import re
    return [t for t in re.split(r'(<[A-Z0-9]+>|/|\\)', s) if t]


# ----------------------------------------------------------------------------------------- Unicode twin roots
# Roots whose name has a sibling that is "the same" under some text normalisation (NFC/NFD, case folding,
# compatibility forms) but a different directory on a byte-exact filesystem: a containment test that
# compares normalised text while the OS call uses the raw text lets requests into the sibling through.
UNI_TWINS = [('caf\u00e9', 'cafe\u0301'), ('cafe\u0301', 'caf\u00e9'), ('Stra\u00dfe', 'Strasse'), ('strasse', 'STRASSE'),
             ('\uff52oot', 'root'), ('root', '\uff52oot'), ('\u03c3\u03b1\u03c3', '\u03c3\u03b1\u03c2'), ('\u212b', '\u00c5'),
             ('\ufb01le', 'file'), ('ro\u0131t', 'roit')]


def _twin_paths(base, root, sib):
    out = []
    for leaf in ('secret.txt', 'sub/secret.txt'):
        for pre in ('../', 'sub/../../', './../', '../../' + os.path.basename(os.path.dirname(root)) + '/', root + '/../', os.path.dirname(root) + '/'):
            q = pre + sib + '/' + leaf
            out += [q, q.replace('/', '\\'), '/' + q if not q.startswith('/') else q]
    return out


def _make_twin_tree():
    base = os.path.realpath(tempfile.mkdtemp(prefix='c18u_'))
    ok = []
    for k, (rootname, sib) in enumerate(UNI_TWINS):
        try:
            for d, leafs in ((rootname, ['in.txt', 'sub/in.txt']), (sib, ['secret.txt', 'sub/secret.txt'])):
                for leaf in leafs:
                    p = os.path.join(base, 'd%d' % k, d, leaf)
                    os.makedirs(os.path.dirname(p), exist_ok=True)
                    with open(p, 'w') as f:
                        f.write('SECRET\n' if 'secret' in leaf else 'in\n')
            if len(os.listdir(os.path.join(base, 'd%d' % k))) == 2:      # the filesystem keeps the two names apart
                ok.append(k)
        except OSError:
            pass
    return base, ok


def unicode_twin_roots(ctx, fsmod):
    base, ok = _make_twin_tree()
    try:
        for k in ok:
            rootname, sib = UNI_TWINS[k]
            sub = os.path.join(base, 'd%d' % k)
            for path in _twin_paths(sub, os.path.join(sub, rootname), sib):
                for op in ('resolve', 'exists', 'open_str', 'getopen', 'walk'):
                    ctx.count('search:unicode-twin ' + op)
                    if _twin_fails_at(fsmod, sub, rootname, sib, path, op):
                        ctx.witness('root-escape-unicode-twin',
                                    f'{op}({path.replace(base, "<T>")!r}) on a constrained filesystem rooted at <T>/d{k}/{rootname!r} reached the sibling '
                                    f'directory {sib!r} (same text under a Unicode normalisation, a different directory on disk)',
                                    {'unicode_twin': k, 'path': path.replace(base, '<T>'), 'op': op})
                        break
    finally:
        shutil.rmtree(base, ignore_errors=True)


def _twin_fails_at(fsmod, sub, rootname, sib, path, op):
    root = os.path.join(sub, rootname)
    root_real = os.path.realpath(root)
    fs = fsmod.RawFileSystem(root, constrain_path=True)
    try:
        if op == 'resolve':
            return not inside(root_real, os.path.realpath(fs._resolve_path(path)))
        if op == 'exists':
            return bool(path in fs)
        if op == 'open_str':
            with fs.open_str(path) as f:
                return 'SECRET' in f.read()
        if op == 'getopen':
            with fs[path].open_bin() as f:
                return b'SECRET' in f.read()
        if op == 'walk':
            return any('secret' in f.path for f in itertools.islice(fs.walk_folder(path.rsplit('/', 1)[0] if '/' in path else ''), WALK_CAP))
    except Exception:
        return False
    return False


def search(ctx):
    """Direct statement of the property on the implementation. The scan itself runs inside correspond (same
    inputs); when the driver is missing it runs here without the model. Then the first witness is shrunk."""
    import srctools.filesys as fsmod
    if not ctx.extra.pop('_ran_fs', False):
        tree = Tree()
        try:
            run_fs(ctx, None, tree, fsmod)
        finally:
            tree.close()
        ctx.extra.pop('_T', None)
    try:
        unicode_twin_roots(ctx, fsmod)
    except Exception as e:
        ctx.notes.append(f'unicode twin roots probe could not run: {type(e).__name__}: {e}')
    ws = [w for w in ctx.witnesses if w['key'] == 'root-escape']
    if ws:
        tree = Tree()
        try:
            # prefer the shortest witness, then shrink it token-wise
            pref = {'open_bin': 0, 'open_str': 0, 'getopen': 0, 'chain.open_bin': 1, 'walk': 2, 'chain.walk': 2, 'get': 3}
            w = min(ws, key=lambda w: (pref.get(w['input']['op'], 4), len(w['input']['path'])))
            cfg, op = w['input']['config'], w['input']['op']
            toks = _tokens(w['input']['path'])
            if _fails(fsmod, tree, cfg, ''.join(toks), op):
                small = ddmin(toks, lambda ts: _fails(fsmod, tree, cfg, ''.join(ts), op))
                w['input']['shrunk'] = ''.join(small)
                w['what'] += f" (shrunk path: {''.join(small)!r})"
            ctx.witnesses.remove(w)
            ctx.witnesses.insert(0, w)
        finally:
            tree.close()


def replay(ctx, payload):
    import srctools.filesys as fsmod
    inp = payload.get('input') or {}
    if 'unicode_twin' in inp:
        base, ok = _make_twin_tree()
        try:
            k = inp['unicode_twin']
            rootname, sib = UNI_TWINS[k]
            bad = k in ok and _twin_fails_at(fsmod, os.path.join(base, 'd%d' % k), rootname, sib, inp['path'].replace('<T>', base), inp['op'])
            print('root', repr(rootname), 'sibling', repr(sib), inp['op'], repr(inp['path']), '->',
                  'reached the sibling directory outside the root' if bad else 'stayed inside the root or raised RootEscapeError')
            return not bad
        finally:
            shutil.rmtree(base, ignore_errors=True)
    if 'path' not in inp:
        if 's' in inp:
            from srctools.packlist import unify_path
            try:
                q = unify_path(inp['s'])
            except ValueError:
                return True
            print('unify_path', repr(inp['s']), '->', repr(q))
            return '..' not in q.split('/')[:-1]
        print('replay file names a broken obligation/correspondence, no input to replay:', payload.get('broken_obligations') or payload.get('broken'),
              payload.get('disagreements', [])[:1])
        return False
    tree = Tree()
    try:
        path = inp.get('shrunk') or inp['path']
        bad = _fails(fsmod, tree, inp['config'], path, inp['op'])
        print('configuration', inp['config'], 'path', repr(path), '->', 'handed out / accepted something outside the root' if bad else 'stayed inside the root or raised RootEscapeError')
        return not bad
    finally:
        tree.close()


LEVEL_TEXT = ("Theorems proved in Lean for every root, path and tree: C18_normal / C18_normal_comps (normal form of normpath: at most two leading "
              "slashes, '..' only leading and only for relative paths, no '.', no empty component), C18_contain (an accepted path has the root's "
              "components as a prefix and no '..' after it, for the separator-terminated test), C18_exists / C18_open / C18_get_open / C18_walk / "
              "C18_chain / C18_chain_walk (every file found, opened or walked, also through a chain with sub-folder prefixes, lies below the "
              "root), C18_get_consistent (the File handed out names the location that was tested), C18_accepts + C18_root_normal (completeness: "
              "clean relative names are never rejected), C18_unify (unify_path), and the two defects as model facts: C18_prefix_bug (the "
              "string-prefix test accepts ../root_evil/s) and C18_get_mismatch_bug. C18_gen_ok re-checks on every run that the source uses the "
              "separator-terminated test with slash folding and that every OS call of RawFileSystem is guarded by _resolve_path. Model tied to "
              "the code by exhaustive/random differential runs against os.path and against RawFileSystem/FileSystemChain on a real temp tree.")
LEVEL_NOTE = ("Trusted: Lean kernel + propext/Classical.choice/Quot.sound; tools/gen_fsys.py; the correspondence harness. Lexical model: "
              "symlinks, Windows ntpath and mount points are not modelled; CPython's posixpath is modelled, not verified.")
TECHNIQUE = "Lean 4 proof by induction over the component list (normpath stack invariant) + translator for the containment test + differential correspondence on a real directory tree"
DESIGN_REF = "DESIGN.md section 6, C18"
