"""Watchdog for calls into the implementation (C03: totality must be REPORTED, never waited for).

`with limit(seconds): ...` raises Watchdog (a BaseException, so that `except Exception` in the code under test does not
swallow it) in the main thread of the current process when the block burns more than `seconds` of PROCESS CPU TIME
(ITIMER_PROF — a loop that does not end burns CPU; a process that is merely descheduled on a loaded machine does not),
or takes more than WALL_FACTOR x seconds of wall clock (ITIMER_REAL, backstop). The cyclic garbage collector is switched
off inside the window (a full collection of the harness's own heap can take seconds and is not the callee's fault).
`retrying(fn, seconds)` runs fn() under the limit and, when the watchdog fires, once more under a larger limit: only a
second hit counts as non-termination. One handler installation per process."""
import contextlib
import gc
import os
import signal
import threading

WALL_FACTOR = 15
_installed = {}


class Watchdog(BaseException):
    pass


def _handler(signum, frame):
    raise Watchdog()


def _install():
    pid = os.getpid()
    if _installed.get('pid') != pid:
        signal.signal(signal.SIGALRM, _handler)
        signal.signal(signal.SIGPROF, _handler)
        _installed.clear()
        _installed['pid'] = pid


def arm(seconds):
    """Cheap form for hot loops (main thread only): arm(...) … disarm() in a finally."""
    _install()
    _installed['gc'] = gc.isenabled()
    gc.disable()
    signal.setitimer(signal.ITIMER_PROF, seconds)
    signal.setitimer(signal.ITIMER_REAL, seconds * WALL_FACTOR)


def disarm():
    signal.setitimer(signal.ITIMER_PROF, 0)
    signal.setitimer(signal.ITIMER_REAL, 0)
    if _installed.get('gc'):
        gc.enable()


@contextlib.contextmanager
def limit(seconds):
    if threading.current_thread() is not threading.main_thread():
        yield                      # signals only reach the main thread: no guard possible here
        return
    arm(seconds)
    try:
        yield
    finally:
        disarm()


def retrying(fn, seconds, retry_factor=3):
    """(True, fn()) or (False, None) when fn() exceeded the limit and then also retry_factor x the limit."""
    for lim in (seconds, seconds * retry_factor):
        try:
            with limit(lim):
                return True, fn()
        except Watchdog:
            continue
    return False, None
