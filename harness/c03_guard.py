"""Wall-clock watchdog for calls into the implementation (C03: totality must be REPORTED, never waited for).

`with limit(seconds): ...` raises Watchdog (a BaseException, so that `except Exception` in the code under test does not
swallow it) in the main thread of the current process when the block runs longer. One SIGALRM handler per process."""
import contextlib
import os
import signal
import threading

_installed = {}


class Watchdog(BaseException):
    pass


def _handler(signum, frame):
    raise Watchdog()


def _install():
    pid = os.getpid()
    if _installed.get('pid') != pid:
        signal.signal(signal.SIGALRM, _handler)
        _installed.clear()
        _installed['pid'] = pid


@contextlib.contextmanager
def limit(seconds):
    if threading.current_thread() is not threading.main_thread():
        yield                      # signals only reach the main thread: no guard possible here
        return
    _install()
    signal.setitimer(signal.ITIMER_REAL, seconds)
    try:
        yield
    finally:
        signal.setitimer(signal.ITIMER_REAL, 0)


def arm(seconds):
    """Cheap form for hot loops (main thread only): arm(...) … disarm()."""
    _install()
    signal.setitimer(signal.ITIMER_REAL, seconds)


def disarm():
    signal.setitimer(signal.ITIMER_REAL, 0)
