"""C15 helpers: case generators, construction of VTF objects from JSON-able specs, conversion of
implementation objects to the observations compared with the Lean model, and the documented
quantisation oracles used by the direct search."""
import struct, random
from io import BytesIO

GRID17 = [0, 1, 2, 3, 4, 7, 8, 15, 16, 31, 32, 63, 64, 127, 128, 254, 255]
GRID9 = [0, 1, 7, 8, 127, 128, 129, 254, 255]


def mods():
    from srctools import vtf as V
    from srctools import _py_vtf_readwrite as C
    return V, C


def fmt_by_ind(V):
    return {f.ind: f for f in V.ImageFormats}


def impl_tables(V, C):
    fm = [[f.ind, f.r, f.g, f.b, f.a, f.size, 1 if f.is_compressed else 0] for f in V.ImageFormats]
    cd = [[f.ind, 1 if f in C._LOAD else 0, 1 if f in C._SAVE else 0] for f in V.ImageFormats]
    return fm, cd


def writable_inds(V, C):
    return sorted(f.ind for f in V.ImageFormats if f in C._SAVE and f in C._LOAD)


def impl_enc(V, C, fmt, px):
    """save_<fmt> on a flat RGBA list (as a 1-row image)."""
    from array import array
    n = len(px) // 4
    data = bytearray(fmt.frame_size(n, 1))
    C.save(fmt, array('B', px), data, n, 1)
    return list(data)


def impl_dec(V, C, fmt, data, n):
    from array import array
    pix = array('B', [0, 0, 0, 255]) * n
    C.load(fmt, pix, bytes(data), n, 1)
    return list(pix)


# ------------------------------------------------------------------ documented quantisation (oracle)

def _q(x, n):
    top = x >> (8 - n)
    v = top << (8 - n)
    return v | (v >> n)


def quant(name, p):
    """What a pixel is documented to become when stored in format `name` and read back."""
    r, g, b, a = p
    if name in ('RGBA8888', 'ABGR8888', 'ARGB8888', 'BGRA8888', 'UVWQ8888', 'UVLX8888'):
        return (r, g, b, a)
    if name in ('RGB888', 'BGR888', 'BGRX8888'):
        return (r, g, b, 255)
    if name in ('RGB565', 'BGR565'):
        return (_q(r, 5), _q(g, 6), _q(b, 5), 255)
    if name == 'BGRX5551':
        return (_q(r, 5), _q(g, 5), _q(b, 5), 255)
    if name == 'BGRA5551':
        return (_q(r, 5), _q(g, 5), _q(b, 5), 255 if a >= 128 else 0)
    if name == 'BGRA4444':
        return (_q(r, 4), _q(g, 4), _q(b, 4), _q(a, 4))
    if name == 'I8':
        m = (r + g + b) // 3
        return (m, m, m, 255)
    if name == 'IA88':
        m = (r + g + b) // 3
        return (m, m, m, a)
    if name == 'A8':
        return (0, 0, 0, a)
    if name == 'UV88':
        return (r, g, 0, 255)
    if name in ('RGB888_BLUESCREEN', 'BGR888_BLUESCREEN'):
        if a < 128 or (r, g, b) == (0, 0, 255):
            return (0, 0, 0, 0)
        return (r, g, b, 255)
    raise KeyError(name)


EXACT_ALL = ('RGBA8888', 'ABGR8888', 'ARGB8888', 'BGRA8888', 'UVWQ8888', 'UVLX8888')


def quant_img(name, px):
    out = []
    for i in range(0, len(px), 4):
        out.extend(quant(name, tuple(px[i:i + 4])))
    return out


# ------------------------------------------------------------------ floats as float32 bit patterns

def f32_from_bits(bits):
    return struct.unpack('<f', struct.pack('<I', bits))[0]


def rand_f32_bits(rng):
    """A finite float32 bit pattern (no NaN; occasionally 0, -0, inf, denormals)."""
    c = rng.random()
    if c < 0.15:
        return rng.choice([0, 0x80000000, 0x3F800000, 0xBF800000, 0x7F800000, 0x00000001, 0x007FFFFF, 0x7F7FFFFF])
    while True:
        b = rng.getrandbits(32)
        if (b >> 23) & 0xFF != 0xFF:
            return b


def f32_bytes(bits):
    return list(struct.pack('<I', bits))


# ------------------------------------------------------------------ VTF specs

def gen_spec(rng, wr_names, max_log=4, big=False):
    """A JSON-able description of a texture and how to save it."""
    lw = rng.randrange(0, max_log + 1)
    lh = rng.randrange(0, max_log + 1) if rng.random() < 0.6 else lw
    if big:
        lw, lh = rng.choice([(5, 5), (6, 6), (6, 5), (5, 6), (6, 3), (0, 6)])
    cube = rng.random() < 0.25
    depth = 1 if cube or rng.random() < 0.6 else rng.choice([2, 3, 4])
    minor = rng.choice([2, 3, 4, 5])
    flags = 0
    for bit in (0x1, 0x4, 0x100, 0x2000, 0x80000, 0x10000000, 0x40000000):
        if rng.random() < 0.2:
            flags |= bit
    if cube:
        flags |= 0x4000
    frames = rng.choice([1, 1, 1, 2, 3])
    if big:
        frames = 1 if not cube else 1
        depth = 1
    spec = {
        'w': 1 << lw, 'h': 1 << lh, 'minor': minor, 'frames': frames, 'depth': depth, 'flags': flags,
        'fmt': rng.choice(wr_names), 'thumb': rng.choice(wr_names + ['NONE', 'NONE']),
        'ref': [rand_f32_bits(rng) for _ in range(3)], 'bump': rand_f32_bits(rng),
        'first': rng.choice([0, 0, 1, 65535, rng.randrange(65536)]),
        'fill': rng.choice(['top', 'top', 'all', 'some', 'none']),
        'seed': rng.getrandbits(32),
        'save_minor': rng.choice([None, None, None, None, 2, 3, 4, 5, 2, 3, 4, 5, 0, 1]),
        'ops': [],
        'sheetver': rng.choice([1, 1, 0]),
        'asw': rng.random() < 0.5,
        'res': [], 'sheet': [],
    }
    used = {(1, 0, 0), (0x30, 0, 0), (0x10, 0, 0)}
    for _ in range(rng.choice([0, 0, 1, 2, 3])):
        c = rng.random()
        if c < 0.3:
            rid = list(rng.choice([b'CRC', b'LOD', b'TSO', b'KVD']))
        else:
            rid = [rng.randrange(256) for _ in range(3)]
        if tuple(rid) in used:
            continue
        used.add(tuple(rid))
        is_bytes = rng.random() < 0.5
        fl = rng.randrange(256)
        if rng.random() < 0.8:   # the storage-kind bit agrees with the kind of data
            fl = (fl & ~2) if is_bytes else (fl | 2)
        spec['res'].append({'id': rid, 'flags': fl, 'isbytes': is_bytes, 'enum': rng.random() < 0.5,
                            'ival': rng.getrandbits(32) if not is_bytes else 0,
                            'data': [rng.randrange(256) for _ in range(rng.choice([0, 1, 5, 40]))] if is_bytes else []})
    if rng.random() < 0.25:
        for _ in range(rng.choice([1, 1, 2])):
            if rng.random() < 0.5:
                spec['ops'].append([0, rng.choice([0, 0, 1, 2])])
            else:
                spec['ops'].append([1, rng.choice([0, 1, 2, 3, 4])])
    if rng.random() < 0.3:
        nums = rng.sample(range(64), rng.choice([1, 2, 3]))
        if rng.random() < 0.3:
            nums = sorted(set(nums) | {63})
        if rng.random() < 0.02:
            nums = list(range(64)); rng.shuffle(nums)
        for num in nums:
            frs = []
            for _ in range(rng.choice([0, 1, 2, 4])):
                if spec['sheetver'] == 0:
                    c = [rand_f32_bits(rng) for _ in range(4)] * 4
                else:
                    c = [rand_f32_bits(rng) for _ in range(16)]
                frs.append({'dur': rand_f32_bits(rng), 'coords': c})
            spec['sheet'].append({'num': num, 'clamp': rng.random() < 0.5, 'duration': rand_f32_bits(rng), 'frames': frs})
    return spec


def frame_pixels(spec, key, w, h):
    """Deterministic pixel data of one frame of a spec (None = left cleared)."""
    f, d, m = key
    mode = spec['fill']
    if mode == 'none':
        return None
    if mode == 'top' and m != 0:
        return None
    r = random.Random(f'{spec["seed"]}:{f}:{d}:{m}')
    if mode == 'some' and m != 0 and r.random() < 0.5:
        return None
    style = r.randrange(4)
    n = w * h
    if style == 0:
        return [r.randrange(256) for _ in range(4 * n)]
    if style == 1:
        return [r.choice(GRID9) for _ in range(4 * n)]
    if style == 2:
        c = [r.randrange(256) for _ in range(4)]
        return c * n
    out = []
    for i in range(n):
        out += [(i * 7 + f) & 255, (i * 13 + d * 50) & 255, (255 - i * 3 - m) & 255, r.choice([0, 127, 128, 255])]
    return out


def set_pixels(V, fr, px, how):
    """Give a frame its RGBA content through one of the public ways of doing so."""
    n = fr.width * fr.height
    if how in (1, 6):                              # from another Frame (onto a blank / an already filled frame)
        src = V.Frame(fr.width, fr.height)
        src.copy_from(bytes(px))
        if how == 6:
            fr.fill(1, 2, 3, 4)
        fr.copy_from(src)
    elif how == 2 and px == px[:4] * n:            # constant colour
        fr.fill(*px[:4])
    elif how == 3 and n <= 16:                     # pixel by pixel
        fr.fill(9, 9, 9, 9)
        for i in range(n):
            fr[i % fr.width, i // fr.width] = tuple(px[4 * i:4 * i + 4])
    elif how == 4:                                 # from BGRA-ordered bytes
        d = []
        for i in range(n):
            r, g, b, a = px[4 * i:4 * i + 4]
            d += [b, g, r, a]
        fr.copy_from(bytearray(d), V.ImageFormats.BGRA8888)
    elif how == 5:                                 # from ABGR-ordered bytes, through a memoryview
        d = []
        for i in range(n):
            r, g, b, a = px[4 * i:4 * i + 4]
            d += [a, b, g, r]
        fr.copy_from(memoryview(bytes(d)), V.ImageFormats.ABGR8888)
    else:
        fr.copy_from(bytes(px))


def key_val(k):
    return (k[0], k[1].value if hasattr(k[1], 'value') else k[1], k[2])


def build(V, spec):
    """Construct the texture. Returns (vtf, model_json)."""
    F = V.ImageFormats
    sheet = {}
    for s in spec['sheet']:
        frs = []
        for fr in s['frames']:
            tc = [V.TexCoord(*[f32_from_bits(b) for b in fr['coords'][4 * i:4 * i + 4]]) for i in range(4)]
            frs.append((f32_from_bits(fr['dur']), tc[0], tc[1], tc[2], tc[3]))
        sheet[s['num']] = V.SheetSequence(frs, s['clamp'], f32_from_bits(s['duration']))
    from srctools.math import Vec
    v = V.VTF(spec['w'], spec['h'], version=(7, spec['minor']), ref=Vec(*[f32_from_bits(b) for b in spec['ref']]),
              frames=spec['frames'], bump_scale=f32_from_bits(spec['bump']), sheet_info=sheet,
              flags=V.VTFFlags(spec['flags']), fmt=F[spec['fmt']], thumb_fmt=F[spec['thumb']], depth=spec['depth'])
    v.first_frame_index = spec['first']
    for r in spec['res']:
        rid = bytes(r['id'])
        if r.get('enum'):
            try:
                rid = V.ResourceID(rid)
            except ValueError:
                pass
        v.resources[rid] = V.Resource(r['flags'], bytes(r['data']) if r['isbytes'] else r['ival'])
    frames = []
    for k, fr in v._frames.items():
        kv = key_val(k)
        px = frame_pixels(spec, kv, fr.width, fr.height)
        if px is not None:
            set_pixels(V, fr, px, random.Random(f'{spec["seed"]}:set:{kv}').randrange(7))
        frames.append({'key': list(kv), 'w': fr.width, 'h': fr.height, 'data': px})
    mj = {
        'width': v.width, 'height': v.height, 'depth': v.depth, 'minor': v.version[1], 'flags': v.flags.value,
        'frame_count': v.frame_count, 'first': v.first_frame_index,
        'refl': sum((f32_bytes(b) for b in spec['ref']), []), 'bump': f32_bytes(spec['bump']),
        'fmt': v.format.ind, 'low_fmt': v.low_format.ind, 'mip_count': v.mipmap_count,
        'low': {'w': v._low_res.width, 'h': v._low_res.height, 'data': None},
        'frames': frames,
        'res': [{'id': r['id'], 'flags': r['flags'], 'isbytes': r['isbytes'], 'ival': r['ival'], 'data': r['data']}
                for r in spec['res']],
        'sheet': [{'num': s['num'], 'clamp': s['clamp'], 'duration': f32_bytes(s['duration']),
                   'frames': [{'dur': f32_bytes(fr['dur']), 'coords': sum((f32_bytes(b) for b in fr['coords']), [])}
                              for fr in s['frames']]} for s in spec['sheet']],
    }
    return v, mj


def apply_ops(V, v, spec):
    """clear_mipmaps / compute_mipmaps calls made on the object before it is saved."""
    for op, arg in spec.get('ops') or []:
        if op == 0:
            v.clear_mipmaps(after=arg)
        else:
            v.compute_mipmaps(V.FilterMode(arg))


ERRMAP = {'ValueError': 'value', 'NotImplementedError': 4, 'BufferError': 6, 'KeyError': 7, 'error': 9}


def impl_save(V, v, spec):
    """bytes, or ('err', exception name)."""
    b = BytesIO()
    ver = None if spec.get('save_minor') is None else (7, spec['save_minor'])
    try:
        apply_ops(V, v, spec)
        v.save(b, version=ver, sheet_seq_version=spec.get('sheetver', 1), asw_or_later=spec.get('asw', True))
    except Exception as e:   # noqa
        return ('err', type(e).__name__)
    return b.getvalue()


def impl_view(V, data, pixels=True, header_only=False):
    """Observation of VTF.read(data) in the shape of the model's `read` reply."""
    try:
        r = V.VTF.read(BytesIO(data), header_only=header_only)
    except Exception as e:  # noqa
        return {'err': type(e).__name__}
    res = []
    for rid, rs in r.resources.items():
        raw = bytes(getattr(rid, 'value', rid))
        isb = isinstance(rs.data, bytes)
        res.append({'id': list(raw), 'flags': rs.flags, 'isbytes': isb, 'ival': 0 if isb else rs.data,
                    'data': list(rs.data) if isb else []})
    sheet = []
    for num, s in r.sheet_info.items():
        frs = []
        for (dur, a, b, c, d) in s.frames:
            frs.append({'dur': list(struct.pack('<f', dur)),
                        'coords': list(a.to_binary() + b.to_binary() + c.to_binary() + d.to_binary())})
        sheet.append({'num': num, 'clamp': bool(s.clamp), 'duration': list(struct.pack('<f', s.duration)), 'frames': frs})
    frames = []
    for k, fr in r._frames.items():
        off = fr._fileinfo[1] if fr._fileinfo is not None else None
        e = {'key': list(key_val(k)), 'w': fr.width, 'h': fr.height, 'off': off}
        if pixels:
            try:
                fr.load()
                e['px'] = list(fr._data)
            except Exception as ex:  # noqa
                e['px'] = {'err': type(ex).__name__}
        frames.append(e)
    low = None
    if r.low_format.name != 'NONE':
        lo = r._low_res
        low = {'off': lo._fileinfo[1] if lo._fileinfo is not None else None}
        if pixels:
            try:
                lo.load()
                low['px'] = list(lo._data)
            except Exception as ex:  # noqa
                low['px'] = {'err': type(ex).__name__}
    return {
        'minor': r.version[1], 'width': r.width, 'height': r.height, 'flags': r.flags.value,
        'frame_count': r.frame_count, 'first': r.first_frame_index,
        'refl': list(struct.pack('<3f', *r.reflectivity)), 'bump': list(struct.pack('<f', r.bumpmap_scale)),
        'fmt': r.format.ind, 'mip_count': r.mipmap_count, 'low_fmt': r.low_format.ind,
        'low_w': r._low_res.width, 'low_h': r._low_res.height, 'depth': r.depth,
        'res': res, 'sheet': sheet, 'low': low, 'frames': frames, '_obj': r,
    }


def canon_px(p):
    """model pixel reply: list or {'err': code} -> list or 'err'."""
    if isinstance(p, dict):
        return 'err'
    return p


VIEW_KEYS = ['minor', 'width', 'height', 'flags', 'frame_count', 'first', 'refl', 'bump', 'fmt', 'mip_count',
             'low_fmt', 'low_w', 'low_h', 'depth', 'res', 'sheet']


def diff_views(iv, mv):
    """First difference between the implementation's and the model's view of a file, or None."""
    if 'err' in iv or 'err' in mv:
        if ('err' in iv) != ('err' in mv):
            return ('error', iv.get('err'), mv.get('err'))
        return None
    for k in VIEW_KEYS:
        if iv[k] != mv[k]:
            return (k, iv[k], mv[k])
    if len(iv['frames']) != len(mv['frames']):
        return ('frame-count', len(iv['frames']), len(mv['frames']))
    for a, b in zip(iv['frames'], mv['frames']):
        for k in ('key', 'w', 'h', 'off'):
            if a[k] != b[k]:
                return ('frame.' + k, [a['key'], a[k]], [b['key'], b[k]])
        if 'px' in a and canon_px(a['px']) != canon_px(b['px']):
            return ('frame.px', [a['key'], str(canon_px(a['px']))[:80]], [b['key'], str(canon_px(b['px']))[:80]])
    if (iv['low'] is None) != (mv['low'] is None):
        return ('low', iv['low'], mv['low'])
    if iv['low'] is not None:
        if iv['low']['off'] != mv['low']['off']:
            return ('low.off', iv['low']['off'], mv['low']['off'])
        if 'px' in iv['low'] and canon_px(iv['low']['px']) != canon_px(mv['low']['px']):
            return ('low.px', str(canon_px(iv['low']['px']))[:80], str(canon_px(mv['low']['px']))[:80])
    return None


# ------------------------------------------------------------------ histories on one live object

COPY_FORMS = ['self', 'same', 'other_lazy', 'other_loaded', 'bytes', 'bytearray', 'array', 'memoryview', 'ownview',
              'ownview_flat', 'list', 'short']


def gen_history(rng, spec, V, start='ctor'):
    """A random sequence of operations on one object (built from `spec`, or read lazily from the file of a save of
    it when start == 'read'), ending with a save."""
    v = V.VTF(spec['w'], spec['h'], version=(7, spec['minor']), frames=spec['frames'], flags=V.VTFFlags(spec['flags']),
              depth=spec['depth'])
    mc = v.mipmap_count
    keys = [key_val(k) for k in v._frames if start == 'ctor' or k[2] < mc]
    dims = {key_val(k): (f.width, f.height) for k, f in v._frames.items()}
    ops = []
    n = rng.choice([2, 3, 4, 5, 6, 8])
    for i in range(n):
        c = rng.random()
        k = list(rng.choice(keys))
        w, h = dims[tuple(k)]
        same_level = [q for q in keys if q[2] == k[2]]
        if c < 0.18:
            ops.append(['save', rng.choice([None, None, None, 2, 3, 4, 5]), spec['sheetver'], spec['asw'], rng.random() < 0.3])
        elif c < 0.26:
            ops.append(['compute', rng.choice([0, 1, 2, 3, 4, 4])])
        elif c < 0.32:
            ops.append(['clearmips', rng.choice([0, 0, 1, 2])])
        elif c < 0.46:
            ops.append(['fclear'] + k)
        elif c < 0.52:
            ops.append(['set'] + k + [rng.getrandbits(32)])
        elif c < 0.72:
            form = rng.choice(COPY_FORMS + ['self', 'self', 'same', 'other_lazy'])
            ops.append(['copy'] + k + [form] + list(rng.choice(same_level)) + [rng.getrandbits(32)])
        elif c < 0.80:
            src = rng.choice([k, k, [k[0], k[1], max(k[2] - 1, 0)], list(rng.choice(keys))])
            ops.append(['rescale'] + k + list(src) + [rng.choice([0, 3, 4, 4])])
        elif c < 0.86:
            ops.append(['pixel'] + k + [rng.randrange(-1, w + 1), rng.randrange(-1, h + 1), [rng.randrange(256) for _ in range(4)]])
        elif c < 0.90:
            ops.append(['fill'] + k + [[rng.randrange(256) for _ in range(4)]])
        elif c < 0.93:
            ops.append(['load'])
        elif c < 0.98:
            ops.append(['fmt', rng.choice(spec['_names'])])
        else:
            ops.append(['lowfmt', rng.choice(spec['_names'] + ['NONE'])])
    ops.append(['save', None, spec['sheetver'], spec['asw'], False])
    return ops


def set_data(seed, w, h):
    r = random.Random(f'set:{seed}')
    return [r.randrange(256) for _ in range(4 * w * h)]


def history_model_ops(V, spec, ops, dims, other_px):
    """The same operations in the driver's encoding. `other_px[key]` = pixels of the frames of the reference file
    (the content of the frames of the *other* VTF objects used as copy sources)."""
    F = V.ImageFormats
    out = []
    for op in ops:
        t = op[0]
        if t == 'save':
            out.append({'o': 3, 'a': [spec['minor'] if op[1] is None else op[1], op[2], 1 if op[3] else 0]})
        elif t == 'compute': out.append({'o': 1, 'a': [op[1]]})
        elif t == 'clearmips': out.append({'o': 0, 'a': [op[1]]})
        elif t == 'fclear': out.append({'o': 4, 'a': op[1:4]})
        elif t == 'set':
            w, h = dims[tuple(op[1:4])]
            out.append({'o': 5, 'a': op[1:4], 'd': set_data(op[4], w, h)})
        elif t == 'copy':
            k, form, sk, seed = op[1:4], op[4], op[5:8], op[8]
            w, h = dims[tuple(k)]
            if form in ('self', 'ownview', 'ownview_flat'):
                out.append({'o': 10, 'a': k + k})
            elif form == 'same':
                out.append({'o': 10, 'a': k + sk})
            elif form in ('other_lazy', 'other_loaded'):
                px = other_px.get(tuple(sk))
                out.append({'o': 5, 'a': k, 'd': px} if px is not None else {'o': 11, 'a': k})
            elif form in ('list', 'short'):
                out.append({'o': 11, 'a': k})
            else:
                out.append({'o': 5, 'a': k, 'd': set_data(seed, w, h)})
        elif t == 'rescale': out.append({'o': 12, 'a': op[1:4] + op[4:7] + [op[7]]})
        elif t == 'pixel': out.append({'o': 6, 'a': op[1:4] + [op[4], op[5]], 'd': op[6]})
        elif t == 'fill': out.append({'o': 7, 'a': op[1:4], 'd': op[4]})
        elif t == 'load': out.append({'o': 2})
        elif t == 'fmt': out.append({'o': 8, 'a': [F[op[1]].ind]})
        elif t == 'lowfmt': out.append({'o': 9, 'a': [F[op[1]].ind]})
    return out


def _favg(px, w, h, nw, nh):
    sx, sy = (2 if nw != w else 1), (2 if nh != h else 1)
    out = []
    for y in range(nh):
        for x in range(nw):
            for c in range(4):
                s = 0
                for dy in range(2):
                    for dx in range(2):
                        s += px[4 * ((y * sy + (dy if sy == 2 else 0)) * w + x * sx + (dx if sx == 2 else 0)) + c]
                out.append(s // 4)
    return out


def run_history_impl(V, spec, ops, start='ctor'):
    """Apply the history to ONE live object. Returns (saves, problems, model_json, other_px):
    `saves` = bytes or ('err', name) per save (stops at the first exception outside copy/rescale/pixel calls);
    `problems` = direct-oracle failures found after a save:
      * a frame that was cleared (Frame.clear / clear_mipmaps) when save() ran is not the floor average of its parent,
      * the file read back does not hold what the live object holds (up to the format's quantisation),
      * (object read from a file) a frame that was never modified - copying a frame onto itself, loading, viewing its
        buffer do not modify it - does not read back as it was in the file."""
    import tempfile, os
    from array import array
    F = V.ImageFormats
    v0, mj = build(V, spec)
    d0 = impl_save(V, v0, dict(spec, ops=[]))
    if isinstance(d0, tuple):
        return [('err', d0[1])], [], None, {}
    iv0 = impl_view(V, d0)
    other_px = {tuple(f['key']): f['px'] for f in iv0['frames'] if not isinstance(f['px'], dict)}
    other_lazy = V.VTF.read(BytesIO(d0))
    other_loaded = V.VTF.read(BytesIO(d0)); other_loaded.load()
    tmp = []
    if start == 'read':
        if spec.get('real_file'):
            fd, path = tempfile.mkstemp(suffix='.vtf'); os.write(fd, d0); os.close(fd)
            stream = open(path, 'rb'); tmp.append((stream, path))
        else:
            stream = BytesIO(d0)
        v = V.VTF.read(stream)
        mj = {k: iv0[k] for k in ('width', 'height', 'depth', 'minor', 'flags', 'frame_count', 'first', 'refl', 'bump', 'fmt',
                                  'low_fmt', 'mip_count', 'res', 'sheet')}
        mj['low'] = {'w': iv0['low_w'], 'h': iv0['low_h'], 'data': None, 'file': iv0['low']['px'] if iv0['low'] else None}
        mj['frames'] = [{'key': f['key'], 'w': f['w'], 'h': f['h'], 'data': None, 'file': f['px']} for f in iv0['frames']]
    else:
        v, mj = build(V, spec)
    frames = {key_val(k): f for k, f in v._frames.items()}
    oframes = {'other_lazy': {key_val(k): f for k, f in other_lazy._frames.items()},
               'other_loaded': {key_val(k): f for k, f in other_loaded._frames.items()}}
    cleared = {k for k, f in frames.items() if f._data is None and f._fileinfo is None and k[2] > 0}
    touched = set()
    fmt_changed = False
    saves, problems = [], []
    try:
        for step, op in enumerate(ops):
            t = op[0]
            try:
                if t == 'save':
                    # (a lazy parent is itself regenerated for the purpose of this pass and then reloaded from the file)
                    was_cleared = {k for k in cleared if frames.get((k[0], k[1], k[2] - 1)) is not None
                                   and frames[(k[0], k[1], k[2] - 1)]._fileinfo is None}
                    ver = None if op[1] is None else (7, op[1])
                    if len(op) > 4 and op[4]:
                        fd, path = tempfile.mkstemp(suffix='.vtf'); os.close(fd)
                        with open(path, 'wb') as fh:
                            v.save(fh, version=ver, sheet_seq_version=op[2], asw_or_later=op[3])
                        with open(path, 'rb') as fh:
                            data = fh.read()
                        os.unlink(path)
                    else:
                        b = BytesIO()
                        v.save(b, version=ver, sheet_seq_version=op[2], asw_or_later=op[3])
                        data = b.getvalue()
                    saves.append(data)
                    cleared.clear()
                    for k in sorted(was_cleared):
                        if k[2] >= v.mipmap_count or k[0] >= v.frame_count:
                            continue
                        par = frames.get((k[0], k[1], k[2] - 1)); cur = frames[k]
                        if par is None or par._data is None or cur._data is None:
                            continue
                        want = _favg(list(par._data), par.width, par.height, cur.width, cur.height)
                        if list(cur._data) != want:
                            problems.append((step, f'after save #{len(saves)}, mipmap {k} that was cleared is not the floor average of '
                                             f'its parent: {list(cur._data)[:8]} instead of {want[:8]}'))
                            break
                    iv = impl_view(V, data)
                    if 'err' in iv:
                        problems.append((step, f'the file of save #{len(saves)} cannot be read: {iv["err"]}'))
                    else:
                        nm = v.format.name
                        for fr in iv['frames']:
                            live = frames.get(tuple(fr['key']))
                            if live is None or live._data is None or isinstance(fr['px'], dict) or nm in ('RGB565', 'BGR565'):
                                continue
                            if fr['px'] != quant_img(nm, list(live._data)):
                                problems.append((step, f'save #{len(saves)}: frame {fr["key"]} read back differs from the live frame'))
                                break
                        if start == 'read' and not fmt_changed and nm not in ('RGB565', 'BGR565'):
                            for fr in iv['frames']:
                                k = tuple(fr['key'])
                                if k in touched or k not in other_px or isinstance(fr['px'], dict):
                                    continue
                                if fr['px'] != other_px[k]:
                                    problems.append((step, f'save #{len(saves)}: frame {list(k)} was never modified (only loaded / copied onto '
                                                     f'itself / viewed) but reads back as {fr["px"][:8]} instead of the file\'s {other_px[k][:8]}'))
                                    break
                elif t == 'compute':
                    v.compute_mipmaps(V.FilterMode(op[1]))
                    touched |= {k for k in cleared if k[2] < v.mipmap_count}
                    cleared -= {k for k in cleared if k[2] < v.mipmap_count}
                elif t == 'clearmips':
                    v.clear_mipmaps(after=op[1])
                    cleared |= {k for k in frames if k[2] > op[1]}; touched |= {k for k in frames if k[2] > op[1]}
                elif t == 'fclear':
                    k = tuple(op[1:4]); frames[k].clear(); touched.add(k)
                    if k[2] > 0:
                        cleared.add(k)
                elif t == 'set':
                    k = tuple(op[1:4]); fr = frames[k]
                    fr.copy_from(bytes(set_data(op[4], fr.width, fr.height)))
                    cleared.discard(k); touched.add(k)
                elif t == 'copy':
                    k, form, sk, seed = tuple(op[1:4]), op[4], tuple(op[5:8]), op[8]
                    fr = frames[k]
                    data = set_data(seed, fr.width, fr.height)
                    try:
                        if form == 'self': fr.copy_from(fr)
                        elif form == 'same':
                            fr.copy_from(frames[sk])
                            cleared.discard(sk)     # the source has been loaded: a cleared source is blank now
                            if sk != k: touched.add(k)
                        elif form in ('other_lazy', 'other_loaded'):
                            if sk in oframes[form] and sk in other_px:
                                fr.copy_from(oframes[form][sk]); touched.add(k)
                            else:   # the other object has no such level (never saved): a copy that fails
                                fr.copy_from(bytes(data[:-1]))
                        elif form == 'bytes': fr.copy_from(bytes(data)); touched.add(k)
                        elif form == 'bytearray': fr.copy_from(bytearray(data)); touched.add(k)
                        elif form == 'array': fr.copy_from(array('B', data)); touched.add(k)
                        elif form == 'memoryview': fr.copy_from(memoryview(bytes(data))); touched.add(k)
                        elif form == 'ownview': fr.copy_from(memoryview(fr))
                        elif form == 'ownview_flat': fr.copy_from(memoryview(fr).cast('B'))
                        elif form == 'list': fr.copy_from(data)
                        elif form == 'short': fr.copy_from(bytes(data[:-1]))
                    except (ValueError, TypeError):
                        pass
                    cleared.discard(k)
                elif t == 'rescale':
                    k, sk = tuple(op[1:4]), tuple(op[4:7])
                    try:
                        frames[k].rescale_from(frames[sk], V.FilterMode(op[7]))
                        cleared.discard(k)
                        if sk != k: touched.add(k)
                    except ValueError:
                        pass
                elif t == 'pixel':
                    k = tuple(op[1:4])
                    try:
                        frames[k][op[4], op[5]] = tuple(op[6]); touched.add(k)
                    except IndexError:
                        pass
                    cleared.discard(k)
                elif t == 'fill':
                    k = tuple(op[1:4]); frames[k].fill(*op[4]); cleared.discard(k); touched.add(k)
                elif t == 'load':
                    v.load(); cleared.clear()
                elif t == 'fmt':
                    v.format = F[op[1]]; fmt_changed = True
                elif t == 'lowfmt':
                    v.low_format = F[op[1]]
            except Exception as e:  # noqa
                saves.append(('err', type(e).__name__))
                break
    finally:
        for stream, path in tmp:
            stream.close()
            try: os.unlink(path)
            except OSError: pass
    return saves, problems, mj, other_px
