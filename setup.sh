#!/bin/sh
# MANIFEST.setup_cmd: build the Lean project (models, property theorems, compiled drivers) from files
# on disk only (offline). The Gen files are first regenerated from /repo so the build matches the tree.
# Each property's targets are built separately: a failure in one does not stop the others (the
# property's own check reports it).
HERE="$(cd "$(dirname "$0")" && pwd)"
cd "$HERE"
GENS=$(ls tools/gen_*.py 2>/dev/null | sed 's#tools/gen_##; s#\.py##')
[ -n "$GENS" ] && /venv/bin/python tools/extract.py $GENS >/dev/null 2>&1
cd lean
mkdir -p .lake
exec 9>.lake/verif.lock
flock 9
FAIL=""
TARGETS=$(/venv/bin/python - <<'PY'
import re, pathlib, sys
H = pathlib.Path('../harness')
t = []
for f in sorted(H.glob('p_c*.py')):
    s = f.read_text()
    m = re.search(r"^DRIVERS\s*=\s*\[([^\]]*)\]", s, re.M)
    if m: t += re.findall(r"['\"]([^'\"]+)['\"]", m.group(1))
    m = re.search(r"^PROPS\s*=\s*['\"]([^'\"]+)['\"]", s, re.M)
    if m: t.append(m.group(1))
    m = re.search(r"^EXTRA_PROPS\s*=\s*\[([^\]]*)\]", s, re.M)
    if m: t += re.findall(r"['\"]([^'\"]+)['\"]", m.group(1))
seen = []
for x in t:
    if x not in seen: seen.append(x)
print(' '.join(seen))
PY
)
echo "setup: building $TARGETS"
# one invocation first (fast path: shares work, parallel)…
if ! timeout 3000 lake build $TARGETS >/tmp/.verif_setup.log 2>&1; then
  # …then target by target so one broken module does not block the rest
  for t in $TARGETS; do
    timeout 1500 lake build "$t" >/dev/null 2>&1 || FAIL="$FAIL $t"
  done
fi
[ -n "$FAIL" ] && echo "setup: targets that failed to build:$FAIL"
echo "setup: done"
exit 0
