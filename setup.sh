#!/bin/sh
# MANIFEST.setup_cmd: build the whole Lean project (library, property theorems, compiled drivers)
# from files on disk only. Regenerates the Gen files from /repo first so the build matches the tree.
set -e
HERE="$(cd "$(dirname "$0")" && pwd)"
cd "$HERE"
GENS=$(ls tools/gen_*.py | sed 's#tools/gen_##; s#\.py##')
/venv/bin/python tools/extract.py $GENS >/dev/null || true
cd lean
timeout 3000 lake build
