"""Gen.Copy: for every map-object class, the fields (from `__slots__` / attrs annotations /
`__init__` assignments), the static kind of each field (from annotations) and how the class's
copy site treats it (deep / fresh / immutable / shared / missing / reset / unknown).

A *copy site* of class K is either a method (`copy`, or `__deepcopy__` for EntityFixup) or an
inline construction `K(v.a, v.b.copy(), …)` inside a comprehension over a field of another class
(DispVertex inside Side.copy, FixupValue inside EntityFixup.copy_values).

Also extracted: which list the loop of `Keyvalues.__add__` appends to (`self` or the copy) and
whether `__iadd__` / `extend` copy the appended children.

Only `ast` is used; the code is never imported.  Anything not understood becomes `unknown`
(which fails the obligation) or raises ExtractError when the overall shape is gone.
"""
import ast
from extract import ExtractError, lean_string

VMF_CLASSES = ['Camera', 'Cordon', 'VisGroup', 'Solid', 'DispVertex', 'UVAxis', 'Side', 'Entity',
               'FixupValue', 'EntityFixup', 'EntityGroup', 'Output']
KV_CLASSES = ['Keyvalues']
COPY_METHOD = {'EntityFixup': '__deepcopy__'}

IMM_NAMES = {'str', 'int', 'float', 'bool', 'None', 'DispFlag', 'TriangleTag', 'DispPower', 'Vec4',
             'FrozenVec', 'FrozenAngle', 'FrozenMatrix', 'Pattern', 'builtins.int', 'builtins.str',
             'builtins.float', 'builtins.bool'}
CTX_NAMES = {'VMF'}
MUT_NAMES = {'Vec', 'Angle', 'Matrix', 'UVAxis', 'EntityFixup', 'FixupValue', 'Side', 'Solid', 'Entity',
             'Output', 'VisGroup', 'DispVertex', 'Keyvalues', 'EntityGroup', 'Camera', 'Cordon'}
CONTAINERS = {'list', 'set', 'dict', 'List', 'Set', 'Dict', 'Array', 'Iterable', 'Mapping', 'MutableMapping'}
SHALLOW_CALLS = {'list', 'set', 'dict', 'tuple', 'sorted'}
BUILTIN_CONTAINER_BASES = {'dict', 'list', 'set'}


# ------------------------------------------------------------------ annotations -> kind

class Kinds:
    def __init__(self, modules):
        self.aliases = {}
        self.class_bases = {}
        for tree in modules:
            for n in tree.body:
                if isinstance(n, ast.Assign) and len(n.targets) == 1 and isinstance(n.targets[0], ast.Name):
                    self.aliases[n.targets[0].id] = n.value
                elif isinstance(n, ast.AnnAssign) and isinstance(n.target, ast.Name) and n.value is not None \
                        and 'TypeAlias' in ast.unparse(n.annotation):
                    self.aliases[n.target.id] = n.value
                elif isinstance(n, ast.ClassDef):
                    self.class_bases[n.name] = n.bases

    def kind(self, ann, depth=0):
        """-> one of imm ctx mutObj contImm contMut unknown"""
        if ann is None or depth > 6:
            return 'unknown'
        if isinstance(ann, ast.Constant):
            if ann.value is None:
                return 'imm'
            if isinstance(ann.value, str):
                try:
                    return self.kind(ast.parse(ann.value, mode='eval').body, depth + 1)
                except SyntaxError:
                    return 'unknown'
            return 'imm'          # Literal[0, 1, …] members
        if isinstance(ann, ast.Attribute):
            return self.kind(ast.Name(id=ann.attr), depth + 1)
        if isinstance(ann, ast.Name):
            nm = ann.id
            if nm in IMM_NAMES: return 'imm'
            if nm in CTX_NAMES: return 'ctx'
            if nm in MUT_NAMES: return 'mutObj'
            if nm == 'Any': return 'skip'
            if nm in self.class_bases:        # e.g. _KeyDict(dict[str, str])
                for b in self.class_bases[nm]:
                    k = self.kind(b, depth + 1)
                    if k in ('contImm', 'contMut'):
                        return k
                return 'unknown'
            if nm in self.aliases:
                return self.kind(self.aliases[nm], depth + 1)
            return 'unknown'
        if isinstance(ann, ast.BinOp) and isinstance(ann.op, ast.BitOr):
            return self._union([ann.left, ann.right], depth)
        if isinstance(ann, ast.Subscript):
            base = ann.value.attr if isinstance(ann.value, ast.Attribute) else getattr(ann.value, 'id', None)
            args = list(ann.slice.elts) if isinstance(ann.slice, ast.Tuple) else [ann.slice]
            if base in ('Optional', 'Union'):
                return self._union(args, depth)
            if base == 'Literal':
                return 'imm'
            if base == 'Pattern':
                return 'imm'
            if base in CONTAINERS:
                ks = [self.kind(a, depth + 1) for a in args]
                if any(k == 'unknown' for k in ks):
                    return 'unknown'
                return 'contImm' if all(k in ('imm', 'skip') for k in ks) else 'contMut'
            return 'unknown'
        return 'unknown'

    def _union(self, args, depth):
        ks = [self.kind(a, depth + 1) for a in args]
        ks = [k for k in ks if k != 'skip']
        if not ks or 'unknown' in ks:
            return 'unknown'
        for k in ('contMut', 'mutObj', 'contImm', 'ctx'):
            if k in ks:
                return k
        return 'imm'


# ------------------------------------------------------------------ class description

def _is_attrs(cls):
    return any('attrs.' in ast.unparse(d) for d in cls.decorator_list)


def _method(cls, name):
    for n in cls.body:
        if isinstance(n, ast.FunctionDef) and n.name == name:
            return n
    return None


def _walk_stmts(body):
    """All statements, descending into if/for/with/try bodies (not into nested functions)."""
    for s in body:
        yield s
        for attr in ('body', 'orelse', 'finalbody'):
            sub = getattr(s, attr, None)
            if isinstance(sub, list) and not isinstance(s, (ast.FunctionDef, ast.ClassDef)):
                yield from _walk_stmts(sub)
        if isinstance(s, ast.Try):
            for h in s.handlers:
                yield from _walk_stmts(h.body)


def _self_attr(node, var='self'):
    """`var.F` -> 'F'"""
    if isinstance(node, ast.Attribute) and isinstance(node.value, ast.Name) and node.value.id == var:
        return node.attr
    return None


class ClassInfo:
    """fields (ordered), annotation per field, constructor parameters and how each reaches a field."""

    def __init__(self, cls, kinds):
        self.cls, self.name, self.kinds = cls, cls.name, kinds
        self.ann = {}
        self.converter = {}
        self.noninit = set()      # attrs fields with init=False: not constructor parameters
        self.post_const = {}      # … and the constant `__attrs_post_init__` stores in them
        for n in cls.body:
            if isinstance(n, ast.AnnAssign) and isinstance(n.target, ast.Name):
                if 'ClassVar' in ast.unparse(n.annotation) or 'Final' in ast.unparse(n.annotation):
                    continue
                self.ann[n.target.id] = n.annotation
                if n.value is not None and 'converter=' in ast.unparse(n.value):
                    self.converter[n.target.id] = True
                if n.value is not None and 'init=False' in ast.unparse(n.value).replace(' ', ''):
                    self.noninit.add(n.target.id)
        init = _method(cls, '__init__')
        self.init = init
        slots = None
        for n in cls.body:
            if isinstance(n, ast.Assign) and any(isinstance(t, ast.Name) and t.id == '__slots__' for t in n.targets):
                slots = [e for e in ast.literal_eval(n.value)]
        self.attrs = _is_attrs(cls)
        self.param_field = {}     # ctor param -> (field, wrapper)   wrapper in direct/fresh/reset
        self.params = []          # positional ctor parameter names (without self)
        if slots is not None:
            self.fields = list(slots)
        elif self.attrs:
            self.fields = [n.target.id for n in cls.body
                           if isinstance(n, ast.AnnAssign) and isinstance(n.target, ast.Name) and n.target.id in self.ann]
        elif init is not None:
            self.fields = []
            for s in _walk_stmts(init.body):
                tgts = s.targets if isinstance(s, ast.Assign) else [s.target] if isinstance(s, ast.AnnAssign) else []
                for t in tgts:
                    for tt in (t.elts if isinstance(t, ast.Tuple) else [t]):
                        f = _self_attr(tt)
                        if f and f not in self.fields:
                            self.fields.append(f)
        else:
            raise ExtractError(f'{cls.name}: cannot find the fields (no __slots__, attrs or __init__)')
        if self.attrs:
            init_fields = [f for f in self.fields if f not in self.noninit]
            for f in init_fields:
                self.param_field[f.lstrip('_')] = (f, 'fresh' if self.converter.get(f) else 'direct')
            self.params = [f.lstrip('_') for f in init_fields]
            post = _method(cls, '__attrs_post_init__')
            if post is not None:
                for st in _walk_stmts(post.body):
                    if isinstance(st, ast.Assign) and len(st.targets) == 1 and isinstance(st.value, ast.Constant):
                        f = _self_attr(st.targets[0])
                        if f in self.noninit:
                            self.post_const[f] = repr(st.value.value)
        elif init is not None:
            a = init.args
            self.params = [x.arg for x in a.posonlyargs + a.args][1:]
            self.kwonly = [x.arg for x in a.kwonlyargs]
            self.param_ann = {x.arg: x.annotation for x in a.posonlyargs + a.args + a.kwonlyargs}
            self._scan_init(init)
        # `__init__`-local annotations (self.x: T = …) and parameter annotations as a fall-back
        if init is not None:
            for s in _walk_stmts(init.body):
                if isinstance(s, ast.AnnAssign):
                    f = _self_attr(s.target)
                    if f and f not in self.ann:
                        self.ann[f] = s.annotation
            if not self.attrs:
                for p, (f, w) in self.param_field.items():
                    if f not in self.ann and self.param_ann.get(p) is not None and w == 'direct':
                        self.ann[f] = self.param_ann[p]
                for s in _walk_stmts(init.body):
                    if isinstance(s, ast.Assign) and len(s.targets) == 1:
                        f = _self_attr(s.targets[0])
                        if f and f not in self.ann and isinstance(s.value, ast.Call) and isinstance(s.value.func, ast.Name):
                            self.ann[f] = ast.Name(id=s.value.func.id)   # e.g. _KeyDict(), Vec(x), list(x), set(x)

    def _scan_init(self, init):
        all_params = set(self.params) | set(self.kwonly)
        local = {}
        for s in _walk_stmts(init.body):
            if isinstance(s, ast.Assign) and len(s.targets) == 1 and isinstance(s.targets[0], ast.Name):
                local[s.targets[0].id] = s.value
        def origin(e, depth=0):
            """-> (param, wrapper) the constructor parameter an expression takes its value from"""
            if depth > 5:
                return None
            if isinstance(e, ast.Name):
                if e.id in all_params:
                    return (e.id, 'direct')
                if e.id in local:
                    return origin(local[e.id], depth + 1)
                return None
            if isinstance(e, ast.BoolOp) and isinstance(e.op, ast.Or):
                return origin(e.values[0], depth + 1)
            if isinstance(e, ast.IfExp):
                for br in (e.body, e.orelse):
                    o = origin(br, depth + 1)
                    if o:
                        return o
                return None
            if isinstance(e, ast.Call):
                fn = ast.unparse(e.func)
                if fn.endswith('.get_id') and e.args:
                    o = origin(e.args[0], depth + 1)
                    return (o[0], 'reset') if o else None
                if e.args:
                    o = origin(e.args[0], depth + 1)
                    if o:
                        return (o[0], 'fresh' if o[1] != 'reset' else 'reset')
            return None
        for s in _walk_stmts(init.body):
            if isinstance(s, (ast.Assign, ast.AnnAssign)) and s.value is not None:
                tgts = s.targets if isinstance(s, ast.Assign) else [s.target]
                for t in tgts:
                    f = _self_attr(t)
                    if f:
                        o = origin(s.value)
                        if o and o[0] not in self.param_field:
                            self.param_field[o[0]] = (f, o[1])
            # `for k, v in keys.items(): self[k] = v`  — re-insertion into the dict field
            if isinstance(s, ast.For) and isinstance(s.iter, ast.Call) and isinstance(s.iter.func, ast.Attribute) \
                    and s.iter.func.attr == 'items' and isinstance(s.iter.func.value, ast.Name) \
                    and s.iter.func.value.id in all_params and len(s.body) == 1 \
                    and isinstance(s.body[0], ast.Assign) and isinstance(s.body[0].targets[0], ast.Subscript) \
                    and isinstance(s.body[0].targets[0].value, ast.Name) and s.body[0].targets[0].value.id == 'self':
                dict_fields = [f for f in self.fields if self._initial_is_dict(init, f)]
                if len(dict_fields) == 1:
                    self.param_field[s.iter.func.value.id] = (dict_fields[0], 'fresh')

    def _initial_is_dict(self, init, f):
        for s in _walk_stmts(init.body):
            if isinstance(s, ast.Assign) and any(_self_attr(t) == f for t in s.targets) and isinstance(s.value, ast.Call):
                nm = ast.unparse(s.value.func)
                if nm == 'dict' or self.kinds.kind(ast.Name(id=nm)) in ('contImm', 'contMut') and not s.value.args:
                    return True
        return False

    def field_kind(self, f):
        return self.kinds.kind(self.ann.get(f))

    def is_builtin_container(self, f):
        a = self.ann.get(f)
        if a is None:
            return False
        txt = ast.unparse(a)
        return any(txt.startswith(p) or ('[' + p) in txt for p in ('dict[', 'list[', 'set[', 'Dict[', 'List[', 'Set['))


# ------------------------------------------------------------------ copy-site analysis

class Sites:
    def __init__(self, infos):
        self.infos = infos            # name -> ClassInfo
        self.result = {}              # class -> (site description, {field: (treat, note)})
        self.pending_inline = []

    def analyse_method(self, K, fn, src='self'):
        info = self.infos[K]
        local = {}        # name -> [every expression assigned to it, in any branch]
        for s in _walk_stmts(fn.body):
            if isinstance(s, ast.Assign) and len(s.targets) == 1 and isinstance(s.targets[0], ast.Name):
                local.setdefault(s.targets[0].id, []).append(s.value)
        params = {a.arg for a in fn.args.args + fn.args.kwonlyargs} - {'self'}
        # the construction: `return K(...)` or `X = K(...)` / `X = K.__new__(K)` … `return X`
        ctor, resvar = None, None
        for s in _walk_stmts(fn.body):
            v = s.value if isinstance(s, (ast.Return, ast.Assign)) else None
            if isinstance(v, ast.Call):
                fnm = ast.unparse(v.func)
                if fnm in (K, 'cls', f'{K}.__new__', 'type(self)', 'self.__class__'):
                    if isinstance(s, ast.Assign) and isinstance(s.targets[0], ast.Name):
                        ctor, resvar = v, s.targets[0].id
                    elif isinstance(s, ast.Return):
                        ctor = v
                    break
        if ctor is None:
            raise ExtractError(f'{K}.{fn.name}: no construction of {K} found')
        feeds = {f: [] for f in info.fields}     # field -> [(expr, guard)]
        if not ast.unparse(ctor.func).endswith('__new__'):
            self._ctor_feeds(info, ctor, feeds)
        if resvar:
            self._post_assigns(fn.body, resvar, feeds, None)
        return self._classify_all(K, info, feeds, src, local, params, f'{K}.{fn.name}')

    def _ctor_feeds(self, info, call, feeds):
        for i, a in enumerate(call.args):
            if isinstance(a, ast.Starred):
                raise ExtractError(f'{info.name}: starred constructor argument')
            if i >= len(info.params):
                raise ExtractError(f'{info.name}: too many constructor arguments')
            self._feed(info, info.params[i], a, feeds)
        for kw in call.keywords:
            if kw.arg is None:
                raise ExtractError(f'{info.name}: ** constructor argument')
            self._feed(info, kw.arg, kw.value, feeds)

    def _feed(self, info, param, expr, feeds):
        if param in info.param_field:
            f, w = info.param_field[param]
            feeds[f].append((expr, w))
        # parameters that reach no field (only_once, …) are ignored

    def _post_assigns(self, body, resvar, feeds, guard):
        for s in body:
            if isinstance(s, ast.Assign):
                for t in s.targets:
                    f = _self_attr(t, resvar)
                    if f is not None:
                        feeds.setdefault(f, []).append((s.value, ('guard', guard) if guard else 'direct'))
            elif isinstance(s, ast.If):
                g = ast.unparse(s.test)
                self._post_assigns(s.body, resvar, feeds, g)
                self._post_assigns(s.orelse, resvar, feeds, 'not ' + g)

    def _classify_all(self, K, info, feeds, src, local, params, site):
        out = {}
        for f in info.fields:
            kind = info.field_kind(f)
            fs = feeds.get(f, [])
            if not fs:
                if f in info.post_const and kind == 'imm':
                    # construction bookkeeping: an init=False field that __attrs_post_init__ sets to a constant
                    out[f] = ('reset', f'init=False; __attrs_post_init__ sets it to {info.post_const[f]} in every instance')
                else:
                    out[f] = ('missing', 'never assigned from the source object')
                continue
            res = []
            for expr, w in fs:
                guard = None
                if isinstance(w, tuple):
                    guard, w = w[1], 'direct'
                c, note = self.classify(info, f, expr, src, local, params)
                # `else` branch of `isinstance(src.F, list)`: the value is a str there
                if c == 'plain' and guard and guard.replace(' ', '') == f'notisinstance({src}.{f},list)':
                    continue
                res.append((self._final(kind, c, w, info, f), note))
            order = ['unknown', 'missing', 'shared', 'fresh', 'reset', 'immutable', 'deep']
            res.sort(key=lambda r: order.index(r[0]))
            out[f] = res[0] if res else ('unknown', 'no classifiable assignment')
        self.result[K] = (site, out)

    @staticmethod
    def _final(kind, c, wrapper, info, f):
        if c == 'reset' or wrapper == 'reset':
            return 'reset' if (kind == 'ctx' or f == 'id') else 'unknown'
        if c == 'deep':
            return 'deep'
        if c == 'unknown':
            return 'unknown'
        if kind == 'imm':
            return 'immutable'
        if kind == 'ctx':
            return 'reset'
        shallow = (c == 'fresh') or (wrapper == 'fresh')
        if not shallow:
            return 'shared'
        if kind == 'contImm':
            return 'fresh'
        if kind == 'mutObj' and c == 'plain':
            # `Vec(self.editor_color)`: a new object built from the atoms of the old one
            return 'deep' if ast.unparse(info.ann.get(f)) in ('Vec', 'Angle', 'Matrix') else 'shared'
        return 'shared'     # new container, same mutable elements

    def classify(self, info, f, e, src, local, params, depth=0):
        """-> (plain | deep | fresh | reset | unknown, note)"""
        note = ast.unparse(e)
        if len(note) > 90:
            note = note[:87] + '...'
        if depth > 6:
            return 'unknown', note
        if isinstance(e, ast.Name):
            if e.id in local and e.id not in params:
                # a local assigned in several branches: the worst of its assignments
                worst = ['unknown', 'plain', 'fresh', 'reset', 'deep']
                rs = [self.classify(info, f, v, src, local, params, depth + 1) for v in local[e.id]]
                rs.sort(key=lambda r: worst.index(r[0]))
                return rs[0]
            if e.id in params or e.id in local:
                return 'reset', note
            return 'unknown', note
        if isinstance(e, ast.BoolOp) and isinstance(e.op, ast.Or):
            # `vmf_file or self.map`
            if any(_self_attr(v, src) == f for v in e.values) and any(isinstance(v, ast.Name) and v.id in params for v in e.values):
                return 'reset', note
            return 'unknown', note
        if isinstance(e, ast.IfExp):
            brs = [b for b in (e.body, e.orelse) if any(_self_attr(n, src) == f for n in ast.walk(b))]
            if len(brs) == 1:
                return self.classify(info, f, brs[0], src, local, params, depth + 1)[0], note
            return 'unknown', note
        if _self_attr(e, src) == f:
            return 'plain', note
        if isinstance(e, ast.Call):
            fn = e.func
            if isinstance(fn, ast.Attribute) and _self_attr(fn.value, src) == f:
                if fn.attr == 'copy':
                    return ('fresh' if info.is_builtin_container(f) else 'deep'), note
                # helper method of the field's class, e.g. self._fixup.copy_values()
                tname = self._class_of_field(info, f)
                if tname in self.infos:
                    m = _method(self.infos[tname].cls, fn.attr)
                    if m is not None:
                        rets = [s.value for s in _walk_stmts(m.body) if isinstance(s, ast.Return) and s.value is not None]
                        if len(rets) == 1:
                            c = self._classify_collection(self.infos[tname], rets[0], 'self')
                            return c, note + f'  [{tname}.{fn.attr}: {ast.unparse(rets[0])[:60]}]'
                return 'unknown', note
            if isinstance(fn, ast.Name) and (fn.id in SHALLOW_CALLS and len(e.args) == 1
                                             or fn.id in ('Array', 'array') and len(e.args) == 2
                                             and isinstance(e.args[0], ast.Constant)):
                inner = e.args[-1]
                if _self_attr(inner, src) == f or (isinstance(inner, ast.Call) and isinstance(inner.func, ast.Attribute)
                                                   and inner.func.attr in ('values', 'items', 'keys')
                                                   and _self_attr(inner.func.value, src) == f):
                    return 'fresh', note
            return 'unknown', note
        if isinstance(e, (ast.ListComp, ast.DictComp, ast.SetComp)):
            return self._classify_comp(e, lambda n: _self_attr(n, src) == f), note
        return 'unknown', note

    def _class_of_field(self, info, f):
        a = info.ann.get(f)
        if a is None:
            return None
        for n in ast.walk(a):
            if isinstance(n, ast.Name) and n.id in self.infos:
                return n.id
            if isinstance(n, ast.Constant) and isinstance(n.value, str) and n.value in self.infos:
                return n.value
        return None

    def _classify_collection(self, info, e, src):
        """Classification of an expression that builds a collection from *some* field of `src`
        (used for helper methods): deep / fresh / unknown."""
        is_field = lambda n: _self_attr(n, src) in info.fields
        if isinstance(e, (ast.ListComp, ast.DictComp, ast.SetComp)):
            return self._classify_comp(e, is_field)
        if isinstance(e, ast.Call) and isinstance(e.func, ast.Name) and e.func.id in SHALLOW_CALLS and len(e.args) == 1:
            return 'fresh'
        return 'unknown'

    def _classify_comp(self, e, is_src_field):
        """`[x.copy() for x in src.F]`, `[K(x.a, …) for x in src.F.values()]`, `{k: K(v.a…) for k, v in src.F.items()}`"""
        if len(e.generators) != 1 or e.generators[0].ifs:
            return 'unknown'
        g = e.generators[0]
        it = g.iter
        if isinstance(it, ast.Call) and isinstance(it.func, ast.Attribute) and it.func.attr in ('values', 'items') and not it.args:
            it = it.func.value
        if not is_src_field(it):
            return 'unknown'
        tvars = [n.id for n in ast.walk(g.target) if isinstance(n, ast.Name)]
        elt = e.value if isinstance(e, ast.DictComp) else e.elt
        if isinstance(elt, ast.Name) and elt.id in tvars:
            return 'fresh'
        if isinstance(elt, ast.Call):
            fn = elt.func
            if isinstance(fn, ast.Attribute) and fn.attr == 'copy' and isinstance(fn.value, ast.Name) and fn.value.id in tvars:
                return 'deep'
            if isinstance(fn, ast.Name) and fn.id in self.infos:
                # inline copy site of class fn.id with source variable = the comprehension variable
                srcs = {n.value.id for n in ast.walk(elt) if isinstance(n, ast.Attribute) and isinstance(n.value, ast.Name) and n.value.id in tvars}
                if len(srcs) == 1:
                    self.pending_inline.append((fn.id, elt, srcs.pop()))
                    return 'deep'
        return 'unknown'

    def analyse_inline(self, K, call, src, where):
        info = self.infos[K]
        feeds = {f: [] for f in info.fields}
        self._ctor_feeds(info, call, feeds)
        self._classify_all(K, info, feeds, src, {}, set(), where)


# ------------------------------------------------------------------ Keyvalues operators

def _append_sites(fn):
    """[(receiver name, appended expression text)] of `<X>._value.append(<e>)` inside for loops over `other`."""
    out = []
    for s in _walk_stmts(fn.body):
        if isinstance(s, ast.For) and isinstance(s.iter, ast.Name) and s.iter.id == 'other':
            for n in ast.walk(s):
                if isinstance(n, ast.Call) and isinstance(n.func, ast.Attribute) and n.func.attr == 'append' \
                        and isinstance(n.func.value, ast.Attribute) and n.func.value.attr == '_value' \
                        and isinstance(n.func.value.value, ast.Name) and len(n.args) == 1:
                    out.append((n.func.value.value.id, ast.unparse(n.args[0])))
    return out


def kv_ops(kvcls):
    add, iadd, ext = _method(kvcls, '__add__'), _method(kvcls, '__iadd__'), _method(kvcls, 'extend')
    if add is None or iadd is None or ext is None:
        raise ExtractError('Keyvalues.__add__/__iadd__/extend not found')
    a = _append_sites(add)
    if len(a) != 1:
        raise ExtractError(f'Keyvalues.__add__: expected one append loop, found {a}')
    copyvar = None
    for s in _walk_stmts(add.body):
        if isinstance(s, ast.Assign) and isinstance(s.value, ast.Call) and ast.unparse(s.value) == 'self.copy()' \
                and isinstance(s.targets[0], ast.Name):
            copyvar = s.targets[0].id
    rets = [ast.unparse(s.value) for s in _walk_stmts(add.body) if isinstance(s, ast.Return) and s.value is not None]
    if copyvar is None or copyvar not in rets:
        raise ExtractError('Keyvalues.__add__: does not return self.copy()')
    recv, expr = a[0]
    if recv == 'self':
        target = 'self'
    elif recv == copyvar:
        target = 'copy'
    else:
        raise ExtractError(f'Keyvalues.__add__: appends to {recv}')
    add_copies = expr.endswith('.copy()')
    res = {'target': target, 'add_copies': add_copies}
    for nm, fn in (('iadd', iadd), ('extend', ext)):
        b = _append_sites(fn)
        if len(b) != 1 or b[0][0] != 'self':
            raise ExtractError(f'Keyvalues.{fn.name}: expected one loop appending to self, found {b}')
        res[nm + '_copies'] = b[0][1].endswith('.copy()')
    return res


# ------------------------------------------------------------------ main

def _classes(tree, names):
    found = {n.name: n for n in tree.body if isinstance(n, ast.ClassDef)}
    missing = [n for n in names if n not in found]
    if missing:
        raise ExtractError(f'classes not found: {missing}')
    return {n: found[n] for n in names}


KIND_LEAN = {'imm': '.imm', 'ctx': '.ctx', 'mutObj': '.mutObj', 'contImm': '.contImm', 'contMut': '.contMut',
             'unknown': '.unknown', 'skip': '.unknown'}


def analyse(repo):
    vmf_tree = ast.parse((repo / 'src/srctools/vmf.py').read_text(encoding='utf-8'))
    kv_tree = ast.parse((repo / 'src/srctools/keyvalues.py').read_text(encoding='utf-8'))
    kinds = Kinds([vmf_tree, kv_tree])
    classes = {}
    classes.update(_classes(vmf_tree, VMF_CLASSES))
    classes.update(_classes(kv_tree, KV_CLASSES))
    infos = {n: ClassInfo(c, kinds) for n, c in classes.items()}
    sites = Sites(infos)
    for K, info in infos.items():
        m = _method(info.cls, COPY_METHOD.get(K, 'copy'))
        if m is not None:
            sites.analyse_method(K, m)
    # helper methods that build copies of another class inline (EntityFixup.copy_values is reached
    # through Entity.copy; analysed above via classify) — then the inline sites found on the way
    seen = set()
    while sites.pending_inline:
        K, call, src = sites.pending_inline.pop(0)
        if K in seen or K in sites.result:
            continue
        seen.add(K)
        sites.analyse_inline(K, call, src, f'inline {K}(...) construction')
    table = []
    for K in VMF_CLASSES + KV_CLASSES:
        info = infos[K]
        if K in sites.result:
            site, fields = sites.result[K]
            rows = [(f, info.field_kind(f), fields[f][0], fields[f][1]) for f in info.fields]
        else:
            site = '(no copy site found)'
            rows = [(f, info.field_kind(f), 'unknown', 'class has no copy site') for f in info.fields]
        table.append((K, site, rows))
    return table, kv_ops(classes['Keyvalues'])


def generate(repo):
    table, kv = analyse(repo)
    L = ['import Srctools.Model.C09',
         '/-! GENERATED by tools/gen_copy.py from src/srctools/vmf.py and keyvalues.py — do not edit. -/',
         'namespace Gen.Copy', 'open C09', '']
    L.append('def table : Table := [')
    for ci, (K, site, rows) in enumerate(table):
        L.append(f'  {{ name := {lean_string(K)}, site := {lean_string(site)}, fields := [')
        for fi, (f, kind, treat, note) in enumerate(rows):
            sep = ',' if fi + 1 < len(rows) else ''
            L.append(f'      {{ name := {lean_string(f)}, kind := {KIND_LEAN[kind]}, treat := .{treat}, note := {lean_string(note)} }}{sep}')
        L.append('    ] }' + (',' if ci + 1 < len(table) else ''))
    L.append(']')
    L.append('')
    L.append('/-- The list the loop of `Keyvalues.__add__` appends to. -/')
    L.append(f'def kvAddTarget : AddTarget := .{kv["target"]}')
    L.append('/-- Do `__add__`, `__iadd__`, `extend` append `kv.copy()` (true) or `kv` itself? -/')
    L.append(f'def kvAddCopies : Bool := {str(kv["add_copies"]).lower()}')
    L.append(f'def kvIAddCopies : Bool := {str(kv["iadd_copies"]).lower()}')
    L.append(f'def kvExtendCopies : Bool := {str(kv["extend_copies"]).lower()}')
    L.append('')
    L.append('end Gen.Copy')
    return '\n'.join(L) + '\n'


if __name__ == '__main__':
    import pathlib, sys
    t, kv = analyse(pathlib.Path(sys.argv[1] if len(sys.argv) > 1 else '/repo'))
    for K, site, rows in t:
        print(f'{K}  [{site}]')
        for f, kind, treat, note in rows:
            print(f'    {f:20s} {kind:8s} {treat:10s} {note}')
    print(kv)
