#!/bin/sh
# usage: tools/run_repo_tests.sh [tree] [pytest args, e.g. tests/test_vtf.py]
# Runs the repo's own test-suite against the SOURCE TREE (default /repo working tree; the pinned baseline command
# imports the installed wheel instead and so never sees edits) and prints failures that are not in the
# baseline (12 Cython-related failures: no Cython here). A "fix:" commit must keep this at TESTS OK.
WT="$(readlink -f "${1:-/repo}")"; [ $# -gt 0 ] && shift
HERE="$(cd "$(dirname "$0")" && pwd)"
SEL="${*:-tests}"
cd "$WT" || exit 2
PYTHONPATH="$WT/src:$HERE/../harness/shims" timeout 1800 /venv/bin/python -m pytest $SEL -q -p no:cacheprovider -n 4 2>&1 | grep -E "^(FAILED|ERROR)" | sed 's/ - .*//' | sort > /tmp/.verif_fail.$$ 
NEW=$(comm -23 /tmp/.verif_fail.$$ $HERE/mut/baseline_failures.txt)
rm -f /tmp/.verif_fail.$$
if [ -z "$NEW" ]; then echo "TESTS OK (no failures beyond the baseline)"; exit 0; else echo "NEW TEST FAILURES:"; echo "$NEW"; exit 1; fi
