#!/usr/bin/env python3
"""Regenerate MANIFEST.json from the per-property specs (harness/p_*.py: PID, LEVEL_TEXT, LEVEL_NOTE,
TECHNIQUE, DESIGN_REF) — properties without a harness module are listed under not_applicable."""
import json, pathlib, importlib, sys, re
VERIF = pathlib.Path(__file__).resolve().parent.parent
sys.path.insert(0, str(VERIF / 'harness'))
props = [json.loads(l) for l in (VERIF / 'properties.jsonl').read_text().splitlines() if l.strip()]
NA_FILE = VERIF / 'tools' / 'not_applicable.json'
na_reasons = json.loads(NA_FILE.read_text()) if NA_FILE.exists() else {}
checks, na = [], []
for p in props:
    pid = p['id']
    f = VERIF / 'harness' / f'p_{pid.lower()}.py'
    if not f.exists() or pid in na_reasons:
        na.append({'property_id': pid, 'reason': na_reasons.get(pid, 'check not built yet (work in progress, see DESIGN.md section 8)')})
        continue
    src = f.read_text()
    def const(name, default=''):
        m = re.search(rf'^{name}\s*=\s*\(?((?:\s*(?:"(?:[^"\\]|\\.)*"|\'(?:[^\'\\]|\\.)*\')\s*)+)\)?', src, re.M)
        if not m:
            return default
        return ''.join(eval(s) for s in re.findall(r'"(?:[^"\\]|\\.)*"|\'(?:[^\'\\]|\\.)*\'', m.group(1)))
    checks.append({
        'property_id': pid,
        'quick_cmd': f'./check {pid} --tier quick',
        'thorough_cmd': f'./check {pid} --tier thorough',
        'evidence_file': f'evidence/{pid}.json',
        'replay_cmd_template': f'./check {pid} --replay {{path}}',
        'engine': 'lean4-proof+correspondence',
        'level_claimed': {
            'category': 'proof',
            'text': const('LEVEL_TEXT', 'Lean 4 theorems about an executable model, tied to the source by translator + correspondence.'),
            'design_ref': const('DESIGN_REF', f'DESIGN.md section 6, {pid}'),
        },
        'level_note': const('LEVEL_NOTE', 'Lean kernel; axioms propext/Classical.choice/Quot.sound; translator and correspondence trusted; see evidence trusted_base.'),
        'technique': const('TECHNIQUE', 'Lean 4 machine-checked proof over a model + differential correspondence'),
    })
man = {
    'version': 1,
    'setup_cmd': './setup.sh',
    'hooks': {
        'guard': 'SRCTOOLS_VERIF',
        'enable': 'no source hooks: the harness imports /repo/src (PYTHONPATH) and instruments by monkey-patching from outside; SRCTOOLS_VERIF=1 is exported by ./check for uniformity',
        'baseline_off_cmd': 'cd /repo && /venv/bin/python -m pytest -ra -q -p no:cacheprovider --timeout=900 --continue-on-collection-errors',
        'source_commits': [],
        'add_only': True,
    },
    'engines': [{
        'name': 'lean4-proof+correspondence', 'path': 'lean/',
        'serves_properties': [c['property_id'] for c in checks],
        'kind_free_text': 'Lean 4.33 lake project (models, generated tables, theorems, compiled line-protocol drivers) + python harness (translator, correspondence, failing-input search)',
    }],
    'checks': checks,
    'not_applicable': na,
    'notes': 'All checks: ./check <PID> [--tier quick|thorough]; VERIF_SEED seeds every generator; exit 2 = timeout/internal error (not a violation).',
}
(VERIF / 'MANIFEST.json').write_text(json.dumps(man, indent=1) + '\n')
print(f'{len(checks)} checks, {len(na)} not_applicable')
