"""Gen.C08: every place in srctools/vmf.py that allocates or releases an id.

Extracted (ast only):
 * `sites`: for every function, every call `<x>.<kind>_id.<method>(...)` with kind in
   ent/solid/face/group/vis/node -> (qualified function name, kind, method), in source order;
 * `cfg`: does `VMF.remove_ent` release the entity id / the node id; does `IDMan.discard`
   lower `search_pos` only for positive elements;
 * the shape of `IDMan.get_id` / `IDMan.discard` / `IDMan.remove` is checked against the shape the
   model was written for (otherwise ExtractError -> broken obligation).
"""
import ast
from extract import ExtractError, lean_string

KINDS = ('ent', 'solid', 'face', 'group', 'vis', 'node')


# sites the model knows: code < 20 must be present (the model executes them unconditionally),
# 20..29 are optional and switch a Cfg flag; anything else gets 999 (an id is allocated or released
# somewhere the model has never heard of).
SITE_CODES = {
    ('Entity.__init__', 'ent', 'get_id'): 1,
    ('Entity.__del__', 'ent', 'discard'): 2,
    ('Solid.__attrs_post_init__', 'solid', 'get_id'): 3,
    ('Solid.__del__', 'solid', 'discard'): 4,
    ('Side.__init__', 'face', 'get_id'): 5,
    ('Side.__del__', 'face', 'discard'): 6,
    ('VisGroup.__attrs_post_init__', 'vis', 'get_id'): 7,
    ('EntityGroup.__attrs_post_init__', 'group', 'get_id'): 8,
    ('Entity.__setitem__', 'node', 'discard'): 9,
    ('Entity.__setitem__', 'node', 'get_id'): 10,
    ('Entity.__delitem__', 'node', 'discard'): 11,
    ('VMF.remove_ent', 'ent', 'discard'): 20,
    ('VMF.remove_ent', 'node', 'discard'): 21,
    ('VMF.add_ent', 'node', 'get_id'): 22,
    ('VMF.add_ents', 'node', 'get_id'): 23,
}


def _norm(node):
    return ast.unparse(node).replace(' ', '')


def _functions(tree):
    """(qualname, FunctionDef) for module-level functions and methods of module-level classes."""
    for n in tree.body:
        if isinstance(n, (ast.FunctionDef, ast.AsyncFunctionDef)):
            yield n.name, n
        elif isinstance(n, ast.ClassDef):
            for m in ast.walk(n):
                if isinstance(m, (ast.FunctionDef, ast.AsyncFunctionDef)):
                    yield f'{n.name}.{m.name}', m


def _sites(tree):
    out = []
    for qn, fn in _functions(tree):
        calls = []
        for c in ast.walk(fn):
            if isinstance(c, ast.Call) and isinstance(c.func, ast.Attribute) and isinstance(c.func.value, ast.Attribute):
                man = c.func.value.attr
                if man.endswith('_id') and man[:-3] in KINDS:
                    calls.append((c.lineno, c.col_offset, qn, man[:-3], c.func.attr))
        out += sorted(calls)
    return [(q, k, m) for (_, _, q, k, m) in out]


def _method(tree, cls, name):
    found = None
    for n in tree.body:
        if isinstance(n, ast.ClassDef) and n.name == cls:
            for m in n.body:
                if isinstance(m, ast.FunctionDef) and m.name == name:
                    found = m        # the last definition wins (earlier ones are @overload stubs)
    if found is None:
        raise ExtractError(f'{cls}.{name} not found')
    return found


def _body(fn):
    return [s for s in fn.body if not (isinstance(s, ast.Expr) and isinstance(s.value, ast.Constant))]


GET_ID = ("ifdesired>0anddesirednotinself._used:\n"
          "self._used.add(desired)\n"
          "returndesired|"
          "poss_id=self.search_pos|"
          "whileTrue:\n"
          "ifposs_idnotinself:\n"
          "self._used.add(poss_id)\n"
          "self.search_pos=poss_id+1\n"
          "returnposs_id\n"
          "poss_id+=1")


def _shape(fn):
    return '|'.join('\n'.join(l.strip() for l in ast.unparse(s).replace(' ', '').splitlines()) for s in _body(fn))


def _discard_guard(fn, setop):
    """Body must be `self._used.<setop>(element)` then `if <cond>: self.search_pos = element`.
    Returns True when <cond> also requires element to be positive."""
    b = _body(fn)
    if len(b) != 2 or _norm(b[0]) != f'self._used.{setop}(element)' or not isinstance(b[1], ast.If) or b[1].orelse \
            or [_norm(x) for x in b[1].body] != ['self.search_pos=element']:
        raise ExtractError(f'IDMan.{fn.name}: unrecognised body: {ast.unparse(fn)[-200:]}')
    cond = _norm(b[1].test)
    if cond == 'element<self.search_pos':
        return False
    if cond in ('0<element<self.search_pos', 'element>0andelement<self.search_pos', '0<elementandelement<self.search_pos',
                'element<self.search_pospandelement>0', '1<=element<self.search_pos', 'element<self.search_posandelement>0',
                'element<self.search_posand0<element'):
        return True
    raise ExtractError(f'IDMan.{fn.name}: unrecognised search_pos condition: {cond}')


def generate(repo):
    src = (repo / 'src/srctools/vmf.py').read_text(encoding='utf-8')
    tree = ast.parse(src)
    sites = _sites(tree)
    if not sites:
        raise ExtractError('no id manager call found')
    if _shape(_method(tree, 'IDMan', 'get_id')) != GET_ID:
        raise ExtractError('IDMan.get_id: unrecognised body: ' + _shape(_method(tree, 'IDMan', 'get_id')))
    g1 = _discard_guard(_method(tree, 'IDMan', 'discard'), 'discard')
    g2 = _discard_guard(_method(tree, 'IDMan', 'remove'), 'remove')
    if g1 != g2:
        raise ExtractError('IDMan.discard and IDMan.remove treat search_pos differently')
    init = _shape(_method(tree, 'IDMan', '__init__'))
    if 'self._used=set(existing)' not in init or 'self.search_pos=1' not in init:
        raise ExtractError('IDMan.__init__: unrecognised body')
    rm_ent = ('VMF.remove_ent', 'ent', 'discard') in sites
    rm_node = ('VMF.remove_ent', 'node', 'discard') in sites
    add_node = ('VMF.add_ent', 'node', 'get_id') in sites
    if add_node != (('VMF.add_ents', 'node', 'get_id') in sites):
        raise ExtractError('VMF.add_ent and VMF.add_ents treat node ids differently')
    if add_node:
        fn = ast.unparse(_method(tree, 'VMF', 'add_ent')).replace(' ', '')
        if "item['nodeid']=str(self.node_id.get_id(node_id))" not in fn:
            raise ExtractError('VMF.add_ent: unrecognised use of node_id.get_id')
    pop = _method(tree, 'Entity', 'pop')
    pop_del = any(isinstance(n, ast.Delete) and any(isinstance(x, ast.Subscript) and _norm(x.value) == 'self' for x in n.targets)
                  for n in ast.walk(pop))
    pop_raw = 'self._keys.pop(' in _norm(pop)
    if pop_del == pop_raw:
        raise ExtractError('Entity.pop: neither `del self[k]` nor `self._keys.pop(k)`: ' + ast.unparse(pop)[-200:])
    parse = _norm(_method(tree, 'VMF', 'parse'))
    if 'map_obj.spawn=worldspawn=Entity.parse(map_obj,map_spawn,_worldspawn=True)' not in parse:
        raise ExtractError('VMF.parse: unrecognised worldspawn handling')
    if "placeholder=map_obj.spawn" in parse and "_remove_copyset(map_obj.by_class,'worldspawn',placeholder)" in parse \
            and '_remove_copyset(map_obj.by_target,None,placeholder)' in parse:
        keeps = False
    elif 'placeholder' not in parse and '_remove_copyset' not in parse:
        keeps = True
    else:
        raise ExtractError('VMF.parse: unrecognised handling of the placeholder spawn entity')
    rm = _method(tree, 'VMF', 'remove_ent')
    rb = _body(rm)
    spawn_raises = bool(rb) and isinstance(rb[0], ast.If) and _norm(rb[0].test) == 'itemisself.spawn' \
        and len(rb[0].body) == 1 and isinstance(rb[0].body[0], ast.Raise) and not rb[0].orelse
    if not spawn_raises and 'self.spawn' in _norm(rm):
        raise ExtractError('VMF.remove_ent: unrecognised treatment of self.spawn')
    sdel = [_norm(x) for x in _body(_method(tree, 'Solid', '__del__'))]
    spost = [_norm(x) for x in _body(_method(tree, 'Solid', '__attrs_post_init__'))]
    if sdel == ['self.map.solid_id.discard(self.id)'] and spost == ['self.id=self.map.solid_id.get_id(self.id)']:
        failed_ctor = True
    elif sdel == ["ifgetattr(self,'_id_registered',False):\nself.map.solid_id.discard(self.id)"] \
            and spost == ['self.id=self.map.solid_id.get_id(self.id)', 'self._id_registered=True']:
        failed_ctor = False
    else:
        raise ExtractError(f'Solid.__del__/__attrs_post_init__: unrecognised bodies: {sdel} {spost}')
    b = lambda x: 'true' if x else 'false'
    lines = [
        'import Srctools.Model.C08',
        '/-! GENERATED by tools/gen_c08.py from src/srctools/vmf.py — do not edit. -/',
        'namespace Gen.C08',
        '',
        '/-- (function, manager, method) of every id-manager call in vmf.py, in source order. -/',
        'def sites : List (String × String × String) := [',
        ',\n'.join(f'  ({lean_string(q)}, {lean_string(k)}, {lean_string(m)})' for q, k, m in sites),
        ']',
        '',
        '/-- the same as sorted codes: 1..11 = sites the model always executes, 20..23 = sites behind a `cfg` flag,',
        '999 = a site the model does not know. -/',
        'def siteCodes : List Nat := [' + ', '.join(str(c) for c in sorted(SITE_CODES.get(s, 999) for s in sites)) + ']',
        '',
        '/-- release sites / guards the model is run with. -/',
        'def cfg : C08.Cfg :=',
        f'  {{ removeEntDiscardsEntId := {b(rm_ent)}, removeEntDiscardsNodeId := {b(rm_node)}, discardGuard := {b(g1)},\n    addEntAllocatesNode := {b(add_node)}, popReleasesNode := {b(pop_del)},\n    parseKeepsPlaceholder := {b(keeps)}, removeSpawnRaises := {b(spawn_raises)},\n    failedCtorReleases := {b(failed_ctor)} }}',
        '',
        'end Gen.C08',
        '',
    ]
    return '\n'.join(lines)
