"""Gen.C07: which index-maintenance call sites of srctools/vmf.py fold / normalise their key.

The C07 model (lean/Srctools/Model/C07.lean) is parameterised by a record `Fix` of booleans, one per
call site whose shape decides whether the by_class / by_target indexes stay coherent.  This
translator reads the *shape* of those sites from the current source (ast only) and emits the record
`Gen.C07.current`, so that the model (driver) follows the source and the obligation
`C07_gen_current : Gen.C07.current = Fix.all` (Props/C07.lean) breaks when a site regresses.
A site that has neither the as-found nor the repaired shape raises ExtractError.
"""
import ast
from extract import ExtractError, lean_string


def _norm(node):
    return ast.unparse(node).replace(' ', '').replace('"', "'")


def _func(cls, name):
    for n in cls.body:
        if isinstance(n, ast.FunctionDef) and n.name == name and not any(
                isinstance(d, ast.Name) and d.id == 'overload' for d in n.decorator_list):
            return n
    raise ExtractError(f'{cls.name}.{name} not found')


def _calls(node, fname):
    return [n for n in ast.walk(node) if isinstance(n, ast.Call) and isinstance(n.func, ast.Name) and n.func.id == fname]


def _remove_sites(fn, mapping):
    """key expressions of `_remove_copyset(<mapping>, KEY, …)` calls in fn."""
    out = []
    for c in _calls(fn, '_remove_copyset'):
        if len(c.args) == 3 and _norm(c.args[0]) == mapping:
            out.append(_norm(c.args[1]))
    return out


def _add_sites(fn, mapping):
    """(key expression, guarding if-tests from outermost to innermost) of `<mapping>[KEY].add(self)`."""
    out = []

    def walk(stmts, guards):
        for st in stmts:
            if isinstance(st, ast.If):
                walk(st.body, guards + [_norm(st.test)])
                walk(st.orelse, guards + ['not(' + _norm(st.test) + ')'])
                continue
            for sub in ('body', 'orelse', 'finalbody'):
                if hasattr(st, sub) and isinstance(getattr(st, sub), list):
                    walk(getattr(st, sub), guards)
            for n in ast.walk(st) if not isinstance(st, (ast.For, ast.While, ast.Try, ast.With)) else []:
                if isinstance(n, ast.Call) and isinstance(n.func, ast.Attribute) and n.func.attr == 'add' \
                        and isinstance(n.func.value, ast.Subscript) and _norm(n.func.value.value) == mapping:
                    out.append((_norm(n.func.value.slice), list(guards)))
    walk(fn.body, [])
    return out


def _one(lst, what):
    if len(lst) != 1:
        raise ExtractError(f'{what}: expected exactly one site, found {len(lst)}: {lst}')
    return lst[0]


def _choose(val, table, what):
    if val not in table:
        raise ExtractError(f'{what}: unrecognised shape {val!r}')
    return table[val]


# --------------------------------------------------------------------------- writer audit
# Every place that can change what the indexes must say (an entity's keyvalues, the entity list, the
# worldspawn binding) or the indexes themselves has to be one of the sites the model covers.  Anything
# else is listed in `unauditedWriters` (obligation: empty), so a newly added bypass is flagged even
# before a history finds it.

DICT_MUTATORS = {'pop', 'popitem', 'clear', 'update', 'setdefault', '__setitem__', '__delitem__', '__ior__'}
LIST_MUTATORS = {'append', 'extend', 'remove', 'insert', 'pop', 'clear', 'sort', 'reverse', '__delitem__',
                 '__setitem__', '__iadd__', '__imul__'}
SET_MUTATORS = {'add', 'discard', 'remove', 'pop', 'clear', 'update', 'difference_update', 'intersection_update',
                'symmetric_difference_update', '__ior__', '__iand__', '__isub__', '__ixor__', 'setdefault',
                '__setitem__', '__delitem__', 'popitem'}
MIXIN_MUTATORS = {'setdefault', 'update', 'popitem', '__ior__', '__or__', '__ror__'}

KEYS_WRITERS = {   # function -> allowed normalised statements that store into / delete from _keys
    'Entity.__init__': {'self._keys=_KeyDict()'},
    'Entity.__setitem__': {'self._keys[k]=str_val', 'self._keys[key]=str_val',
                           'self._keys[key]=str(self.map.node_id.get_id(node_id))'},
    'Entity.__delitem__': {'val=self._keys.pop(k)'},
    'Entity.pop': {'returnself._keys.pop(k)'},                 # as-found shape (flag popViaDel)
    'Entity.clear': {'self._keys.clear()', "self._keys['classname']='info_null'"},
}
KEYS_ESCAPES = {'Entity.keys': {'returnself._keys'}, 'Entity.copy': {'keys=self._keys'}}
INDEX_WRITERS = {'VMF.__init__', 'VMF.add_ent', 'VMF.add_ents', 'VMF.remove_ent', 'VMF.parse',
                 'Entity.__setitem__', 'Entity.__delitem__', '_remove_copyset'}
ENTITIES_WRITERS = {'VMF.__init__': {'self.entities=[]'}, 'VMF.add_ent': {'self.entities.append(item)'},
                    'VMF.add_ents': {'self.entities.extend(ents)'}, 'VMF.remove_ent': {'self.entities.remove(item)'}}
SPAWN_WRITERS = {'VMF.__init__', 'VMF.parse'}


def _functions(tree):
    """(qualified name, FunctionDef) for every function/method, nested ones under their parent's name."""
    out = []

    def walk(node, prefix):
        for n in ast.iter_child_nodes(node):
            if isinstance(n, (ast.FunctionDef, ast.AsyncFunctionDef)):
                out.append((prefix + n.name, n))
                walk(n, prefix + n.name + '.')
            elif isinstance(n, ast.ClassDef):
                walk(n, prefix + n.name + '.')
            else:
                walk(n, prefix)
    walk(tree, '')
    return out


def _own_nodes(fn):
    """nodes of fn's body excluding nested function/class definitions, each with its parent chain."""
    stack = [(c, [fn]) for c in ast.iter_child_nodes(fn)]
    while stack:
        n, parents = stack.pop()
        if isinstance(n, (ast.FunctionDef, ast.AsyncFunctionDef, ast.ClassDef)):
            continue
        yield n, parents
        for c in ast.iter_child_nodes(n):
            stack.append((c, parents + [n]))


def _stmt_of(parents, node):
    for p in reversed(parents + [node]):
        if isinstance(p, (ast.Assign, ast.AugAssign, ast.AnnAssign, ast.Delete, ast.Expr, ast.Return)):
            return p
    return node


def _is_attr(n, name):
    return isinstance(n, ast.Attribute) and n.attr == name


def _audit_module(tree, modname, full):
    """full=True for vmf.py (allow-lists apply); other modules may only read."""
    bad = []
    scopes = _functions(tree) + [('<module>', tree)]
    for c in ast.walk(tree):
        if isinstance(c, ast.ClassDef):
            scopes.append((c.name + '.<class body>', c))
    for qual, fn in scopes:
        for n, parents in _own_nodes(fn):
            par = parents[-1]
            # ---- Entity._keys
            if _is_attr(n, '_keys'):
                stmt = _norm(_stmt_of(parents, n))
                write = False
                if isinstance(n.ctx, (ast.Store, ast.Del)):
                    write = True
                elif isinstance(par, ast.Subscript) and par.value is n and isinstance(par.ctx, (ast.Store, ast.Del)):
                    write = True
                elif isinstance(par, ast.Attribute) and par.value is n and par.attr in DICT_MUTATORS:
                    write = True
                elif isinstance(par, ast.AugAssign) and par.target is n:
                    write = True
                if write:
                    if not (full and stmt in KEYS_WRITERS.get(qual, ())):
                        bad.append(f'{modname}:{qual} writes _keys: {stmt}')
                    continue
                read_ok = (
                    (isinstance(par, ast.Subscript) and par.value is n and isinstance(par.ctx, ast.Load))
                    or (isinstance(par, ast.Attribute) and par.value is n and par.attr in ('get', 'items', 'keys', 'values'))
                    or (isinstance(par, ast.For) and par.iter is n)
                    or (isinstance(par, ast.comprehension) and par.iter is n)
                    or (isinstance(par, ast.Call) and isinstance(par.func, ast.Name) and par.func.id in ('len', 'iter', 'sorted', 'list')
                        and n in par.args)
                    or (isinstance(par, ast.Compare) and n in par.comparators))
                if read_ok:
                    continue
                esc = _norm(par) if isinstance(par, (ast.Return, ast.keyword)) else stmt
                if not (full and esc in KEYS_ESCAPES.get(qual, ())):
                    bad.append(f'{modname}:{qual} lets _keys escape: {esc}')
                continue
            # ---- by_class / by_target
            if isinstance(n, ast.Attribute) and n.attr in ('by_class', 'by_target'):
                write = False
                if isinstance(n.ctx, (ast.Store, ast.Del)):
                    write = True
                elif isinstance(par, ast.Subscript) and par.value is n:
                    gp = parents[-2] if len(parents) >= 2 else None
                    if isinstance(par.ctx, (ast.Store, ast.Del)):
                        write = True
                    elif isinstance(gp, ast.Attribute) and gp.value is par and gp.attr in SET_MUTATORS:
                        write = True
                    elif isinstance(gp, ast.AugAssign) and gp.target is par:
                        write = True
                elif isinstance(par, ast.Attribute) and par.value is n and par.attr in SET_MUTATORS:
                    write = True
                elif isinstance(par, ast.Call) and isinstance(par.func, ast.Name) and par.func.id == '_remove_copyset':
                    write = True
                elif isinstance(par, ast.AugAssign) and par.target is n:
                    write = True
                if write and not (full and qual in INDEX_WRITERS):
                    bad.append(f'{modname}:{qual} writes {n.attr}: {_norm(_stmt_of(parents, n))}')
                continue
            if not full:
                continue
            # ---- VMF.entities (vmf.py only: other modules have unrelated `.entities`)
            if _is_attr(n, 'entities') and qual.split('.')[0] in ('VMF', 'Entity'):
                write = False
                if isinstance(n.ctx, (ast.Store, ast.Del)):
                    write = True
                elif isinstance(par, ast.Subscript) and par.value is n and isinstance(par.ctx, (ast.Store, ast.Del)):
                    write = True
                elif isinstance(par, ast.Attribute) and par.value is n and par.attr in LIST_MUTATORS:
                    write = True
                elif isinstance(par, ast.AugAssign) and par.target is n:
                    write = True
                if write:
                    stmt = _norm(_stmt_of(parents, n))
                    if stmt not in ENTITIES_WRITERS.get(qual, ()):
                        bad.append(f'{modname}:{qual} writes entities: {stmt}')
                continue
            # ---- VMF.spawn rebinding, Entity.map rebinding
            if _is_attr(n, 'spawn') and isinstance(n.ctx, (ast.Store, ast.Del)) and qual not in SPAWN_WRITERS:
                bad.append(f'{modname}:{qual} rebinds spawn: {_norm(_stmt_of(parents, n))}')
            if _is_attr(n, 'map') and isinstance(n.ctx, (ast.Store, ast.Del)) and qual.startswith('Entity.') \
                    and qual != 'Entity.__init__':
                bad.append(f'{modname}:{qual} rebinds Entity.map: {_norm(_stmt_of(parents, n))}')
    return bad


def _audit_writers(repo, vmf_tree):
    bad = _audit_module(vmf_tree, 'vmf.py', True)
    classes = {n.name: n for n in vmf_tree.body if isinstance(n, ast.ClassDef)}
    # MutableMapping mutators the model treats as inherited must not be overridden
    for cname in ('Entity', '_KeyDict'):
        for n in classes[cname].body if cname in classes else []:
            names = []
            if isinstance(n, (ast.FunctionDef, ast.AsyncFunctionDef)):
                names = [n.name]
            elif isinstance(n, ast.Assign):
                names = [t.id for t in n.targets if isinstance(t, ast.Name)]
            for nm in names:
                if nm in MIXIN_MUTATORS or (cname == '_KeyDict' and nm != '__call__'):
                    bad.append(f'vmf.py:{cname}.{nm} overrides a mapping mutator the model takes as inherited')
    # aliases of audited methods (clear_keys = clear) are fine; any other class-level alias of a mutator is not
    for n in classes['Entity'].body:
        if isinstance(n, ast.Assign) and isinstance(n.value, ast.Name) and n.value.id in (
                '__setitem__', '__delitem__', 'pop', 'clear') and _norm(n) != 'clear_keys=clear':
            bad.append(f'vmf.py:Entity alias {_norm(n)}')
    for path in sorted((repo / 'src/srctools').rglob('*.py')):
        if path.name == 'vmf.py':
            continue
        text = path.read_text(encoding='utf-8')
        if '_keys' not in text and 'by_class' not in text and 'by_target' not in text and '_remove_copyset' not in text:
            continue
        try:
            t = ast.parse(text)
        except SyntaxError as exc:
            raise ExtractError(f'{path.name}: {exc}')
        bad += _audit_module(t, path.name, False)
    return sorted(set(bad))


IN_MAP = 'selfinself.map.entities'
IN_MAP_OR_SPAWN = 'selfinself.map.entitiesorselfisself.map.spawn'


def generate(repo):
    src = (repo / 'src/srctools/vmf.py').read_text(encoding='utf-8')
    tree = ast.parse(src)
    classes = {n.name: n for n in tree.body if isinstance(n, ast.ClassDef)}
    for c in ('VMF', 'Entity'):
        if c not in classes:
            raise ExtractError(f'class {c} not found')
    ent, vmf = classes['Entity'], classes['VMF']
    notes = []

    # ---- Entity.__setitem__
    si = _func(ent, '__setitem__')
    a = _choose(_one(_remove_sites(si, 'self.map.by_class'), '__setitem__ by_class removal'),
                {"orig_valor''": False, "(orig_valor'').casefold()": True}, '__setitem__ by_class removal key')
    rm_t = _choose(_one(_remove_sites(si, 'self.map.by_target'), '__setitem__ by_target removal'),
                   {'orig_val': False, "(orig_valor'').casefold()orNone": True}, '__setitem__ by_target removal key')
    adds_c = _add_sites(si, 'self.map.by_class')
    if sorted(k for k, _ in adds_c) != ["'worldspawn'", 'str_val.casefold()']:
        raise ExtractError(f'__setitem__ by_class insertions: unrecognised {adds_c}')
    for k, g in adds_c:
        want = ["key_fold=='classname'", IN_MAP] if k == 'str_val.casefold()' else \
            ["key_fold=='classname'", f'not({IN_MAP})', 'selfisself.map.spawn']
        if g != want:
            raise ExtractError(f'__setitem__ by_class insertion {k}: guards {g}')
    key_t, guards_t = _one(_add_sites(si, 'self.map.by_target'), '__setitem__ by_target insertion')
    ad_t = _choose(key_t, {'str_val': False, 'str_val.casefold()orNone': True}, '__setitem__ by_target insertion key')
    if rm_t != ad_t:
        raise ExtractError('__setitem__: by_target removal and insertion normalise their key differently')
    if len(guards_t) != 3 or guards_t[0] != "not(key_fold=='classname')" or guards_t[1] != "key_fold=='targetname'":
        raise ExtractError(f'__setitem__ by_target insertion guards {guards_t}')
    d = _choose(guards_t[2], {IN_MAP: False, IN_MAP_OR_SPAWN: True}, '__setitem__ by_target insertion guard')
    # the revert of a worldspawn re-class must still be there
    s_si = _norm(si)
    if "self['classname']='worldspawn'" not in s_si or 'raiseValueError(' not in s_si \
            or "str_val.casefold()!='worldspawn'" not in s_si:
        raise ExtractError('__setitem__: worldspawn revert/raise not recognised')

    # ---- Entity.__delitem__
    di = _func(ent, '__delitem__')
    e = _choose(_one(_remove_sites(di, 'self.map.by_target'), '__delitem__ by_target removal'),
                {"self._keys.get('targetname',None)": False, "self['targetname'].casefold()orNone": True},
                '__delitem__ by_target removal key')
    key_d, guards_d = _one(_add_sites(di, 'self.map.by_target'), '__delitem__ by_target insertion')
    if key_d != 'None' or not guards_d or guards_d[0] != "key=='targetname'":
        raise ExtractError(f'__delitem__ by_target insertion: {key_d} {guards_d}')
    f = _choose(tuple(guards_d[1:]), {(): False, (IN_MAP_OR_SPAWN,): True}, '__delitem__ by_target insertion guard')
    s_di = _norm(di)
    if "ifkey=='classname':raiseKeyError(" not in s_di.replace('\n', ''):
        raise ExtractError('__delitem__: classname KeyError not recognised')

    # ---- Entity.pop
    po = _func(ent, 'pop')
    s_po = _norm(po)
    if 'returnself._keys.pop(k)' in s_po and 'delself[k]' not in s_po:
        g = False
    elif 'delself[k]' in s_po and '_keys.pop' not in s_po:
        g = True
    else:
        raise ExtractError('Entity.pop: unrecognised shape')

    # ---- Entity.clear
    cl = _func(ent, 'clear')
    stm = [_norm(s) for s in cl.body if not (isinstance(s, ast.Expr) and isinstance(s.value, ast.Constant))]
    base = ["self['classname']='info_null'", "delself['targetname']", 'self._keys.clear()']
    if stm[:3] != base:
        raise ExtractError(f'Entity.clear: unrecognised shape {stm}')
    rest = [s for s in stm[3:] if s != 'self._fixup=None']
    h = _choose(tuple(rest), {(): False, ("self._keys['classname']='info_null'",): True}, 'Entity.clear tail')

    # ---- VMF.add_ent / add_ents / remove_ent (must fold; these were right as found)
    for name, cls_keys, tgt_key in (
            ('add_ent', ["item['classname',''].casefold()"], "item['targetname',''].casefold()orNone"),
            ('add_ents', ["item['classname'].casefold()"], "item['targetname',''].casefold()orNone")):
        fn = _func(vmf, name)
        kc = [k for k, _ in _add_sites(fn, 'self.by_class')]
        kt = [k for k, _ in _add_sites(fn, 'self.by_target')]
        # add_ents' sites are inside a for loop: scan the loop body too
        if not kc:
            for n in ast.walk(fn):
                if isinstance(n, ast.For):
                    kc += [k for k, _ in _add_sites(n, 'self.by_class')]
                    kt += [k for k, _ in _add_sites(n, 'self.by_target')]
        if kc != cls_keys or kt != [tgt_key]:
            raise ExtractError(f'VMF.{name}: index insertions {kc} {kt}')
    re_ = _func(vmf, 'remove_ent')
    if _remove_sites(re_, 'self.by_class') != ["item['classname'].casefold()"] or \
            _remove_sites(re_, 'self.by_target') != ["item['targetname'].casefold()orNone"]:
        raise ExtractError('VMF.remove_ent: index removals not recognised')
    first = [s for s in re_.body if not (isinstance(s, ast.Expr) and isinstance(s.value, ast.Constant))][0]
    j = isinstance(first, ast.If) and _norm(first.test) == 'itemisself.spawn' and \
        len(first.body) == 1 and isinstance(first.body[0], ast.Raise) and 'ValueError' in _norm(first.body[0]) \
        and not first.orelse
    if not j and 'self.spawn' in _norm(re_):
        raise ExtractError('VMF.remove_ent: unrecognised worldspawn handling')

    # ---- VMF.__init__ and VMF.parse
    ini = _func(vmf, '__init__')
    s_ini = _norm(ini)
    if "self.spawn['classname']='worldspawn'" not in s_ini or 'self.by_target[None].add(self.spawn)' not in s_ini:
        raise ExtractError('VMF.__init__: worldspawn indexing not recognised')
    pa = _func(vmf, 'parse')
    s_pa = _norm(pa)
    if "worldspawn['classname']='worldspawn'" not in s_pa or \
            "map_obj.by_target[worldspawn['targetname'].casefold()orNone].add(worldspawn)" not in s_pa:
        raise ExtractError('VMF.parse: worldspawn indexing not recognised')
    rc = _remove_sites(pa, 'map_obj.by_class')
    rt = _remove_sites(pa, 'map_obj.by_target')
    if rc == [] and rt == []:
        i = False
    elif rc == ["'worldspawn'"] and rt == ['None']:
        # both removals must name the entity that was `map_obj.spawn` BEFORE the world block rebinds it:
        #   <name> = map_obj.spawn            (saved reference)
        #   map_obj.spawn = … Entity.parse(…)  (rebinding)
        args = {_norm(c.args[2]) for c in _calls(pa, '_remove_copyset')}
        binds = [n.lineno for n in ast.walk(pa) if isinstance(n, ast.Assign)
                 and any(_norm(t) == 'map_obj.spawn' for t in n.targets)]
        saves = {_norm(n.targets[0]): n.lineno for n in ast.walk(pa) if isinstance(n, ast.Assign)
                 and len(n.targets) == 1 and isinstance(n.targets[0], ast.Name) and _norm(n.value) == 'map_obj.spawn'}
        if len(binds) != 1 or len(args) != 1:
            raise ExtractError(f'VMF.parse: placeholder removal not recognised ({args}, {binds})')
        arg = args.pop()
        if arg not in saves or saves[arg] > binds[0]:
            raise ExtractError(f'VMF.parse: {arg} is not the worldspawn saved before map_obj.spawn is rebound')
        i = True
    else:
        raise ExtractError(f'VMF.parse: unrecognised index removals {rc} {rt}')

    # ---- _remove_copyset / CopySet
    top = {n.name: n for n in tree.body if isinstance(n, (ast.FunctionDef, ast.ClassDef))}
    rcs = _norm(top.get('_remove_copyset') or ast.parse('0'))
    if 'copyset.discard(ent)' not in rcs:
        raise ExtractError('_remove_copyset: unrecognised')
    cs = _norm(top.get('CopySet') or ast.parse('0'))
    if 'frozenset(self)' not in cs or 'yieldfrom(self-cur_items)' not in cs:
        raise ExtractError('CopySet.__iter__: unrecognised')

    unaudited = _audit_writers(repo, tree)

    flags = [a, rm_t, d, e, f, g, h, i, bool(j)]
    names = ['clsRemoveFold', 'nameKeyNorm', 'spawnNameIdx', 'delKeyNorm', 'delLooseGuard', 'popViaDel',
             'clearKeepsClass', 'parseDropsPlaceholder', 'removeSpawnGuard']
    body = ',\n    '.join(f'{n} := {"true" if v else "false"}' for n, v in zip(names, flags))
    return (
        "import Srctools.Model.C07\n"
        "/-! GENERATED by tools/gen_c07.py from src/srctools/vmf.py — do not edit.\n"
        "Shape of the index-maintenance call sites of the current source (see Model/C07.lean `Fix`). -/\n"
        "namespace Gen.C07\n\n"
        "def current : _root_.C07.Fix :=\n"
        f"  {{ {body} }}\n\n"
        "/-- writers of `Entity._keys`, `by_class`/`by_target`, `VMF.entities`, `VMF.spawn` and overrides of\n"
        "MutableMapping mutators that are NOT among the audited sites the model covers (must be empty). -/\n"
        "def unauditedWriters : List String :=\n"
        f"  [{', '.join(lean_string(u) for u in unaudited)}]\n\n"
        "end Gen.C07\n")
