#!/bin/sh
# usage: tools/repo_fix.sh <patchfile> "<commit message starting with fix: or hook:>"
# Commits ONE patch to /repo without touching other uncommitted edits in its working tree.
# The patch must be a `git diff` against /repo HEAD of exactly the lines of this fix.
# If the working tree does not have the change yet it is applied there too.
set -e
PATCH="$(readlink -f "$1")"; MSG="$2"
REPO="${VERIF_REPO:-/repo}"
exec 9>/tmp/.verif_repo_git.lock
flock 9
cd "$REPO"
if git apply --check -R "$PATCH" 2>/dev/null; then :; else git apply "$PATCH"; fi
git apply --cached "$PATCH"
git commit -q -m "$MSG"
git log --oneline | head -1
