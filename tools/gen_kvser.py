"""Gen.Kvser: what `Keyvalues._serialise` / `Keyvalues.serialise` (srctools/keyvalues.py) write.

Extracted with `ast` only:
  * `cfg`   — for each of the three string fields that reach the output (block name, leaf name,
              leaf value): is it passed through `escape_text(...)` (single-line mode) or written raw;
  * `shape` — the f-strings of the four `file.write(...)` calls, of `child_indent`, of the brace
              strings built in `serialise`, and the indent argument of the two recursive calls,
              each as a list of segments ("$var" for an interpolated variable, "$name"/"$value"
              for the node's fields whether escaped or not, anything else is literal text).
  * `parseGuards` — in `Keyvalues.parse`, whether the two flag-replace tests
              `can_flag_replace and cur_block_contents[-1]...` are guarded by `cur_block_contents and`
              (unguarded they raise IndexError on an empty block).
The model `C01.serKV` is hand written for the expected shape (checked by `C01_gen_shape`) and takes
`cfg` as a parameter, so that it follows the source as coded.
"""
import ast
from extract import ExtractError, lean_string


def _method(cls, name):
    fns = [n for n in cls.body if isinstance(n, ast.FunctionDef) and n.name == name
           and not any(ast.unparse(d) == 'overload' for d in n.decorator_list)]
    if len(fns) != 1:
        raise ExtractError(f'Keyvalues.{name}: expected one implementation, found {len(fns)}')
    return fns[0]


def _field(node):
    """('name'|'value', escaped) for self._real_name / self._value, possibly inside escape_text()."""
    esc = False
    if isinstance(node, ast.Call):
        if not (isinstance(node.func, ast.Name) and node.func.id == 'escape_text' and len(node.args) == 1
                and not node.keywords):
            raise ExtractError('unrecognised call in f-string: ' + ast.unparse(node))
        esc = True
        node = node.args[0]
    src = ast.unparse(node)
    if src == 'self._real_name':
        return 'name', esc
    if src == 'self._value':
        return 'value', esc
    raise ExtractError('unrecognised interpolation: ' + src)


def _segments(node, fields):
    """Segments of a str constant / f-string. `fields` collects (which, escaped)."""
    if isinstance(node, ast.Constant) and isinstance(node.value, str):
        return [node.value] if node.value else []
    if not isinstance(node, ast.JoinedStr):
        raise ExtractError('not a string literal / f-string: ' + ast.unparse(node))
    out = []
    for v in node.values:
        if isinstance(v, ast.Constant):
            if not isinstance(v.value, str):
                raise ExtractError('non-str constant in f-string')
            out.append(v.value)
        elif isinstance(v, ast.FormattedValue):
            if v.conversion != -1 or v.format_spec is not None:
                raise ExtractError('conversion/format spec in f-string: ' + ast.unparse(node))
            if isinstance(v.value, ast.Name):
                out.append('$' + v.value.id)
            else:
                which, esc = _field(v.value)
                fields.append((which, esc))
                out.append('$' + which)
        else:
            raise ExtractError('unrecognised f-string part')
    # merge adjacent literals
    merged = []
    for s in out:
        if merged and not s.startswith('$') and not merged[-1].startswith('$'):
            merged[-1] += s
        else:
            merged.append(s)
    return merged


class _Writes(ast.NodeVisitor):
    def __init__(self):
        self.writes = []     # JoinedStr args of file.write(...), in source order
        self.recurse = []    # last positional arg of *. _serialise(...) calls, in source order
        self.assigns = {}    # simple `name = <str>` assignments

    def visit_Call(self, node):
        f = node.func
        if isinstance(f, ast.Attribute) and f.attr == 'write' and ast.unparse(f.value) == 'file':
            if len(node.args) != 1 or node.keywords:
                raise ExtractError('file.write with unexpected arguments')
            self.writes.append(node.args[0])
        elif isinstance(f, ast.Attribute) and f.attr == '_serialise':
            if len(node.args) != 5 or node.keywords:
                raise ExtractError('_serialise call with unexpected arguments: ' + ast.unparse(node))
            if [ast.unparse(a) for a in node.args[:4]] != ['file', 'indent', 'open_brace', 'close_brace']:
                raise ExtractError('_serialise call passes different options down: ' + ast.unparse(node))
            self.recurse.append((ast.unparse(f.value), node.args[4]))
        self.generic_visit(node)

    def visit_Assign(self, node):
        if len(node.targets) == 1 and isinstance(node.targets[0], ast.Name):
            self.assigns[node.targets[0].id] = node.value
        self.generic_visit(node)


def generate(repo):
    src = (repo / 'src/srctools/keyvalues.py').read_text(encoding='utf-8')
    tree = ast.parse(src)
    cls = next((n for n in tree.body if isinstance(n, ast.ClassDef) and n.name == 'Keyvalues'), None)
    if cls is None:
        raise ExtractError('class Keyvalues not found')
    ser, pub = _method(cls, '_serialise'), _method(cls, 'serialise')
    if [a.arg for a in ser.args.args] != ['self', 'file', 'indent', 'open_brace', 'close_brace', 'cur_indent']:
        raise ExtractError('_serialise: unexpected parameters')
    # overall control shape: if isinstance(self._value, list): (if self._real_name is None: root else block) else leaf
    body = [s for s in ser.body if not (isinstance(s, ast.Expr) and isinstance(s.value, ast.Constant))
            and not isinstance(s, ast.AnnAssign)]
    if not (len(body) == 1 and isinstance(body[0], ast.If)
            and ast.unparse(body[0].test) == 'isinstance(self._value, list)'):
        raise ExtractError('_serialise: unrecognised top-level structure')
    top = body[0]
    if not (len(top.body) == 1 and isinstance(top.body[0], ast.If)
            and ast.unparse(top.body[0].test) == 'self._real_name is None'):
        raise ExtractError('_serialise: unrecognised block branch')
    root_b, block_b, leaf_b = top.body[0].body, top.body[0].orelse, top.orelse
    shape, fields = [], {}

    def part(label, stmts, n_writes, n_rec):
        w = _Writes()
        for s in stmts:
            w.visit(s)
        if len(w.writes) != n_writes or len(w.recurse) != n_rec:
            raise ExtractError(f'_serialise {label}: {len(w.writes)} writes / {len(w.recurse)} recursive calls')
        return w

    w = part('root', root_b, 0, 1)
    if w.recurse[0][0] != 'child':
        raise ExtractError('root branch does not recurse on child')
    shape.append(('root_child_indent', _segments(w.recurse[0][1], [])))
    if not (len(root_b) == 1 and isinstance(root_b[0], ast.For) and ast.unparse(root_b[0].iter) == 'self._value'
            and ast.unparse(root_b[0].target) == 'child'):
        raise ExtractError('root branch: unrecognised loop')

    w = part('block', block_b, 3, 1)
    fl = []
    for label, node in zip(['block_head', 'block_open', 'block_close'], w.writes):
        shape.append((label, _segments(node, fl)))
    if [f for f in fl if f[0] != 'name'] or len(fl) != 1:
        raise ExtractError('block branch: expected exactly the name to be interpolated')
    fields['escBlockName'] = fl[0][1]
    if 'child_indent' not in w.assigns or ast.unparse(w.recurse[0][1]) != 'child_indent' or w.recurse[0][0] != 'child':
        raise ExtractError('block branch: unrecognised child indentation')
    shape.append(('child_indent', _segments(w.assigns['child_indent'], [])))
    kinds = [type(s).__name__ for s in block_b]
    if kinds != ['Expr', 'Expr', 'Assign', 'For', 'Expr'] or ast.unparse(block_b[3].iter) != 'self._value':
        raise ExtractError('block branch: unrecognised statement order ' + str(kinds))

    w = part('leaf', leaf_b, 1, 0)
    fl = []
    shape.append(('leaf_line', _segments(w.writes[0], fl)))
    if [f[0] for f in fl] != ['name', 'value']:
        raise ExtractError('leaf branch: expected name then value')
    fields['escLeafName'], fields['escLeafValue'] = fl[0][1], fl[1][1]

    # serialise(): the brace strings and the initial call
    w = _Writes()
    w.visit(pub)
    ifs = [s for s in pub.body if isinstance(s, ast.If) and ast.unparse(s.test) == 'indent_braces']
    if len(ifs) != 1:
        raise ExtractError('serialise: no `if indent_braces` found')
    wi, we = _Writes(), _Writes()
    for s in ifs[0].body:
        wi.visit(s)
    if set(wi.assigns) != {'open_brace', 'close_brace'}:
        raise ExtractError('serialise: indent_braces branch unrecognised')
    shape.append(('open_brace_indented', _segments(wi.assigns['open_brace'], [])))
    shape.append(('close_brace_indented', _segments(wi.assigns['close_brace'], [])))
    orelse = ifs[0].orelse
    if not (len(orelse) == 1 and isinstance(orelse[0], ast.Assign) and isinstance(orelse[0].targets[0], ast.Tuple)
            and [ast.unparse(t) for t in orelse[0].targets[0].elts] == ['open_brace', 'close_brace']
            and isinstance(orelse[0].value, ast.Tuple) and len(orelse[0].value.elts) == 2):
        raise ExtractError('serialise: plain brace branch unrecognised')
    shape.append(('open_brace_plain', _segments(orelse[0].value.elts[0], [])))
    shape.append(('close_brace_plain', _segments(orelse[0].value.elts[1], [])))
    if len(w.recurse) != 1 or w.recurse[0][0] != 'self' or ast.unparse(w.recurse[0][1]) != 'start_indent':
        raise ExtractError('serialise: unrecognised call of _serialise')

    # parse(): the two flag-replace tests `can_flag_replace and [cur_block_contents and] cur_block_contents[-1]...`
    par = _method(cls, 'parse')
    guards = []
    for n in ast.walk(par):
        if isinstance(n, ast.If) and isinstance(n.test, ast.BoolOp) and isinstance(n.test.op, ast.And) \
                and isinstance(n.test.values[0], ast.Name) and n.test.values[0].id == 'can_flag_replace':
            rest = [ast.unparse(v) for v in n.test.values[1:]]
            guarded = 'cur_block_contents' in rest
            core = [r for r in rest if r != 'cur_block_contents']
            kind = ('block' if core == ['cur_block_contents[-1]._real_name == token_value', 'cur_block_contents[-1].has_children()']
                    else 'leaf' if core == ['cur_block_contents[-1]._real_name == token_value', 'isinstance(cur_block_contents[-1].value, str)']
                    else None)
            if kind is None:
                raise ExtractError('parse: unrecognised flag-replace test: ' + ast.unparse(n.test))
            guards.append((n.lineno, kind, guarded))
    guards.sort()
    if [g[1] for g in guards] != ['block', 'leaf']:
        raise ExtractError('parse: expected one block and one leaf flag-replace test, found ' + str(guards))

    def b(x):
        return 'true' if x else 'false'

    lines = [
        'import Srctools.Model.C01',
        '/-! GENERATED by tools/gen_kvser.py from src/srctools/keyvalues.py — do not edit. -/',
        'namespace Gen.Kvser',
        '',
        '/-- which fields `Keyvalues._serialise` passes through `escape_text` (single-line mode). -/',
        'def cfg : C01.SerCfg :=',
        f'  {{ escBlockName := {b(fields["escBlockName"])}, escLeafName := {b(fields["escLeafName"])}, '
        f'escLeafValue := {b(fields["escLeafValue"])} }}',
        '',
        '/-- `Keyvalues.parse`: is the flag-replace test guarded by `cur_block_contents and` (block path, leaf path)? -/',
        f'def parseGuards : Bool × Bool := ({b(guards[0][2])}, {b(guards[1][2])})',
        '',
        '/-- the text templates of `_serialise` / `serialise` ("$x" = interpolated variable or field). -/',
        'def shape : List (String × List String) := [',
    ]
    lines.append(',\n'.join('  (%s, [%s])' % (lean_string(k), ', '.join(lean_string(s) for s in segs))
                            for k, segs in shape))
    lines += ['  ]', '', 'end Gen.Kvser', '']
    return '\n'.join(lines)
