"""Gen.Bsp: static tables of srctools/bsp.py.

Section C10 (this file's `section_c10`):
  * the `BSP_LUMPS` enum (canonical members), game-lump ids used as ParsedLump keys;
  * every `name: ParsedLump[...] = ParsedLump(main, *extra)` declaration of class BSP;
  * `LUMP_REBUILD_ORDER`, `LUMP_WRITE_ORDER`;
  * for each `_lmp_read_<name>` / `_lmp_write_<name>`, followed through `self.<method>` helpers:
      - the views `self.<view>` it evaluates                        (rdeps / wdeps)
      - the raw lumps `self.lumps[K].data` it loads / stores        (rraw / wraw)
      - keys it removes from objects of another view (`x.pop('k')`) / puts back (`x['k'] = ...`)
  * a few shape checks of `ParsedLump.__get__` and `BSP.save` (cache lookup, clear loop, pop in the
    rebuild order) — their control flow is modelled by hand in Model/C10.lean and tied by the
    correspondence; the checks only make the extraction fail loudly after a refactor.

Other sections (e.g. struct formats for C11) can be added as further `section_*` functions and
listed in SECTIONS; each returns (imports, lean_text).
Only `ast` is used; the code is never imported.
"""
import ast
from extract import ExtractError, lean_string

SRC = 'src/srctools/bsp.py'


# ----------------------------------------------------------------------------- shared parsing

class Source:
    def __init__(self, repo):
        self.text = (repo / SRC).read_text(encoding='utf-8')
        self.tree = ast.parse(self.text)
        self.classes = {n.name: n for n in self.tree.body if isinstance(n, ast.ClassDef)}
        if 'BSP' not in self.classes or 'BSP_LUMPS' not in self.classes or 'ParsedLump' not in self.classes:
            raise ExtractError('classes BSP / BSP_LUMPS / ParsedLump not found')
        self.bsp = self.classes['BSP']
        self.funcs = {n.name: n for n in self.bsp.body if isinstance(n, ast.FunctionDef)}
        # BSP_LUMPS: name -> value, canonical name per value (first definition wins, as in Enum)
        self.lump_value = {}
        self.lump_canon = {}
        for n in self.classes['BSP_LUMPS'].body:
            if isinstance(n, ast.Assign) and len(n.targets) == 1 and isinstance(n.targets[0], ast.Name) \
                    and isinstance(n.value, ast.Constant) and isinstance(n.value.value, int):
                self.lump_value[n.targets[0].id] = n.value.value
                self.lump_canon.setdefault(n.value.value, n.targets[0].id)
        if not self.lump_value:
            raise ExtractError('BSP_LUMPS has no integer members')
        # module-level bytes constants (game lump ids)
        self.bytes_const = {}
        for n in self.tree.body:
            if isinstance(n, ast.Assign) and len(n.targets) == 1 and isinstance(n.targets[0], ast.Name) \
                    and isinstance(n.value, ast.Constant) and isinstance(n.value.value, bytes):
                self.bytes_const[n.targets[0].id] = n.value.value
        self.game_ids = []   # game lump ids in order of first use -> lump id 64+i

    def module_assign(self, name):
        for n in self.tree.body:
            if isinstance(n, ast.Assign) and any(isinstance(t, ast.Name) and t.id == name for t in n.targets):
                return n.value
            if isinstance(n, ast.AnnAssign) and isinstance(n.target, ast.Name) and n.target.id == name:
                return n.value
        raise ExtractError(f'no module-level assignment to {name}')

    def lump_id(self, e):
        """Lump id of an expression naming a lump: BSP_LUMPS.X, a bytes constant or its name."""
        if isinstance(e, ast.Attribute) and isinstance(e.value, ast.Name) and e.value.id == 'BSP_LUMPS':
            if e.attr not in self.lump_value:
                raise ExtractError(f'unknown BSP_LUMPS member {e.attr}')
            return self.lump_value[e.attr]
        b = None
        if isinstance(e, ast.Name) and e.id in self.bytes_const:
            b = self.bytes_const[e.id]
        elif isinstance(e, ast.Constant) and isinstance(e.value, bytes):
            b = e.value
        if b is None:
            raise ExtractError(f'cannot resolve lump expression {ast.unparse(e)!r} (line {getattr(e, "lineno", "?")})')
        if b not in self.game_ids:
            self.game_ids.append(b)
        return 64 + self.game_ids.index(b)

    def lump_name(self, i):
        if i < 64:
            return self.lump_canon.get(i, f'LUMP_{i}')
        return self.game_ids[i - 64].decode('latin-1')


# ----------------------------------------------------------------------------- C10 extraction

def _views(S):
    """[(attr name, main id, [clears ids])] in declaration order."""
    out = []
    for n in S.bsp.body:
        if isinstance(n, ast.AnnAssign) and isinstance(n.target, ast.Name) and isinstance(n.value, ast.Call) \
                and isinstance(n.value.func, ast.Name) and n.value.func.id == 'ParsedLump':
            if n.value.keywords or not n.value.args:
                raise ExtractError(f'ParsedLump declaration of {n.target.id}: unexpected arguments')
            ids = [S.lump_id(a) for a in n.value.args]
            out.append((n.target.id, ids[0], ids))
        elif isinstance(n, ast.Assign) and isinstance(n.value, ast.Call) and isinstance(n.value.func, ast.Name) \
                and n.value.func.id == 'ParsedLump':
            raise ExtractError('un-annotated ParsedLump declaration: not understood')
    if not out:
        raise ExtractError('no ParsedLump declarations in class BSP')
    return out


class _Touch(ast.NodeVisitor):
    """What one method touches, following `self.<method>` into the helpers of class BSP."""

    def __init__(self, S, view_names):
        self.S, self.view_names = S, view_names
        self.views = []        # in source order, first occurrence
        self.rraw, self.wraw = [], []
        self.hdr_loads, self.hdr_stores = [], []   # [(lump, field)] header fields of lumps (version, flags)
        self.pops, self.sets = [], []   # [(key)] constant keys popped / stored by subscript on objects
        self.derived = {}      # local name -> view it was derived from
        self.seen = set()

    def run(self, fn):
        if fn.name in self.seen:
            return
        self.seen.add(fn.name)
        self.generic_visit(fn)

    def _add(self, lst, x):
        if x not in lst:
            lst.append(x)

    def _lump_field(self, node):
        """node is `<self.lumps|self.game_lumps>[K].<field>` -> (lump id, field), else None."""
        if isinstance(node, ast.Attribute) and isinstance(node.value, ast.Subscript):
            sub = node.value
            if isinstance(sub.value, ast.Attribute) and isinstance(sub.value.value, ast.Name) \
                    and sub.value.value.id == 'self' and sub.value.attr in ('lumps', 'game_lumps'):
                return self.S.lump_id(sub.slice), node.attr
        return None

    def visit_Attribute(self, node):
        lf = self._lump_field(node)
        if lf is not None:
            lump, field = lf
            store = isinstance(node.ctx, (ast.Store, ast.Del))
            if field == 'data':
                self._add(self.wraw if store else self.rraw, lump)
            else:
                # header fields of a lump (version, flags, is_compressed)
                self._add(self.hdr_stores if store else self.hdr_loads, (lump, field))
            self.visit(node.value.slice)
            return
        if isinstance(node.value, ast.Name) and node.value.id == 'self':
            if node.attr in self.view_names:
                if isinstance(node.ctx, ast.Store):
                    raise ExtractError(f'assignment to self.{node.attr} inside a lump reader/writer: not understood')
                self._add(self.views, node.attr)
            elif node.attr in self.S.funcs:
                self.run(self.S.funcs[node.attr])
            elif node.attr in ('lumps', 'game_lumps'):
                # any other use of the raw lump tables (iteration, get_lump(...)) is not understood
                raise ExtractError(f'self.{node.attr} used other than as self.{node.attr}[K].<field> (line {node.lineno})')
        self.generic_visit(node)

    # --- keys removed from / put back into objects of another view (bmodels <-> ents) -------
    def _src_view(self, e):
        """view an expression is (syntactically) derived from: self.<view>[...], name.attr, name"""
        while isinstance(e, (ast.Attribute, ast.Subscript, ast.Call)):
            if isinstance(e, ast.Attribute) and isinstance(e.value, ast.Name) and e.value.id == 'self' \
                    and e.attr in self.view_names:
                return e.attr
            e = e.func if isinstance(e, ast.Call) else e.value
        if isinstance(e, ast.Name):
            return self.derived.get(e.id)
        return None

    def _bind(self, target, view):
        if view is None:
            return
        for t in ast.walk(target):
            if isinstance(t, ast.Name):
                self.derived[t.id] = view

    def visit_Assign(self, node):
        v = self._src_view(node.value)
        for t in node.targets:
            self._bind(t, v)
            if isinstance(t, ast.Subscript) and isinstance(t.slice, ast.Constant) and isinstance(t.slice.value, str) \
                    and isinstance(t.value, ast.Name):
                self._add(self.sets, t.slice.value)
        self.generic_visit(node)

    def visit_AnnAssign(self, node):
        if node.value is not None:
            self._bind(node.target, self._src_view(node.value))
        self.generic_visit(node)

    def visit_For(self, node):
        self._bind(node.target, self._src_view(node.iter))
        self.generic_visit(node)

    def visit_Call(self, node):
        f = node.func
        if isinstance(f, ast.Attribute) and f.attr in ('pop', '__delitem__') and isinstance(f.value, ast.Name) \
                and node.args and isinstance(node.args[0], ast.Constant) and isinstance(node.args[0].value, str):
            v = self.derived.get(f.value.id)
            if v is not None:
                self._add(self.pops, (v, node.args[0].value))
        self.generic_visit(node)

    def visit_Delete(self, node):
        for t in node.targets:
            if isinstance(t, ast.Subscript) and isinstance(t.value, ast.Name) and isinstance(t.slice, ast.Constant) \
                    and isinstance(t.slice.value, str):
                v = self.derived.get(t.value.id)
                if v is not None:
                    self._add(self.pops, (v, t.slice.value))
        self.generic_visit(node)


def _order(S, name):
    val = S.module_assign(name)
    if not isinstance(val, (ast.List, ast.Tuple)):
        raise ExtractError(f'{name} is not a list literal')
    return [S.lump_id(e) for e in val.elts]


def _write_order(S):
    """LUMP_WRITE_ORDER = list(BSP_LUMPS); .remove(PAKFILE); .append(PAKFILE)  (recognised literally)."""
    stmts = []
    for n in S.tree.body:
        src = ast.unparse(n)
        if 'LUMP_WRITE_ORDER' in src and not isinstance(n, (ast.ClassDef, ast.FunctionDef)):
            stmts.append(src)
    canon = sorted(S.lump_canon)   # Enum iteration: canonical members in definition order == value order here
    defs = [v for _, v in sorted(((n.lineno, S.lump_value[n.targets[0].id]) for n in S.classes['BSP_LUMPS'].body
                                  if isinstance(n, ast.Assign) and isinstance(n.targets[0], ast.Name)
                                  and n.targets[0].id in S.lump_value))]
    order = []
    for v in defs:
        if v not in order:
            order.append(v)
    if stmts[:1] != ['LUMP_WRITE_ORDER = list(BSP_LUMPS)']:
        raise ExtractError(f'LUMP_WRITE_ORDER: unrecognised construction {stmts}')
    for s in stmts[1:]:
        if s.startswith('LUMP_WRITE_ORDER.remove(') or s.startswith('LUMP_WRITE_ORDER.append('):
            e = ast.parse(s).body[0].value
            lid = S.lump_id(e.args[0])
            if e.func.attr == 'remove':
                order.remove(lid)
            else:
                order.append(lid)
        else:
            raise ExtractError(f'LUMP_WRITE_ORDER: unrecognised statement {s}')
    assert sorted(order) == canon
    return order


def _shape_checks(S):
    """Literal facts about ParsedLump.__get__/__set_name__ and BSP.save the hand-written model relies on."""
    pl = {n.name: n for n in S.classes['ParsedLump'].body if isinstance(n, ast.FunctionDef)}
    get = [n for n in S.classes['ParsedLump'].body if isinstance(n, ast.FunctionDef) and n.name == '__get__'
           and not any(ast.unparse(d) == 'overload' for d in n.decorator_list)]
    if len(get) != 1:
        raise ExtractError('ParsedLump.__get__: expected exactly one non-overload definition')
    g = ast.unparse(get[0])
    need_get = ['instance._parsed_lumps[self.lump]', 'return result', 'self._read(instance, data)',
                'self._read(instance, gm_lump.version, gm_lump.data)', 'instance._parsed_lumps[self.lump] = result',
                'for lump in self.to_clear', "instance.lumps[lump].data = b''", "instance.game_lumps[lump].data = b''"]
    for s in need_get:
        if s not in g:
            raise ExtractError(f'ParsedLump.__get__: expected fragment not found: {s}')
    init = ast.unparse(pl['__init__'])
    if 'self.to_clear = (lump, *extra)' not in init or 'self.lump = lump' not in init:
        raise ExtractError('ParsedLump.__init__: to_clear is no longer (lump, *extra)')
    sn = ast.unparse(pl['__set_name__'])
    for s in ["func_suffix = name.lstrip('_')", "getattr(owner, '_lmp_read_' + func_suffix)",
              "owner._save_funcs[self.lump] = getattr(owner, '_lmp_write_' + func_suffix)"]:
        if s not in sn:
            raise ExtractError(f'ParsedLump.__set_name__: expected fragment not found: {s}')
    return _save_loop_shape(S)


def _save_loop_shape(S):
    """The rebuild loop of BSP.save: the `for` whose body pops its loop variable from `self._parsed_lumps`.
    Returns False when it walks LUMP_REBUILD_ORDER itself (popping from the live cache), True when it walks a
    list computed beforehand from LUMP_REBUILD_ORDER and the cache (a snapshot of the cached views)."""
    fn = S.funcs.get('save')
    if fn is None:
        raise ExtractError('BSP.save not found')
    loops = []
    for node in ast.walk(fn):
        if isinstance(node, ast.For) and isinstance(node.target, ast.Name):
            var = node.target.id
            for c in ast.walk(node):
                if isinstance(c, ast.Call) and ast.unparse(c.func) == 'self._parsed_lumps.pop' and c.args \
                        and ast.unparse(c.args[0]) == var:
                    loops.append(node)
                    break
    if len(loops) != 1:
        raise ExtractError(f'BSP.save: expected exactly one loop popping its variable from self._parsed_lumps, found {len(loops)}')
    loop = loops[0]
    var = loop.target.id
    body = ast.unparse(loop)
    for frag in (f'self._save_funcs[{var}](self, data)', f'self.lumps[{var}].data = result', f'self.game_lumps[{var}].data = result'):
        if frag not in body:
            raise ExtractError(f'BSP.save: expected fragment not found in the rebuild loop: {frag}')
    if 'for lump_name in LUMP_WRITE_ORDER' not in ast.unparse(fn):
        raise ExtractError('BSP.save: the lump bodies are no longer written in LUMP_WRITE_ORDER')
    it = loop.iter
    if isinstance(it, ast.Name) and it.id == 'LUMP_REBUILD_ORDER':
        return False
    if isinstance(it, ast.Name):
        # a local computed before the loop from the order and the cache
        for node in ast.walk(fn):
            if isinstance(node, ast.Assign) and any(isinstance(t, ast.Name) and t.id == it.id for t in node.targets) \
                    and node.lineno < loop.lineno:
                src = ast.unparse(node.value)
                if 'LUMP_REBUILD_ORDER' in src and 'self._parsed_lumps' in src:
                    return True
    raise ExtractError(f'BSP.save: the rebuild loop iterates over {ast.unparse(it)!r}: not understood')


_MUTATORS = {'clear', 'pop', 'popitem', 'update', 'setdefault', 'append', 'extend', 'insert', 'remove', 'add', 'discard', 'sort'}


def _instance_state(S, view_names):
    """Attributes of a BSP object that the class mutates IN PLACE (self.X.clear(), self.X[k] = v, self.X[k].f = v,
    the same through `instance.X` in ParsedLump): each must be bound per instance in __init__, and must not have a
    mutable class-level default (one dict shared by every BSP object).  -> [(attr, assigned_in_init, class_mutable_default)]"""
    def base_attr(e, names):
        """e is `<name>.X` with name in names -> X"""
        if isinstance(e, ast.Attribute) and isinstance(e.value, ast.Name) and e.value.id in names:
            return e.attr
        return None
    mutated = []

    def scan(fn, names):
        for node in ast.walk(fn):
            x = None
            if isinstance(node, ast.Call) and isinstance(node.func, ast.Attribute) and node.func.attr in _MUTATORS:
                x = base_attr(node.func.value, names)
            elif isinstance(node, ast.Subscript) and isinstance(node.ctx, (ast.Store, ast.Del)):
                x = base_attr(node.value, names)
            elif isinstance(node, ast.Attribute) and isinstance(node.ctx, (ast.Store, ast.Del)) and isinstance(node.value, ast.Subscript):
                x = base_attr(node.value.value, names)
            if x is not None and x not in view_names and x not in mutated:
                mutated.append(x)
    for fn in S.funcs.values():
        scan(fn, {'self'})
    for n in S.classes['ParsedLump'].body:
        if isinstance(n, ast.FunctionDef):
            scan(n, {'instance'})
    init = S.funcs.get('__init__')
    if init is None:
        raise ExtractError('BSP.__init__ not found')
    in_init = set()
    for node in ast.walk(init):
        tgts = []
        if isinstance(node, ast.Assign):
            tgts = node.targets
        elif isinstance(node, ast.AnnAssign) and node.value is not None:
            tgts = [node.target]
        for t in tgts:
            a = base_attr(t, {'self'})
            if a:
                in_init.add(a)
    class_mut = set()
    for n in S.bsp.body:
        name, val = None, None
        if isinstance(n, ast.AnnAssign) and isinstance(n.target, ast.Name):
            name, val = n.target.id, n.value
            if 'ClassVar' in ast.unparse(n.annotation):
                continue
        elif isinstance(n, ast.Assign) and len(n.targets) == 1 and isinstance(n.targets[0], ast.Name):
            name, val = n.targets[0].id, n.value
        if name is None or val is None:
            continue
        if isinstance(val, (ast.Dict, ast.List, ast.Set, ast.ListComp, ast.DictComp, ast.SetComp)) or \
                (isinstance(val, ast.Call) and ast.unparse(val.func) in ('dict', 'list', 'set', 'bytearray', 'defaultdict',
                                                                           'WeakKeyDictionary', 'OrderedDict')):
            class_mut.add(name)
    if not mutated:
        raise ExtractError('no in-place mutated attribute found in class BSP: not understood')
    return [(a, a in in_init, a in class_mut) for a in mutated]


def extract_c10(S):
    views = _views(S)
    names = [v[0] for v in views]
    idx = {n: i for i, n in enumerate(names)}
    recs = []
    for name, main, clears in views:
        suffix = name.lstrip('_')
        rec = {'name': name, 'main': main, 'clears': clears}
        for kind in ('read', 'write'):
            fn = S.funcs.get(f'_lmp_{kind}_{suffix}')
            if fn is None:
                raise ExtractError(f'_lmp_{kind}_{suffix} not found')
            t = _Touch(S, set(names))
            t.run(fn)
            rec[kind] = t
        recs.append(rec)
    order = _order(S, 'LUMP_REBUILD_ORDER')
    worder = _write_order(S)
    snapshot = _shape_checks(S)
    out = []
    for rec in recs:
        r, w = rec['read'], rec['write']
        borrows = []
        for (v, key) in r.pops:
            if v != rec['name'] and idx[v] not in borrows:
                borrows.append(idx[v])
        # the writer puts a key back when it stores the same constant key by subscript
        restores = []
        for (v, key) in r.pops:
            if v != rec['name'] and key in w.sets and idx[v] not in restores:
                restores.append(idx[v])
        out.append({
            'name': rec['name'], 'main': rec['main'], 'clears': rec['clears'],
            'rdeps': [idx[x] for x in r.views], 'wdeps': [idx[x] for x in w.views],
            'rraw': [l for l in r.rraw], 'wraw': [l for l in w.wraw],
            'rstores': [l for l in r.wraw],   # raw lumps a *reader* assigns (texinfo clears TEXDATA itself)
            'borrows': borrows, 'restores': restores,
            'popkeys': [k for (_, k) in r.pops],
            'hdr_stores': [(l, f, 0) for (l, f) in r.hdr_stores] + [(l, f, 1) for (l, f) in w.hdr_stores],
        })
    return {'views': out, 'order': order, 'write_order': worder, 'snapshot': snapshot,
            'instance_state': _instance_state(S, set(names))}


def _nl(xs):
    return '[' + ', '.join(str(x) for x in xs) + ']'


def section_c10(S):
    d = extract_c10(S)
    used = set()
    for v in d['views']:
        used |= set(v['clears']) | set(v['rraw']) | set(v['wraw']) | set(v['rstores'])
    used |= set(d['order']) | set(d['write_order'])
    L = []
    L.append('/-- `ParsedLump` declarations of class BSP with what `_lmp_read_*` / `_lmp_write_*` touch. -/')
    L.append('def tables : C10.Tables where')
    L.append('  views := [')
    rows = []
    for v in d['views']:
        # a raw lump the reader itself assigns counts as cleared only if it is in to_clear anyway;
        # otherwise it is reported through readerStores below.
        rows.append('    { name := %s, main := %d, clears := %s, rdeps := %s, wdeps := %s, rraw := %s, wraw := %s, borrows := %s, restores := %s }'
                    % (lean_string(v['name']), v['main'], _nl(v['clears']), _nl(v['rdeps']), _nl(v['wdeps']),
                       _nl(v['rraw']), _nl(v['wraw']), _nl(v['borrows']), _nl(v['restores'])))
    L.append(',\n'.join(rows) + ' ]')
    L.append('  order := ' + _nl(d['order']))
    L.append('  writeOrder := ' + _nl(d['write_order']))
    L.append('  snapshot := ' + ('true' if d['snapshot'] else 'false'))
    L.append('  lumpNames := [' + ', '.join(f'({i}, {lean_string(S.lump_name(i))})' for i in sorted(used)) + ']')
    L.append('')
    L.append('/-- raw lumps assigned inside a *reader* (must be lumps the view clears anyway): (view, lump). -/')
    L.append('def readerStores : List (Nat × Nat) := [' + ', '.join(
        f'({i}, {l})' for i, v in enumerate(d['views']) for l in v['rstores']) + ']')
    L.append('')
    L.append('/-- lump header fields (version, flags, ...) assigned inside a reader (0) or writer (1): (view, lump, where, field). -/')
    L.append('def headerStores : List (Nat × Nat × Nat × String) := [' + ', '.join(
        f'({i}, {l}, {k}, {lean_string(f)})' for i, v in enumerate(d['views']) for (l, f, k) in v['hdr_stores']) + ']')
    L.append('')
    L.append('/-- attributes of a BSP object mutated in place by the class: (name, bound per instance in __init__, has a mutable class-level default). -/')
    L.append('def instanceState : List (String × Bool × Bool) := [' + ', '.join(
        f'({lean_string(a)}, {str(i).lower()}, {str(c).lower()})' for a, i, c in d['instance_state']) + ']')
    L.append('')
    L.append('/-- game-lump ids used as ParsedLump keys: lump id 64+i. -/')
    L.append('def gameLumpIds : List String := [' + ', '.join(lean_string(b.decode('latin-1')) for b in S.game_ids) + ']')
    return ['Srctools.Model.C10'], '\n'.join(L)


SECTIONS = [section_c10]


def generate(repo):
    S = Source(repo)
    imports, bodies = [], []
    for sec in SECTIONS:
        imp, body = sec(S)
        for i in imp:
            if i not in imports:
                imports.append(i)
        bodies.append(body)
    L = [f'import {i}' for i in imports]
    L.append('/-! GENERATED by tools/gen_bsp.py from src/srctools/bsp.py — do not edit. -/')
    L.append('namespace Gen.Bsp')
    L.append('')
    L.append('\n\n'.join(bodies))
    L.append('')
    L.append('end Gen.Bsp')
    return '\n'.join(L) + '\n'
