"""Gen.C03: how a tokenizer object starts out and how BaseTokenizer's push-back layer is written
(src/srctools/tokenizer.py).  Facts, as Booleans (the raw source text of each is kept in a comment):

* BaseTokenizer.__init__ assigns, unconditionally and per instance, `self._pushback = []` and `self.line_num = 1`;
* the class body of BaseTokenizer gives neither `_pushback` nor `line_num` a value (a class-level list would be
  shared by every tokenizer of the process);
* Tokenizer.__init__ calls `super().__init__(filename, error)` and assigns `self._char_index = -1`,
  `self._last_was_cr = False`; `_cur_chunk/_chunk_iter` are `data, iter(())` for a str and `'', iter(data)` otherwise;
* `__call__`, `peek` and the last statement of `push_back` have exactly the shape modelled in Model/C03Push.lean.
"""
import ast
from extract import ExtractError, lean_string


def _cls(tree, name):
    for n in tree.body:
        if isinstance(n, ast.ClassDef) and n.name == name:
            return n
    raise ExtractError(f'class {name} not found')


def _fn(cls, name):
    for n in cls.body:
        if isinstance(n, ast.FunctionDef) and n.name == name:
            return n
    raise ExtractError(f'{cls.name}.{name} not found')


def _body(fn):
    return [s for s in fn.body if not (isinstance(s, ast.Expr) and isinstance(s.value, ast.Constant) and isinstance(s.value.value, str))]


def _self_assigns(stmts):
    """`self.X = <expr>` statements of a statement list (not descending) -> {X: unparsed expr}."""
    out = {}
    for s in stmts:
        if isinstance(s, ast.Assign) and len(s.targets) == 1:
            t = s.targets[0]
            if isinstance(t, ast.Attribute) and isinstance(t.value, ast.Name) and t.value.id == 'self':
                out[t.attr] = ast.unparse(s.value)
    return out


def _class_values(cls):
    out = {}
    for s in cls.body:
        if isinstance(s, ast.Assign):
            for t in s.targets:
                if isinstance(t, ast.Name):
                    out[t.id] = ast.unparse(s.value)
        elif isinstance(s, ast.AnnAssign) and isinstance(s.target, ast.Name) and s.value is not None:
            out[s.target.id] = ast.unparse(s.value)
    return out


def _same(stmts, text):
    want = ast.parse(text).body
    return len(stmts) == len(want) and all(ast.dump(a) == ast.dump(b) for a, b in zip(stmts, want))


def _b(x):
    return 'true' if x else 'false'


def generate(repo):
    src = (repo / 'src/srctools/tokenizer.py').read_text(encoding='utf-8')
    tree = ast.parse(src)
    base, tok = _cls(tree, 'BaseTokenizer'), _cls(tree, 'Tokenizer')
    binit = _self_assigns(_body(_fn(base, '__init__')))
    bcls = _class_values(base)
    tinit_fn = _fn(tok, '__init__')
    tbody = _body(tinit_fn)
    tinit = _self_assigns(tbody)
    tcls = _class_values(tok)
    calls_super = any(isinstance(s, ast.Expr) and ast.unparse(s.value) == 'super().__init__(filename, error)' for s in tbody)
    # the str / iterable split of the source
    split_ok = any(isinstance(s, ast.If) and ast.unparse(s.test) == 'isinstance(data, str)'
                   and _self_assigns(s.body) == {'_cur_chunk': 'data', '_chunk_iter': 'iter(())'}
                   and _self_assigns(s.orelse) == {'_cur_chunk': "''", '_chunk_iter': 'iter(data)'} for s in tbody)
    call_ok = _same(_body(_fn(base, '__call__')), 'if self._pushback:\n    return self._pushback.pop()\nreturn self._get_token()')
    peek_ok = _same(_body(_fn(base, 'peek')), 'tok_and_val = self()\nself._pushback.append(tok_and_val)\nreturn tok_and_val')
    pb = _body(_fn(base, 'push_back'))
    push_ok = bool(pb) and _same(pb[-1:], 'self._pushback.append((tok, value))') and \
        sum(ast.unparse(s).count('_pushback') for s in pb) == 1
    facts = [
        ('pushbackInitEmptyList', binit.get('_pushback') == '[]', f"BaseTokenizer.__init__: self._pushback = {binit.get('_pushback')}"),
        ('lineNumInitOne', binit.get('line_num') == '1', f"BaseTokenizer.__init__: self.line_num = {binit.get('line_num')}"),
        ('pushbackNoClassValue', '_pushback' not in bcls and '_pushback' not in tcls, f"class-level value of _pushback: {bcls.get('_pushback', tcls.get('_pushback'))}"),
        ('lineNumNoClassValue', 'line_num' not in bcls and 'line_num' not in tcls, f"class-level value of line_num: {bcls.get('line_num', tcls.get('line_num'))}"),
        ('tokCallsSuperInit', calls_super, 'Tokenizer.__init__ calls super().__init__(filename, error)'),
        ('charIndexInitMinusOne', tinit.get('_char_index') == '-1', f"Tokenizer.__init__: self._char_index = {tinit.get('_char_index')}"),
        ('lastWasCrInitFalse', tinit.get('_last_was_cr') == 'False', f"Tokenizer.__init__: self._last_was_cr = {tinit.get('_last_was_cr')}"),
        ('cursorNoClassValue', not ({'_char_index', '_cur_chunk', '_chunk_iter', '_last_was_cr'} & (set(tcls) | set(bcls))), 'no class-level value for the cursor fields'),
        ('sourceSplitOk', split_ok, "str: (_cur_chunk, _chunk_iter) = (data, iter(())); otherwise ('', iter(data))"),
        ('callShapeOk', call_ok, '__call__: pop the push-back stack if non-empty, else _get_token()'),
        ('peekShapeOk', peek_ok, 'peek: call, append the result to the push-back stack, return it'),
        ('pushBackShapeOk', push_ok, 'push_back: the only use of _pushback is the final append((tok, value))'),
    ]
    lines = ['/-! GENERATED by tools/gen_c03.py from src/srctools/tokenizer.py — do not edit. -/', 'namespace Gen.C03', '',
             '/-- How tokenizer objects are initialised and how the push-back layer is written. -/',
             'structure InitFacts where']
    lines += [f'  {n} : Bool' for n, _v, _c in facts]
    lines += ['deriving Repr, DecidableEq', '', 'def facts : InitFacts where']
    for n, v, c in facts:
        lines.append(f'  {n} := {_b(v)}   -- {c}'.replace('\n', ' '))
    lines += ['', 'end Gen.C03', '']
    return '\n'.join(lines)
