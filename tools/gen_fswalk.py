"""Gen.Fswalk (C19): how the three archive-like filesystems match a folder in walk_folder, and the
shape of their name keys.

Extracted from src/srctools/filesys.py with `ast` only. Each `walk_folder` is decomposed into
  <normalise folder> ; [<root special case>] ; [<append separator>] ; for ...: if <match>: yield ...
and classified into the three booleans of C19.WalkCfg:
  virtRootFix  VirtualFileSystem maps the cleaned folder '.' (normpath('')) back to ''
  sepMatch     the folder gets a terminating '/' before the prefix comparison (all three classes)
  foldMatch    both sides of the comparison are case-folded (Virtual compares the cleaned key, VPK folds
               the folder and FileInfo.dir; Zip always did)
Anything not understood -> ExtractError.
"""
import ast
from extract import ExtractError


def _cls(tree, name):
    c = next((n for n in tree.body if isinstance(n, ast.ClassDef) and n.name == name), None)
    if c is None:
        raise ExtractError(f'class {name} not found')
    return c


def _meth(cls, name):
    m = next((n for n in cls.body if isinstance(n, ast.FunctionDef) and n.name == name), None)
    if m is None:
        raise ExtractError(f'{cls.name}.{name} not found')
    return m


def _stmts(fn):
    return [s for s in fn.body if not (isinstance(s, ast.Expr) and isinstance(s.value, ast.Constant))]


def _u(n):
    return ast.unparse(n)


SEP_IF_PLAIN = "if not folder.endswith('/'):\n    folder += '/'"
SEP_IF_NONEMPTY = "if folder and (not folder.endswith('/')):\n    folder += '/'"


def _virtual(cls):
    st = _stmts(_meth(cls, 'walk_folder'))
    if not st or _u(st[0]) != 'folder = self._clean_path(folder)':
        raise ExtractError('VirtualFileSystem.walk_folder: first statement: ' + (_u(st[0]) if st else ''))
    rest = st[1:]
    root_fix = sep = False
    if rest and isinstance(rest[0], ast.If):
        i = rest[0]
        if _u(i.test) == "folder == '.'" and [_u(s) for s in i.body] == ["folder = ''"]:
            root_fix = True
            if i.orelse:
                if len(i.orelse) == 1 and _u(i.orelse[0]) == SEP_IF_PLAIN:
                    sep = True
                else:
                    raise ExtractError('VirtualFileSystem.walk_folder: unrecognised else branch: ' + _u(i))
        elif _u(i) == SEP_IF_PLAIN:
            sep = True
        else:
            raise ExtractError('VirtualFileSystem.walk_folder: unrecognised if: ' + _u(i))
        rest = rest[1:]
    if len(rest) != 1 or not isinstance(rest[0], ast.For):
        raise ExtractError('VirtualFileSystem.walk_folder: expected one for loop, got: ' + '; '.join(_u(s) for s in rest))
    loop = _u(rest[0])
    if loop == ("for filename, data in self._mapping.values():\n    if filename.startswith(folder):\n"
                "        yield File(self, filename, filename)"):
        fold = False
    elif loop == ("for key, (filename, data) in self._mapping.items():\n    if key.startswith(folder):\n"
                  "        yield File(self, filename, filename)"):
        fold = True
    else:
        raise ExtractError('VirtualFileSystem.walk_folder: unrecognised loop: ' + loop)
    return root_fix, sep, fold


def _zip(cls):
    st = _stmts(_meth(cls, 'walk_folder'))
    if not st or _u(st[0]) != "folder = folder.replace('\\\\', '/').casefold()":
        raise ExtractError('ZipFileSystem.walk_folder: first statement: ' + (_u(st[0]) if st else ''))
    rest = st[1:]
    sep = False
    if rest and isinstance(rest[0], ast.If):
        if _u(rest[0]) != SEP_IF_NONEMPTY:
            raise ExtractError('ZipFileSystem.walk_folder: unrecognised if: ' + _u(rest[0]))
        sep = True
        rest = rest[1:]
    if len(rest) != 1 or _u(rest[0]) != ("for filename, fileinfo in self._name_to_info.items():\n    if filename.startswith(folder):\n"
                                        "        yield File(self, fileinfo.filename, fileinfo)"):
        raise ExtractError('ZipFileSystem.walk_folder: unrecognised loop: ' + '; '.join(_u(s) for s in rest))
    return sep


def _vpk(cls):
    st = _stmts(_meth(cls, 'walk_folder'))
    first = _u(st[0]) if st else ''
    if first == "folder = folder.replace('\\\\', '/')":
        fold_folder = False
    elif first == "folder = folder.replace('\\\\', '/').casefold()":
        fold_folder = True
    else:
        raise ExtractError('VPKFileSystem.walk_folder: first statement: ' + first)
    rest = st[1:]
    sep_if = False
    if rest and isinstance(rest[0], ast.If):
        if _u(rest[0]) != SEP_IF_NONEMPTY:
            raise ExtractError('VPKFileSystem.walk_folder: unrecognised if: ' + _u(rest[0]))
        sep_if = True
        rest = rest[1:]
    if len(rest) != 1 or not isinstance(rest[0], ast.For) or _u(rest[0].target) != 'file' \
            or _u(rest[0].iter) != 'self._name_to_file.values()' or len(rest[0].body) != 1 \
            or not isinstance(rest[0].body[0], ast.If) or [_u(s) for s in rest[0].body[0].body] != ['yield File(self, file.filename, file)']:
        raise ExtractError('VPKFileSystem.walk_folder: unrecognised loop: ' + '; '.join(_u(s) for s in rest))
    test = _u(rest[0].body[0].test)
    table = {
        'file.dir.startswith(folder)': (False, False),
        "(file.dir + '/').startswith(folder)": (True, False),
        'file.dir.casefold().startswith(folder)': (False, True),
        "(file.dir.casefold() + '/').startswith(folder)": (True, True),
    }
    if test not in table:
        raise ExtractError('VPKFileSystem.walk_folder: unrecognised match: ' + test)
    sep_t, fold_dir = table[test]
    if sep_t != sep_if or fold_dir != fold_folder:
        raise ExtractError(f'VPKFileSystem.walk_folder: folder and directory are not treated alike ({first!r} / {test!r})')
    return sep_t, fold_dir


def generate(repo):
    src = (repo / 'src/srctools/filesys.py').read_text(encoding='utf-8')
    tree = ast.parse(src)
    V, Z, P, C = (_cls(tree, n) for n in ('VirtualFileSystem', 'ZipFileSystem', 'VPKFileSystem', 'FileSystemChain'))
    # name keys
    cp = [_u(s) for s in _stmts(_meth(V, '_clean_path'))]
    if cp != ['if isinstance(path, File):\n    path = path.path', "return os.path.normpath(path).replace('\\\\', '/').casefold()"]:
        raise ExtractError('VirtualFileSystem._clean_path: ' + ' ; '.join(cp))
    zinit = _u(_meth(Z, '__init__'))
    if "{info.filename.casefold(): info for info in self.zip.infolist() if not info.filename.endswith('/')}" not in zinit:
        raise ExtractError('ZipFileSystem.__init__: _name_to_info construction not recognised')
    pinit = _u(_meth(P, '__init__'))
    if "{file.filename.replace('\\\\', '/').casefold(): file for file in self.vpk}" not in pinit:
        raise ExtractError('VPKFileSystem.__init__: _name_to_file construction not recognised')
    zget = [_u(s) for s in _stmts(_meth(Z, '_get_file'))]
    if zget[0] != "name = name.replace('\\\\', '/')" or 'self._name_to_info[name.casefold()]' not in zget[1]:
        raise ExtractError('ZipFileSystem._get_file: ' + ' ; '.join(zget))
    pget = [_u(s) for s in _stmts(_meth(P, '_get_file'))]
    if pget[0] != "key = name.casefold().replace('\\\\', '/')":
        raise ExtractError('VPKFileSystem._get_file: ' + ' ; '.join(pget))
    cget = _u(_meth(C, '_get_file'))
    if "full_name = os.path.join(prefix, name).replace('\\\\', '/')" not in cget or 'except FileNotFoundError:\n            continue' not in cget:
        raise ExtractError('FileSystemChain._get_file: not recognised')
    cwalk = _u(_meth(C, 'walk_folder_repeat'))
    if "full_folder = os.path.join(prefix, folder).replace('\\\\', '/')" not in cwalk \
            or ("os.path.relpath(file.path, prefix).replace('\\\\', '/')" not in cwalk
                and "os.path.relpath(file.path, prefix.replace('\\\\', '/')).replace('\\\\', '/')" not in cwalk):
        raise ExtractError('FileSystemChain.walk_folder_repeat: not recognised')
    cded = _u(_meth(C, 'walk_folder'))
    if 'folded = file.path.casefold()' not in cded or 'if folded in done:\n            continue' not in cded:
        raise ExtractError('FileSystemChain.walk_folder: not recognised')
    root_fix, sep_v, fold_v = _virtual(V)
    sep_z = _zip(Z)
    sep_p, fold_p = _vpk(P)
    if not (sep_v == sep_z == sep_p):
        raise ExtractError(f'walk_folder: separator matching differs between backends (virtual {sep_v}, zip {sep_z}, vpk {sep_p})')
    if fold_v != fold_p:
        raise ExtractError(f'walk_folder: case folding differs between backends (virtual {fold_v}, vpk {fold_p})')
    b = lambda x: 'true' if x else 'false'
    return '\n'.join([
        'import Srctools.Model.C19',
        '/-! GENERATED by tools/gen_fswalk.py from src/srctools/filesys.py — do not edit. -/',
        'namespace Gen.Fswalk',
        '',
        '/-- how `walk_folder` of VirtualFileSystem / ZipFileSystem / VPKFileSystem matches the folder. -/',
        f'def walkCfg : C19.WalkCfg := ⟨{b(root_fix)}, {b(sep_v)}, {b(fold_v)}⟩',
        '',
        'end Gen.Fswalk', ''])
