"""Gen.Dmx: wire tables of srctools/dmx.py.

Extracted with `ast` only (the code is never imported):
  * ValueType members (canonical name, aliases, KV2 type string);
  * VAL_TYPE_TO_IND (dict order), ARRAY_OFFSET, how IND_TO_VALTYPE is built;
  * the comparison operator of the binary decode site `if attr_type_data <op> ARRAY_OFFSET:` and the
    adjustment in its body, the encode-site adjustment `typ_ind += ARRAY_OFFSET`;
  * struct formats of the fixed-size value types (`_binconv_basic/_binconv_cls/_struct_X = Struct(..)`);
  * per encoding version 0..5 the (count format, index format) of the string table, separately for
    `parse_bin` and `export_binary`;
  * whether `export_binary` writes something after the -2 marker of a stub reference, and what
    `parse_bin` reads after it.
"""
import ast, struct
from extract import ExtractError

# canonical ValueType member -> constructor of C14.VT
VT_LEAN = {
    'ELEMENT': 'element', 'INTEGER': 'int', 'FLOAT': 'float', 'BOOL': 'bool', 'STRING': 'string',
    'BINARY': 'binary', 'TIME': 'time', 'COLOR': 'color', 'VEC2': 'vec2', 'VEC3': 'vec3', 'VEC4': 'vec4',
    'ANGLE': 'angle', 'QUATERNION': 'quaternion', 'MATRIX': 'matrix',
}
FIELD_KIND = {'i': 'i32', 'f': 'f32', '?': 'bool', 'B': 'u8'}


def _top_assign(tree, name):
    for n in tree.body:
        if isinstance(n, ast.Assign) and any(isinstance(t, ast.Name) and t.id == name for t in n.targets):
            return n.value
        if isinstance(n, ast.AnnAssign) and isinstance(n.target, ast.Name) and n.target.id == name and n.value is not None:
            return n.value
    raise ExtractError(f'no top-level assignment to {name}')


def _value_types(tree):
    cls = next((n for n in tree.body if isinstance(n, ast.ClassDef) and n.name == 'ValueType'), None)
    if cls is None:
        raise ExtractError('class ValueType not found')
    canon, alias, text = [], {}, {}
    for n in cls.body:
        if isinstance(n, ast.Assign) and isinstance(n.value, ast.Constant) and isinstance(n.value.value, str):
            names = [t.id for t in n.targets if isinstance(t, ast.Name)]
            if len(names) != len(n.targets):
                raise ExtractError('ValueType: unrecognised member assignment')
            canon.append(names[0])
            text[names[0]] = n.value.value
            for a in names:
                alias[a] = names[0]
    if sorted(canon) != sorted(VT_LEAN):
        raise ExtractError(f'ValueType members changed: {canon}')
    return canon, alias, text


def _vt_of(node, alias):
    if isinstance(node, ast.Attribute) and isinstance(node.value, ast.Name) and node.value.id == 'ValueType' \
            and node.attr in alias:
        return alias[node.attr]
    raise ExtractError('expected ValueType.X, got ' + ast.unparse(node))


def _method(tree, cls, name):
    c = next((n for n in tree.body if isinstance(n, ast.ClassDef) and n.name == cls), None)
    if c is None:
        raise ExtractError(f'class {cls} not found')
    f = next((n for n in c.body if isinstance(n, ast.FunctionDef) and n.name == name), None)
    if f is None:
        raise ExtractError(f'{cls}.{name} not found')
    return f


def _fmt_width(node):
    """Width in bytes of a string-table format: '<i' -> 4, '<h' -> 2, '' / None -> 0."""
    if isinstance(node, ast.Constant):
        v = node.value
        if v is None or v == '':
            return 0
        if v in ('<i', '<h'):
            return struct.calcsize(v)
    raise ExtractError('string table format not understood: ' + ast.unparse(node))


def _strtab(fn):
    """Evaluate the `if version >= N: stringdb_size = stringdb_ind = F ... else: ...` chain for
    versions 0..5. Returns [(size_width, ind_width)] indexed by version."""
    chain = None
    for n in ast.walk(fn):
        if isinstance(n, ast.If) and 'stringdb_size' in ast.unparse(n.body[0]) and isinstance(n.body[0], ast.Assign) \
                and isinstance(n.test, ast.Compare) and ast.unparse(n.test.left) == 'version':
            chain = n
            break
    if chain is None:
        raise ExtractError(f'{fn.name}: string table format chain not found')

    def run_body(body):
        env = {}
        for s in body:
            if not isinstance(s, ast.Assign):
                raise ExtractError(f'{fn.name}: unexpected statement in string table chain')
            w = _fmt_width(s.value)
            for t in s.targets:
                if not isinstance(t, ast.Name):
                    raise ExtractError(f'{fn.name}: unexpected target in string table chain')
                env[t.id] = w
        if set(env) != {'stringdb_size', 'stringdb_ind'}:
            raise ExtractError(f'{fn.name}: string table chain assigns {sorted(env)}')
        return env['stringdb_size'], env['stringdb_ind']

    def test(t, v):
        if not (isinstance(t, ast.Compare) and len(t.ops) == 1 and ast.unparse(t.left) == 'version'
                and isinstance(t.comparators[0], ast.Constant) and isinstance(t.comparators[0].value, int)):
            raise ExtractError(f'{fn.name}: string table test not understood: ' + ast.unparse(t))
        c = t.comparators[0].value
        op = t.ops[0]
        if isinstance(op, ast.GtE): return v >= c
        if isinstance(op, ast.Gt): return v > c
        if isinstance(op, ast.Eq): return v == c
        if isinstance(op, ast.LtE): return v <= c
        if isinstance(op, ast.Lt): return v < c
        raise ExtractError(f'{fn.name}: string table test operator not understood')

    out = []
    for v in range(6):
        node = chain
        while True:
            if test(node.test, v):
                out.append(run_body(node.body)); break
            if len(node.orelse) == 1 and isinstance(node.orelse[0], ast.If):
                node = node.orelse[0]; continue
            out.append(run_body(node.orelse)); break
    return out


def _decode_site(fn):
    for n in ast.walk(fn):
        if isinstance(n, ast.If) and isinstance(n.test, ast.Compare) and len(n.test.ops) == 1 \
                and ast.unparse(n.test.left) == 'attr_type_data' and ast.unparse(n.test.comparators[0]) == 'ARRAY_OFFSET':
            op = n.test.ops[0]
            cmp_ = {ast.GtE: 'ge', ast.Gt: 'gt'}.get(type(op))
            if cmp_ is None:
                raise ExtractError('decode site: operator ' + type(op).__name__)
            body = [ast.unparse(s) for s in n.body]
            if 'attr_type_data -= ARRAY_OFFSET' not in body or not any('array_size' in b and "struct_read('<i'" in b for b in body):
                raise ExtractError('decode site: body not understood: ' + '; '.join(body))
            if [ast.unparse(s) for s in n.orelse] != ['array_size = None']:
                raise ExtractError('decode site: else branch not understood')
            return cmp_
    raise ExtractError('decode site `if attr_type_data <op> ARRAY_OFFSET` not found')


def _stub_write(fn):
    """In export_binary: the branch `elif subelem.is_stub:` — which writes follow pack('<i', -2)?"""
    for n in ast.walk(fn):
        if isinstance(n, ast.If) and ast.unparse(n.test) == 'subelem.is_stub':
            body = [ast.unparse(s) for s in n.body]
            if not body or body[0] != "file.write(pack('<i', -2))":
                raise ExtractError('stub write: first statement not the -2 marker: ' + '; '.join(body))
            rest = body[1:]
            if not rest:
                return 'none'
            if len(rest) == 1 and 'subelem.uuid' in rest[0] and 'file.write' in rest[0] and "b'\\x00'" in rest[0] \
                    and 'str(' in rest[0] and 'bytes' not in rest[0].replace("b'\\x00'", ''):
                return 'uuidText'
            raise ExtractError('stub write: not understood: ' + '; '.join(rest))
    raise ExtractError('stub write branch not found')


def _stub_read(fn):
    for n in ast.walk(fn):
        if isinstance(n, ast.If) and ast.unparse(n.test) == 'ind == -2':
            first = ast.unparse(n.body[0])
            if first.replace(' ', '') == 'uuid=UUID(binformat.read_nullstr(file))':
                return 'uuidText'
            raise ExtractError('stub read: not understood: ' + first)
    raise ExtractError('stub read branch not found')


def generate(repo):
    src = (repo / 'src/srctools/dmx.py').read_text(encoding='utf-8')
    tree = ast.parse(src)
    canon, alias, text = _value_types(tree)

    d = _top_assign(tree, 'VAL_TYPE_TO_IND')
    if not isinstance(d, ast.Dict):
        raise ExtractError('VAL_TYPE_TO_IND is not a dict literal')
    codes = {}
    for k, v in zip(d.keys, d.values):
        if not (isinstance(v, ast.Constant) and isinstance(v.value, int) and not isinstance(v.value, bool) and v.value >= 0):
            raise ExtractError('VAL_TYPE_TO_IND: value not a natural number literal')
        codes[_vt_of(k, alias)] = v.value        # python dict: later duplicate keys win, position of the first
    off = _top_assign(tree, 'ARRAY_OFFSET')
    if not (isinstance(off, ast.Constant) and isinstance(off.value, int) and off.value >= 0):
        raise ExtractError('ARRAY_OFFSET is not a natural number literal')
    inv = ast.unparse(_top_assign(tree, 'IND_TO_VALTYPE')).replace(' ', '')
    if inv != '{ind:val_typeforval_type,indinVAL_TYPE_TO_IND.items()}':
        raise ExtractError('IND_TO_VALTYPE: unrecognised construction: ' + inv)

    parse_bin = _method(tree, 'Element', 'parse_bin')
    export_bin = _method(tree, 'Element', 'export_binary')
    cmp_ = _decode_site(parse_bin)
    if 'IND_TO_VALTYPE[attr_type_data]' not in ast.unparse(parse_bin):
        raise ExtractError('parse_bin: IND_TO_VALTYPE lookup not found')
    exp_src = ast.unparse(export_bin)
    if 'typ_ind = VAL_TYPE_TO_IND[attr.type]' not in exp_src or 'typ_ind += ARRAY_OFFSET' not in exp_src \
            or "file.write(pack('B', typ_ind))" not in exp_src:
        raise ExtractError('export_binary: type byte encode site not understood')
    tab_r, tab_w = _strtab(parse_bin), _strtab(export_bin)
    stub_w, stub_r = _stub_write(export_bin), _stub_read(parse_bin)

    # struct formats of the fixed-size types
    fmts = {}
    def put(name, fmt):
        key = next((c for c in canon if c.casefold() == name), None)
        if key is None:
            raise ExtractError(f'struct for unknown type name {name!r}')
        if not (isinstance(fmt, str) and fmt.startswith('<')):
            raise ExtractError(f'struct format of {name} not little-endian: {fmt!r}')
        body = fmt[1:]
        cnt = body[:-1]
        kind = body[-1:]
        if kind not in FIELD_KIND or (cnt and not cnt.isdigit()):
            raise ExtractError(f'struct format of {name} not understood: {fmt!r}')
        fmts[key] = (int(cnt) if cnt else 1, FIELD_KIND[kind], struct.calcsize(fmt))
    for n in tree.body:
        if isinstance(n, ast.Expr) and isinstance(n.value, ast.Call) and isinstance(n.value.func, ast.Name) \
                and n.value.func.id in ('_binconv_basic', '_binconv_cls'):
            a = n.value.args
            if len(a) < 2 or not all(isinstance(x, ast.Constant) for x in a[:2]):
                raise ExtractError('binconv call not understood: ' + ast.unparse(n))
            put(a[0].value, a[1].value)
        if isinstance(n, ast.Assign) and len(n.targets) == 1 and isinstance(n.targets[0], ast.Name) \
                and n.targets[0].id.startswith('_struct_') and isinstance(n.value, ast.Call) \
                and ast.unparse(n.value.func) == 'Struct' and len(n.value.args) == 1 and isinstance(n.value.args[0], ast.Constant):
            put(n.targets[0].id[len('_struct_'):], n.value.args[0].value)
    missing = [c for c in canon if c not in fmts and c not in ('STRING', 'BINARY')]
    if missing:
        raise ExtractError(f'no struct format found for {missing}')

    # BOOL_LOOKUP of srctools/__init__.py (used by the string -> bool conversion)
    init_tree = ast.parse((repo / 'src/srctools/__init__.py').read_text(encoding='utf-8'))
    bl = ast.literal_eval(_top_assign(init_tree, 'BOOL_LOOKUP'))
    if not (isinstance(bl, dict) and all(isinstance(k, str) and isinstance(v, bool) for k, v in bl.items())):
        raise ExtractError('BOOL_LOOKUP is not a dict str -> bool')
    conv_src = src
    if '_conv_string_to_bool(text: str) -> bool: return BOOL_LOOKUP[text.casefold()]' not in conv_src \
            or '_conv_bool_to_string = bool_as_int' not in conv_src or '_conv_integer_to_string = str' not in conv_src \
            or '_conv_string_to_integer = int' not in conv_src:
        raise ExtractError('bool/int string conversions not understood')

    vt = lambda c: '.' + VT_LEAN[c]
    L = ['import Srctools.Model.C14',
         '/-! GENERATED by tools/gen_dmx.py from src/srctools/dmx.py — do not edit. -/',
         'namespace Gen.Dmx', '',
         'def tables : C14.Tables where',
         '  codes := [' + ', '.join(f'({vt(k)}, {v})' for k, v in codes.items()) + ']',
         f'  arrayOffset := {off.value}',
         f'  decodeCmp := .{cmp_}',
         '  formats := [' + ', '.join(f'({vt(c)}, {fmts[c][0]}, .{fmts[c][1]})' for c in canon if c in fmts) + ']',
         '  sizes := [' + ', '.join(f'({vt(c)}, {fmts[c][2]})' for c in canon if c in fmts) + ']',
         '  strTabRead := [' + ', '.join(f'({a}, {b})' for a, b in tab_r) + ']',
         '  strTabWrite := [' + ', '.join(f'({a}, {b})' for a, b in tab_w) + ']',
         f'  stubWrite := .{stub_w}',
         f'  stubRead := .{stub_r}',
         '  kv2Names := [' + ', '.join(f'({vt(c)}, [' + ', '.join(f'Char.ofNat {ord(ch)}' for ch in text[c]) + '])' for c in canon) + ']',
         '  boolLookup := [' + ', '.join('([' + ', '.join(f'Char.ofNat {ord(ch)}' for ch in k) + '], ' + ('true' if v else 'false') + ')' for k, v in bl.items()) + ']',
         '', 'end Gen.Dmx']
    return '\n'.join(L) + '\n'
