"""Gen.Vtf: tables and per-pixel codec expressions of srctools/vtf.py and
srctools/_py_vtf_readwrite.py (and, best effort, of the Cython twin _cy_vtf_readwrite.pyx).

* `ImageFormats` members -> (ind, r, g, b, a, size, is_compressed)           [vtf.py]
* for every format: do `load_<name>` / `save_<name>` exist, and - when the function works pixel by
  pixel - the expression computed for every output channel / byte, obtained by a small symbolic
  execution of the function body (`ast` only; the code is never imported or run):
    - loop style   `for offset in range(width * height): pixels[4*offset+c] = <expr of data[k*offset+j]>`
    - slice style  `view_pix[c::4] = data[j::k]`, constants `b'\\xff' * (width * height)`, `bytes(n)`
    - the closures made by `saveload_rgba(mode)`
    - helper calls (`upsample`, `decomp565`, `compress565`) are inlined
  Functions that do not fit (DXT / ATI block decoders) are reported as present with no expressions.
* constants: ENVMAP flag, CubeSide values, the 7.5 sphere-map cut-off, resource ids, struct formats.
"""
import ast, re
from extract import ExtractError

# ------------------------------------------------------------------ expression terms

def lit(n): return ('lit', n)

def lean_e(e):
    t = e[0]
    if t == 'var': return f'(.var {e[1]})'
    if t == 'lit': return f'(.lit {e[1]})'
    if t in ('and', 'or', 'add', 'eq', 'lt', 'land'): return f'(.{t} {lean_e(e[1])} {lean_e(e[2])})'
    if t in ('shl', 'shr', 'div'): return f'(.{t} {lean_e(e[1])} {e[2]})'
    if t == 'ite': return f'(.ite {lean_e(e[1])} {lean_e(e[2])} {lean_e(e[3])})'
    raise ExtractError(f'not an expression: {e!r}')

def lean_elist(l):
    return '[' + ', '.join(lean_e(e) for e in l) + ']'


class SymErr(Exception):
    pass


class Module:
    """Top-level function definitions and integer constants of one source file."""
    def __init__(self, tree, consts=None):
        self.funcs = {n.name: n for n in tree.body if isinstance(n, ast.FunctionDef)}
        self.consts = dict(consts or {})


def _body(fn):
    b = list(fn.body)
    if b and isinstance(b[0], ast.Expr) and isinstance(b[0].value, ast.Constant) and isinstance(b[0].value.value, str):
        b = b[1:]
    return b


class Exec:
    """Symbolic execution of one load_/save_ function. kind: 'load' (data -> pixels) or 'save'."""
    def __init__(self, mod, fn, kind, closure=None):
        self.mod, self.fn, self.kind = mod, fn, kind
        self.consts = dict(mod.consts); self.consts.update(closure or {})
        args = [a.arg for a in fn.args.args]
        if args[:4] != ['pixels', 'data', 'width', 'height']:
            raise SymErr(f'{fn.name}: unexpected parameters {args}')
        self.alias = {'pixels': 'pixels', 'data': 'data'}
        self.inp, self.outp = ('data', 'pixels') if kind == 'load' else ('pixels', 'data')
        self.bpp = None
        self.locals = {}
        self.out = {}

    # -- helpers
    def set_bpp(self, k):
        if k == 0:
            raise SymErr('zero stride')
        if self.bpp is None:
            self.bpp = k
        elif self.bpp != k:
            raise SymErr(f'{self.fn.name}: inconsistent bytes per pixel {self.bpp} vs {k}')

    def stride_ok(self, arr, k):
        if arr == 'pixels':
            if k != 4: raise SymErr(f'{self.fn.name}: pixel stride {k}')
        else:
            self.set_bpp(k)

    def const_int(self, node):
        v = self.expr(node)
        if v[0] != 'lit':
            raise SymErr(f'{self.fn.name}: literal expected: {ast.unparse(node)}')
        return v[1]

    def is_npix(self, node):
        return ast.unparse(node).replace(' ', '') in ('width*height', '(width*height)')

    def affine(self, node):
        """k*offset + c -> (k, c)."""
        if isinstance(node, ast.BinOp) and isinstance(node.op, ast.Add):
            k, c0 = self.affine(node.left)
            return k, c0 + self.const_int(node.right)
        if isinstance(node, ast.BinOp) and isinstance(node.op, ast.Mult) and isinstance(node.right, ast.Name) \
                and node.right.id == 'offset':
            return self.const_int(node.left), 0
        if isinstance(node, ast.Name) and node.id == 'offset':
            return 1, 0
        raise SymErr(f'{self.fn.name}: index not of the form k*offset+c: {ast.unparse(node)}')

    def base(self, node):
        """Array a subscripted expression refers to, through memoryview(...) and local aliases."""
        if isinstance(node, ast.Name) and node.id in self.alias:
            return self.alias[node.id]
        if isinstance(node, ast.Call) and isinstance(node.func, ast.Name) and node.func.id == 'memoryview' \
                and len(node.args) == 1:
            return self.base(node.args[0])
        return None

    # -- expressions
    def expr(self, node):
        if isinstance(node, ast.Constant) and isinstance(node.value, int) and not isinstance(node.value, bool):
            return lit(node.value)
        if isinstance(node, ast.Name):
            if node.id in self.locals: return self.locals[node.id]
            if node.id in self.consts: return lit(self.consts[node.id])
            raise SymErr(f'{self.fn.name}: unknown name {node.id}')
        if isinstance(node, ast.Attribute) and isinstance(node.value, ast.Name) and node.value.id in self.locals:
            v = self.locals[node.value.id]
            if v[0] == 'struct' and node.attr in v[1]:
                return v[1][node.attr]
            raise SymErr(f'{self.fn.name}: bad attribute {ast.unparse(node)}')
        if isinstance(node, ast.Subscript) and not isinstance(node.slice, ast.Slice):
            arr = self.base(node.value)
            if arr is None:
                raise SymErr(f'{self.fn.name}: subscript of {ast.unparse(node.value)}')
            if arr != self.inp:
                raise SymErr(f'{self.fn.name}: reads its own output {ast.unparse(node)}')
            k, c = self.affine(node.slice)
            self.stride_ok(arr, k)
            if not 0 <= c < k:
                raise SymErr(f'{self.fn.name}: index outside the pixel: {ast.unparse(node)}')
            return ('var', c)
        if isinstance(node, ast.BinOp):
            a = self.expr(node.left)
            op = type(node.op)
            if op in (ast.LShift, ast.RShift, ast.FloorDiv):
                k = self.const_int(node.right)
                return ({ast.LShift: 'shl', ast.RShift: 'shr', ast.FloorDiv: 'div'}[op], a, k)
            b = self.expr(node.right)
            if op is ast.BitAnd: return ('and', a, b)
            if op is ast.BitOr: return ('or', a, b)
            if op is ast.Add: return ('add', a, b)
            raise SymErr(f'{self.fn.name}: operator {op.__name__}')
        if isinstance(node, ast.IfExp):
            return ('ite', self.cond(node.test), self.expr(node.body), self.expr(node.orelse))
        if isinstance(node, ast.Tuple):
            return ('tuple', [self.expr(e) for e in node.elts])
        if isinstance(node, ast.Dict):
            if not all(isinstance(k, ast.Constant) and isinstance(k.value, str) for k in node.keys):
                raise SymErr('dict keys')
            return ('struct', {k.value: self.expr(v) for k, v in zip(node.keys, node.values)})
        if isinstance(node, ast.Call) and isinstance(node.func, ast.Name) and node.func.id in self.mod.funcs:
            return self.call(self.mod.funcs[node.func.id], [self.expr(a) for a in node.args])
        raise SymErr(f'{self.fn.name}: unsupported expression {ast.unparse(node)}')

    def cond(self, node):
        if isinstance(node, ast.BoolOp) and isinstance(node.op, ast.And):
            vals = [self.cond(v) for v in node.values]
            r = vals[0]
            for v in vals[1:]:
                r = ('land', r, v)
            return r
        if isinstance(node, ast.Compare):
            items = [node.left] + list(node.comparators)
            parts = []
            for op, l, r in zip(node.ops, items, items[1:]):
                if isinstance(op, ast.Eq): parts.append(('eq', self.expr(l), self.expr(r)))
                elif isinstance(op, ast.Lt): parts.append(('lt', self.expr(l), self.expr(r)))
                else: raise SymErr(f'{self.fn.name}: comparison {type(op).__name__}')
            r = parts[0]
            for v in parts[1:]:
                r = ('land', r, v)
            return r
        return self.expr(node)   # truthiness of a number

    def call(self, fn, args):
        params = [a.arg for a in fn.args.args]
        if len(params) != len(args):
            raise SymErr(f'call of {fn.name}: arity')
        body = _body(fn)
        if len(body) != 1 or not isinstance(body[0], ast.Return):
            raise SymErr(f'{fn.name}: not a single return')
        sub = Exec.__new__(Exec)
        sub.__dict__.update(self.__dict__)
        sub.locals = dict(zip(params, args))
        return sub.expr(body[0].value)

    # -- statements
    def store(self, target, v):
        if isinstance(target, ast.Name):
            self.locals[target.id] = v
            return
        if isinstance(target, (ast.Tuple, ast.List)):
            if v[0] != 'tuple' or len(v[1]) != len(target.elts):
                raise SymErr(f'{self.fn.name}: cannot destructure')
            for t, x in zip(target.elts, v[1]):
                self.store(t, x)
            return
        if isinstance(target, ast.Subscript) and not isinstance(target.slice, ast.Slice):
            arr = self.base(target.value)
            if arr != self.outp:
                raise SymErr(f'{self.fn.name}: store into {ast.unparse(target)}')
            k, c = self.affine(target.slice)
            self.stride_ok(arr, k)
            if not 0 <= c < k:
                raise SymErr(f'{self.fn.name}: store outside the pixel')
            if v[0] in ('tuple', 'struct'):
                raise SymErr('store of a tuple')
            self.out[c] = v
            return
        raise SymErr(f'{self.fn.name}: unsupported target {ast.unparse(target)}')

    def slice_spec(self, node):
        """(array, start, stride or None for the whole array)."""
        if isinstance(node, ast.Subscript) and isinstance(node.slice, ast.Slice):
            arr = self.base(node.value)
            s = node.slice
            if arr is None or s.upper is not None:
                raise SymErr(f'{self.fn.name}: slice {ast.unparse(node)}')
            if s.lower is None and s.step is None:
                return arr, 0, None
            start = self.const_int(s.lower) if s.lower is not None else 0
            if s.step is None:
                raise SymErr(f'{self.fn.name}: slice without step {ast.unparse(node)}')
            return arr, start, self.const_int(s.step)
        arr = self.base(node)
        if arr is not None:
            return arr, 0, None
        return None

    def slice_assign(self, targets, value):
        # right-hand side: a strided view of the input array, or constant bytes
        src = self.slice_spec(value)
        consts = None
        if src is None:
            if isinstance(value, ast.BinOp) and isinstance(value.op, ast.Mult) and isinstance(value.left, ast.Constant) \
                    and isinstance(value.left.value, bytes) and self.is_npix(value.right):
                consts = list(value.left.value)
            elif isinstance(value, ast.Call) and isinstance(value.func, ast.Name) and value.func.id == 'bytes' \
                    and len(value.args) == 1 and ast.unparse(value.args[0]).replace(' ', '') == '4*width*height':
                consts = [0, 0, 0, 0]
            else:
                raise SymErr(f'{self.fn.name}: unsupported slice source {ast.unparse(value)}')
        else:
            if src[0] != self.inp:
                raise SymErr(f'{self.fn.name}: slice source is not the input array')
        for t in targets:
            spec = self.slice_spec(t)
            if spec is None or spec[0] != self.outp:
                raise SymErr(f'{self.fn.name}: unsupported slice target {ast.unparse(t)}')
            _, tstart, tstride = spec
            per = 4 if self.outp == 'pixels' else None
            if consts is not None:
                if tstride is None:
                    # whole output array = repetition of the constant block
                    if per is None: self.set_bpp(len(consts)); n = len(consts)
                    else: n = per
                    if len(consts) != n: raise SymErr('constant block size')
                    for c in range(n): self.out[c] = lit(consts[c])
                else:
                    self.stride_ok(self.outp, tstride)
                    if len(consts) != 1: raise SymErr('constant for a strided slice must be one byte')
                    self.out[tstart] = lit(consts[0])
                continue
            _, sstart, sstride = src
            # elements correspond pixel by pixel: one element per pixel on both sides
            if tstride is None:
                if per is not None: raise SymErr('whole pixel array from one input slice')
                self.set_bpp(1); tstart = 0
            else:
                self.stride_ok(self.outp, tstride)
            if sstride is None:
                if self.inp == 'pixels': raise SymErr('whole pixel array as a source')
                self.set_bpp(1); sstart = 0
            else:
                self.stride_ok(self.inp, sstride)
            self.out[tstart] = ('var', sstart)

    def stmt(self, s):
        if isinstance(s, ast.Expr) and isinstance(s.value, ast.Constant):
            return
        if isinstance(s, ast.Assign):
            # alias: x = memoryview(y)
            if len(s.targets) == 1 and isinstance(s.targets[0], ast.Name) and self.base(s.value) is not None:
                self.alias[s.targets[0].id] = self.base(s.value)
                return
            if any(isinstance(t, ast.Subscript) and isinstance(t.slice, ast.Slice) for t in s.targets):
                self.slice_assign(s.targets, s.value)
                return
            v = self.expr(s.value)
            for t in s.targets:
                self.store(t, v)
            return
        if isinstance(s, ast.For):
            ok = (isinstance(s.target, ast.Name) and s.target.id == 'offset' and not s.orelse
                  and isinstance(s.iter, ast.Call) and isinstance(s.iter.func, ast.Name) and s.iter.func.id == 'range'
                  and len(s.iter.args) == 1 and self.is_npix(s.iter.args[0]))
            if not ok:
                raise SymErr(f'{self.fn.name}: unsupported loop')
            for b in s.body:
                self.stmt(b)
            return
        if isinstance(s, ast.If):
            c = self.cond(s.test)
            l0, o0 = dict(self.locals), dict(self.out)
            for b in s.body: self.stmt(b)
            l1, o1 = self.locals, self.out
            self.locals, self.out = dict(l0), dict(o0)
            for b in s.orelse: self.stmt(b)
            l2, o2 = self.locals, self.out
            def merge(d1, d2, d0):
                r = {}
                for k in set(d1) | set(d2):
                    a = d1.get(k, d0.get(k)); b = d2.get(k, d0.get(k))
                    if a is None or b is None:
                        raise SymErr(f'{self.fn.name}: {k} assigned in one branch only')
                    r[k] = a if a == b else ('ite', c, a, b)
                return r
            self.locals, self.out = merge(l1, l2, l0), merge(o1, o2, o0)
            return
        raise SymErr(f'{self.fn.name}: unsupported statement {type(s).__name__}')

    def run(self):
        for s in _body(self.fn):
            self.stmt(s)
        n = 4 if self.kind == 'load' else self.bpp
        if n is None or sorted(self.out) != list(range(n)):
            raise SymErr(f'{self.fn.name}: outputs {sorted(self.out)} for {n} slots')
        return [self.out[i] for i in range(n)], self.bpp


def _closures(mod, maker, mode):
    """Evaluate `saveload_rgba(mode)`: returns (loader def, saver def, closure constants)."""
    env = {}
    defs = {}
    def run(stmts):
        for s in stmts:
            if isinstance(s, ast.Expr) and isinstance(s.value, ast.Constant):
                continue
            if isinstance(s, ast.Assign) and len(s.targets) == 1 and isinstance(s.targets[0], ast.Name) \
                    and isinstance(s.value, ast.Call) and ast.unparse(s.value.func) == 'mode.index' \
                    and len(s.value.args) == 1 and isinstance(s.value.args[0], ast.Constant):
                env[s.targets[0].id] = mode.index(s.value.args[0].value)   # may raise ValueError
                continue
            if isinstance(s, ast.Assign) and isinstance(s.targets[0], ast.Attribute):
                continue   # loader.__name__ = ...
            if isinstance(s, ast.FunctionDef):
                defs[s.name] = s
                continue
            if isinstance(s, ast.Try):
                if len(s.handlers) != 1 or ast.unparse(s.handlers[0].type) != 'ValueError' or s.finalbody:
                    raise SymErr('saveload_rgba: unexpected try')
                try:
                    r = run(s.body)
                    if r is not None: return r
                except ValueError:
                    return run(s.handlers[0].body)
                return run(s.orelse)
            if isinstance(s, ast.Return) and isinstance(s.value, ast.Tuple) and len(s.value.elts) == 2 \
                    and all(isinstance(e, ast.Name) for e in s.value.elts):
                return defs[s.value.elts[0].id], defs[s.value.elts[1].id]
            raise SymErr(f'saveload_rgba: unsupported statement {ast.unparse(s)[:60]}')
        return None
    r = run(_body(maker))
    if r is None:
        raise SymErr('saveload_rgba: no return')
    return r[0], r[1], dict(env)


def py_codecs(src):
    """name -> {'load': (fn, closure) , 'save': ...} for _py_vtf_readwrite.py."""
    tree = ast.parse(src)
    mod = Module(tree)
    found = {}
    for n in tree.body:
        if isinstance(n, ast.FunctionDef) and (n.name.startswith('load_') or n.name.startswith('save_')):
            found[n.name] = (n, {})
        if isinstance(n, ast.Assign) and len(n.targets) == 1 and isinstance(n.targets[0], ast.Tuple) \
                and isinstance(n.value, ast.Call) and isinstance(n.value.func, ast.Name) \
                and n.value.func.id in mod.funcs and len(n.value.args) == 1 and isinstance(n.value.args[0], ast.Constant):
            names = [e.id for e in n.targets[0].elts]
            ld, sv, clo = _closures(mod, mod.funcs[n.value.func.id], n.value.args[0].value)
            if len(names) != 2 or not names[0].startswith('load_') or not names[1].startswith('save_'):
                raise ExtractError(f'unexpected unpacking of {n.value.func.id}: {names}')
            found[names[0]] = (ld, clo)
            found[names[1]] = (sv, clo)
    # the dispatch rule of init(): glob['load_' + fmt.name.casefold()]
    init = mod.funcs.get('init')
    isrc = ast.unparse(init) if init else ''
    if "glob['load_' + fmt.name.casefold()]" not in isrc or "glob['save_' + fmt.name.casefold()]" not in isrc:
        raise ExtractError('init(): dispatch by name no longer recognised')
    return mod, found


def sym(mod, entry, kind):
    fn, clo = entry
    try:
        return Exec(mod, fn, kind, clo).run()
    except SymErr as e:
        return None, str(e)


# ------------------------------------------------------------------ the Cython twin (best effort)

def pyx_codecs(text):
    """ind -> (load exprs | None, save exprs | None) for the functions of FORMATS[] that can be
    read as plain Python after removing the C declarations."""
    enum = {}
    m = re.search(r'^cdef enum:\n((?:    \w+ = \d+\n)+)', text, re.M)
    if m:
        for k, v in re.findall(r'(\w+) = (\d+)', m.group(1)):
            enum[k] = int(v)
    funcs = {}
    for m in re.finditer(r'^cdef (?:inline )?[^\n]*?\b(\w+)\(([^)]*)\)[^\n]*:\n((?:(?:    [^\n]*|)\n)+)', text, re.M):
        name, params, body = m.group(1), m.group(2), m.group(3)
        pnames = [p.strip().split()[-1].split(']')[-1].strip() for p in params.split(',') if p.strip()]
        lines = []
        for ln in body.split('\n'):
            st = ln.strip()
            if st.startswith('cdef ') or st.startswith('#'):
                continue
            ln = re.sub(r'prange\((.*?), nogil=True, schedule=\'static\'\)', r'range(\1)', ln)
            ln = re.sub(r'<\w+>', '', ln)
            lines.append(ln)
        code = f"def {name}({', '.join(pnames)}):\n" + '\n'.join(lines) + '\n    pass\n'
        try:
            t = ast.parse(code)
        except SyntaxError:
            continue
        fn = t.body[0]
        if isinstance(fn.body[-1], ast.Pass) and len(fn.body) > 1:
            fn.body = fn.body[:-1]
        funcs[name] = fn
    holder = ast.Module(body=list(funcs.values()), type_ignores=[])
    mod = Module(holder, enum)
    table = {}
    for m in re.finditer(r'^FORMATS\[\s*(\d+)\] = Format\("(\w+)", (\S+), (\S+), (\S+)\)', text, re.M):
        ind = int(m.group(1))
        ld, sv = m.group(4).rstrip(','), m.group(5).rstrip(',')
        res = []
        for ref, kind in ((ld, 'load'), (sv, 'save')):
            if ref == 'NULL' or not ref.startswith('&'):
                res.append(None); continue
            fname = ref[1:]
            if fname == 'load_copy':
                res.append([('var', i) for i in range(4)]) if re.search(r'\bload_copy\(.*\n\s+""".*"""\n\s+memcpy\(&pixels\[0\], &data\[0\], 4 \* width \* height\)', text) else res.append(None)
                continue
            if fname == 'save_copy':
                res.append([('var', i) for i in range(4)]) if re.search(r'\bsave_copy\(.*\n\s+""".*"""\n\s+memcpy\(&data\[0\], &pixels\[0\], 4 \* width \* height\)', text) else res.append(None)
                continue
            fn = funcs.get(fname)
            if fn is None:
                res.append(None); continue
            try:
                res.append(Exec(mod, fn, kind).run()[0])
            except SymErr:
                res.append(None)
        table[ind] = (m.group(2), res[0], res[1])
    return table


# ------------------------------------------------------------------ vtf.py tables

_MK_FMT = ("global _mk_fmt_ind\nif grey:\n    r = g = b = grey\n    size = grey + a\nif not size:\n    size = r + g + b + a\n"
           "_mk_fmt_ind += 1\nreturn (r, g, b, a, size, _mk_fmt_ind)")
_FRAME_SIZE = ("if self.is_compressed:\n    block_wid, mod = divmod(width, 4)\n    if mod:\n        block_wid += 1\n"
               "    block_height, mod = divmod(height, 4)\n    if mod:\n        block_height += 1\n"
               "    return self.size * block_wid * block_height // 8\nelse:\n    return self.size * width * height // 8")


def _mk_fmt(r=0, g=0, b=0, a=0, *, grey=0, size=0):
    if grey:
        r = g = b = grey
        size = grey + a
    if not size:
        size = r + g + b + a
    return r, g, b, a, size


def vtf_tables(src):
    tree = ast.parse(src)
    top = {n.name: n for n in tree.body if isinstance(n, (ast.FunctionDef, ast.ClassDef))}
    mk = top.get('_mk_fmt')
    if mk is None or '\n'.join(ast.unparse(s) for s in _body(mk)) != _MK_FMT \
            or ast.unparse(mk.args) != 'r: int=0, g: int=0, b: int=0, a: int=0, *, grey: int=0, size: int=0':
        raise ExtractError('_mk_fmt is not the function this extractor understands')
    cls = top.get('ImageFormats')
    if cls is None:
        raise ExtractError('class ImageFormats not found')
    fmts = []
    for n in cls.body:
        if isinstance(n, ast.Assign) and isinstance(n.value, ast.Call) and ast.unparse(n.value.func) == '_mk_fmt':
            args = [ast.literal_eval(a) for a in n.value.args]
            kw = {k.arg: ast.literal_eval(k.value) for k in n.value.keywords}
            fmts.append((n.targets[0].id,) + _mk_fmt(*args, **kw))
    meths = {n.name: n for n in cls.body if isinstance(n, ast.FunctionDef)}
    ic = meths.get('is_compressed')
    icb = _body(ic) if ic else []
    prefix, names = None, None
    if len(icb) == 1 and isinstance(icb[0], ast.Return) and isinstance(icb[0].value, ast.BoolOp) \
            and isinstance(icb[0].value.op, ast.Or) and len(icb[0].value.values) == 2:
        a, b = icb[0].value.values
        if isinstance(a, ast.Call) and ast.unparse(a.func) == 'self.name.startswith' and isinstance(a.args[0], ast.Constant):
            prefix = a.args[0].value
        if isinstance(b, ast.Compare) and ast.unparse(b.left) == 'self.name' and isinstance(b.ops[0], ast.In):
            names = ast.literal_eval(b.comparators[0])
    if prefix is None or names is None:
        raise ExtractError('ImageFormats.is_compressed not understood')
    fs = meths.get('frame_size')
    if fs is None or '\n'.join(ast.unparse(s) for s in _body(fs)) != _FRAME_SIZE:
        raise ExtractError('ImageFormats.frame_size is not the function this extractor understands')
    formats = [(i, r, g, b, a, size, name.startswith(prefix) or name in names, name)
               for i, (name, r, g, b, a, size) in enumerate(fmts)]
    # constants
    consts = {}
    flags = top.get('VTFFlags')
    for n in flags.body if flags else []:
        if isinstance(n, ast.Assign) and n.targets[0].id == 'ENVMAP':
            consts['envmap'] = ast.literal_eval(n.value)
    cube = top.get('CubeSide')
    consts['cube'] = [ast.literal_eval(n.value) for n in cube.body if isinstance(n, ast.Assign)] if cube else []
    cubes_ok = False
    for n in tree.body:
        if isinstance(n, ast.AnnAssign) and isinstance(n.target, ast.Name) and n.target.id == 'CUBES' \
                and ast.unparse(n.value) == 'CUBES_WITH_SPHERE[:-1]':
            cubes_ok = True
    consts['cubes_drop_last'] = cubes_ok
    vt = top.get('VTF')
    vm = {n.name: n for n in vt.body if isinstance(n, ast.FunctionDef)} if vt else {}
    dr = vm.get('_depth_range')
    m = re.search(r'\[1\] >= (\d+)', ast.unparse(dr)) if dr else None
    consts['sphere_cutoff'] = int(m.group(1)) if m else None
    rid = top.get('ResourceID')
    rv = {n.targets[0].id: ast.literal_eval(n.value) for n in rid.body if isinstance(n, ast.Assign)} if rid else {}
    consts['res'] = [list(rv.get(k, b'')) for k in ('LOW_RES', 'HIGH_RES', 'PARTICLE_SHEET')]
    fm = top.get('FilterMode')
    fv = {}
    for n in fm.body if fm else []:
        if isinstance(n, ast.Assign):
            for t in n.targets:
                fv[t.id] = ast.literal_eval(n.value)
    consts['filters'] = [fv.get(k) for k in ('UPPER_LEFT', 'UPPER_RIGHT', 'LOWER_LEFT', 'LOWER_RIGHT', 'BILINEAR')]
    # struct formats: the module-level _HEADER and every literal format used by save/read/sheet code
    hdr = None
    for n in tree.body:
        if isinstance(n, ast.Assign) and isinstance(n.targets[0], ast.Name) and n.targets[0].id == '_HEADER' \
                and isinstance(n.value, ast.Call) and ast.unparse(n.value.func) == 'struct.Struct':
            hdr = ast.literal_eval(n.value.args[0])
    if hdr is None:
        raise ExtractError('_HEADER not found')
    def fmt_strings(fn):
        out = []
        for c in ast.walk(fn):
            if isinstance(c, ast.Call):
                f = ast.unparse(c.func)
                if f in ('struct.pack', 'struct.unpack', 'struct.unpack_from', 'struct.Struct') and c.args \
                        and isinstance(c.args[0], ast.Constant) and isinstance(c.args[0].value, str):
                    out.append(c.args[0].value)
                if f == 'deferred.defer' and len(c.args) >= 2 and isinstance(c.args[1], ast.Constant):
                    out.append(c.args[1].value)
        return out
    consts['header'] = hdr
    consts['save_fmts'] = sorted(set(fmt_strings(vm['save']))) if 'save' in vm else []
    consts['read_fmts'] = sorted(set(fmt_strings(vm['read']))) if 'read' in vm else []
    sh = top.get('SheetSequence'); tc = top.get('TexCoord')
    consts['sheet_fmts'] = sorted(set((fmt_strings(sh) if sh else []) + (fmt_strings(tc) if tc else [])))
    return formats, consts


def lean_chars(s):
    return '[' + ', '.join(f'Char.ofNat {ord(c)}' for c in s) + ']'


def generate(repo):
    vsrc = (repo / 'src/srctools/vtf.py').read_text(encoding='utf-8')
    csrc = (repo / 'src/srctools/_py_vtf_readwrite.py').read_text(encoding='utf-8')
    formats, consts = vtf_tables(vsrc)
    mod, found = py_codecs(csrc)
    L = []
    L.append('import Srctools.Model.C15')
    L.append('/-! GENERATED by tools/gen_vtf.py from src/srctools/vtf.py, _py_vtf_readwrite.py and')
    L.append('_cy_vtf_readwrite.pyx — do not edit. -/')
    L.append('namespace Gen.Vtf')
    L.append('open C15')
    L.append('')
    L.append('/-- `ImageFormats`: (ind, r, g, b, a, size, is_compressed). -/')
    L.append('def formats : List FmtInfo := [')
    L.append(',\n'.join(f'  ⟨{i}, {r}, {g}, {b}, {a}, {size}, {"true" if comp else "false"}⟩  /- {name} -/'
                        for (i, r, g, b, a, size, comp, name) in formats))
    L.append(']')
    L.append('')
    L.append('def formatNames : List String := [' + ', '.join(f'"{f[7]}"' for f in formats) + ']')
    L.append('')
    notes = []
    rows = []
    for (i, r, g, b, a, size, comp, name) in formats:
        ln, sn = 'load_' + name.casefold(), 'save_' + name.casefold()
        le, se = [], []
        if ln in found:
            res = sym(mod, found[ln], 'load')
            if res[0] is None: notes.append(f'{ln}: {res[1]}')
            else: le = res[0]; lb = res[1]
        if sn in found:
            res = sym(mod, found[sn], 'save')
            if res[0] is None: notes.append(f'{sn}: {res[1]}')
            else: se = res[0]
        rows.append(f'  ⟨{i}, {"true" if ln in found else "false"}, {"true" if sn in found else "false"},\n'
                    f'    {lean_elist(le)},\n    {lean_elist(se)}⟩  /- {name} -/')
    L.append('/-- per format: `load_<name>` / `save_<name>` present in `_py_vtf_readwrite.py`, and their per-pixel')
    L.append('expressions (empty when the function is not a per-pixel map). -/')
    L.append('def codecs : List Codec := [')
    L.append(',\n'.join(rows))
    L.append(']')
    L.append('')
    L.append('/-! functions that are not per-pixel maps:')
    for n in notes:
        L.append('  ' + n.replace('-/', '- /'))
    L.append('-/')
    L.append('')
    # pyx
    try:
        ptab = pyx_codecs((repo / 'src/srctools/_cy_vtf_readwrite.pyx').read_text(encoding='utf-8'))
    except OSError:
        ptab = {}
    L.append('/-- The Cython twin: for every `FORMATS[ind]` entry whose functions could be read as per-pixel maps,')
    L.append('`(ind, load expressions or none, save expressions or none)`. -/')
    L.append('def pyxCodecs : List (Nat × Option (List E) × Option (List E)) := [')
    prow = []
    for ind in sorted(ptab):
        name, le, se = ptab[ind]
        if le is None and se is None:
            continue
        prow.append(f'  ({ind}, {"none" if le is None else "some " + lean_elist(le)},\n'
                    f'    {"none" if se is None else "some " + lean_elist(se)})  /- {name} -/')
    L.append(',\n'.join(prow))
    L.append(']')
    L.append('')
    L.append(f'def envmap : Nat := {consts.get("envmap", 0)}')
    L.append(f'def cubeSides : List Nat := {consts["cube"]}')
    L.append(f'def cubesDropLast : Bool := {"true" if consts["cubes_drop_last"] else "false"}')
    L.append(f'def sphereCutoff : Nat := {consts["sphere_cutoff"] if consts["sphere_cutoff"] is not None else 0}')
    L.append(f'def resIds : List (List Nat) := {consts["res"]}')
    L.append(f'def filters : List Nat := {[x if x is not None else 99 for x in consts["filters"]]}')
    L.append(f'def headerFmt : List Char := {lean_chars(consts["header"])}')
    L.append('def saveFmts : List (List Char) := [' + ', '.join(lean_chars(s) for s in consts['save_fmts']) + ']')
    L.append('def readFmts : List (List Char) := [' + ', '.join(lean_chars(s) for s in consts['read_fmts']) + ']')
    L.append('def sheetFmts : List (List Char) := [' + ', '.join(lean_chars(s) for s in consts['sheet_fmts']) + ']')
    L.append('')
    L.append('end Gen.Vtf')
    return '\n'.join(L) + '\n'
