"""Gen.Bspfmt: every struct format used by the BSP lump readers/writers of srctools/bsp.py,
paired reader-vs-writer per lump and per layout; the `…s` pack sites and whether the call site has a
length guard; static-prop version table and the version-conditional record segments of reader and
writer; the shape of find_or_extend's candidate test (binformat.py).

Dumb on purpose: `ast` only, literal strings, module constants, dict literals.  Every struct site in
the lump functions must be consumed by the pairing table below, otherwise ExtractError (a new or
moved pack/unpack call must be looked at by a human).
"""
import ast
from extract import ExtractError, lean_string

LUMP_FUNCS_EXTRA = ['_read_faces_common', '_write_faces_common', '_read_static_props_models']


def lean_chars(s):
    return '[' + ', '.join("'" + ({"'": "\\'", '\\': '\\\\'}.get(c, c)) + "'" for c in s) + ']' if s else '([] : List Char)'


# ----------------------------------------------------------------------------- constant folding

class Folder:
    def __init__(self, consts):
        self.consts = consts

    def fold(self, node, env=None):
        """Evaluate a str/int expression made of literals, module constants, f-strings, + - * //,
        comparisons and conditional expressions; names in `env` override.  Raises KeyError/ValueError."""
        env = env or {}
        if isinstance(node, ast.Constant) and isinstance(node.value, (str, int)) and not isinstance(node.value, bool):
            return node.value
        if isinstance(node, ast.Name):
            if node.id in env:
                return env[node.id]
            if node.id in self.consts:
                return self.consts[node.id]
            raise KeyError(node.id)
        if isinstance(node, ast.JoinedStr):
            out = ''
            for v in node.values:
                if isinstance(v, ast.Constant):
                    out += str(v.value)
                elif isinstance(v, ast.FormattedValue) and v.conversion == -1 and v.format_spec is None:
                    out += str(self.fold(v.value, env))
                else:
                    raise ValueError('format spec')
            return out
        if isinstance(node, ast.IfExp):
            return self.fold(node.body, env) if self.fold(node.test, env) else self.fold(node.orelse, env)
        if isinstance(node, ast.Compare) and len(node.ops) == 1 and isinstance(node.ops[0], (ast.Eq, ast.NotEq)):
            a, b = self.fold(node.left, env), self.fold(node.comparators[0], env)
            return (a == b) if isinstance(node.ops[0], ast.Eq) else (a != b)
        if isinstance(node, ast.BinOp) and isinstance(node.op, (ast.Add, ast.Sub, ast.Mult, ast.FloorDiv)):
            a, b = self.fold(node.left, env), self.fold(node.right, env)
            if isinstance(node.op, ast.Add):
                return a + b
            if isinstance(a, str) or isinstance(b, str):
                if isinstance(node.op, ast.Mult):
                    return a * b
                raise ValueError('str arithmetic')
            return {ast.Sub: a - b, ast.Mult: a * b, ast.FloorDiv: a // b if b else 0}[type(node.op)]
        raise ValueError('cannot fold ' + ast.dump(node)[:80])


# ----------------------------------------------------------------------------- struct sites

PACK_ATTRS = {'pack'}
UNPACK_ATTRS = {'unpack', 'iter_unpack', 'unpack_from'}


class Site:
    def __init__(self, fn, kind, fmt, ctx, node, how):
        self.fn, self.kind, self.fmt, self.ctx, self.node, self.how = fn, kind, fmt, ctx, node, how
        self.used = False

    def __repr__(self):
        return f'<{self.fn}:{self.node.lineno} {self.kind} {self.fmt} ctx={self.ctx} via {self.how}>'


def is_self_layout(node):
    """self.lump_layout['KEY'] -> KEY"""
    if isinstance(node, ast.Subscript) and isinstance(node.value, ast.Attribute) and node.value.attr == 'lump_layout' \
            and isinstance(node.value.value, ast.Name) and node.value.value.id == 'self' \
            and isinstance(node.slice, ast.Constant) and isinstance(node.slice.value, str):
        return node.slice.value
    return None


class SiteFinder(ast.NodeVisitor):
    """Collect struct sites of one function in source order, with the `is_vitamin` context."""

    def __init__(self, fn, folder):
        self.fn, self.folder = fn, folder
        self.sites = []
        self.ctx = []          # stack of 'vitamin' / 'not vitamin'
        self.locals = {}       # local name -> fmt descriptor (Struct objects bound to names)
        self.vit_names = {'is_vitamin'}

    # format descriptor: ('lit', str) | ('layout', KEY) | ('special', tag, extra)
    def desc(self, node):
        key = is_self_layout(node)
        if key:
            return ('layout', key)
        if isinstance(node, ast.Name) and node.id in self.locals:
            return self.locals[node.id]
        if isinstance(node, ast.Call) and ast.unparse(node.func) == 'struct.Struct' and node.args:
            return self.desc(node.args[0])
        src = ast.unparse(node)
        # '<' + str(len(tex_table) // struct.calcsize('i')) + 'i'   (texture offsets table)
        if src.replace(' ', '') == "'<'+str(len(tex_table)//struct.calcsize('i'))+'i'":
            return ('array', '<i')
        # self.lump_layout['STATICPROPLEAF'].format[1] * visleaf_count   (native, no prefix)
        if isinstance(node, ast.BinOp) and isinstance(node.op, ast.Mult) and isinstance(node.left, ast.Subscript) \
                and isinstance(node.left.value, ast.Attribute) and node.left.value.attr == 'format' \
                and is_self_layout(node.left.value.value) and ast.unparse(node.left.slice) == '1':
            return ('array-native-of-layout', is_self_layout(node.left.value.value))
        try:
            v = self.folder.fold(node)
        except (KeyError, ValueError):
            v = None
        if isinstance(v, str):
            return ('lit', v)
        # f'<{face_cnt}i {4*(OVERLAY_FACE_COUNT-face_cnt)}x'
        if isinstance(node, ast.JoinedStr):
            free = sorted({n.id for n in ast.walk(node) if isinstance(n, ast.Name) and n.id not in self.folder.consts})
            if len(free) == 1:
                return ('param', free[0], node)
        raise ExtractError(f'{self.fn}:{node.lineno}: format expression not understood: {src[:100]}')

    def add(self, kind, fmtnode, node, how):
        d = self.desc(fmtnode)
        ctx = self.ctx[-1] if self.ctx else 'any'
        self.sites.append(Site(self.fn, kind, d, ctx, node, how))

    def visit_Assign(self, node):
        # X = struct.Struct(..) / X = self.lump_layout['K']
        if len(node.targets) == 1 and isinstance(node.targets[0], ast.Name):
            v = node.value
            if (isinstance(v, ast.Call) and ast.unparse(v.func) == 'struct.Struct') or is_self_layout(v):
                self.locals[node.targets[0].id] = self.desc(v)
                return
            if ast.unparse(v) == 'self.is_vitamin':
                self.vit_names.add(node.targets[0].id)
        self.generic_visit(node)

    def _is_vit(self, test):
        s = ast.unparse(test)
        return s == 'self.is_vitamin' or s in self.vit_names

    def visit_If(self, node):
        test, pos, neg = node.test, 'vitamin', 'not vitamin'
        if isinstance(test, ast.UnaryOp) and isinstance(test.op, ast.Not):
            test, pos, neg = test.operand, neg, pos
        if self._is_vit(test):
            self.ctx.append(pos)
            for s in node.body:
                self.visit(s)
            self.ctx.pop()
            self.ctx.append(neg)
            for s in node.orelse:
                self.visit(s)
            self.ctx.pop()
            # an early `return` in the vitamin branch makes the rest of the function `not vitamin`
            if node.body and isinstance(node.body[-1], ast.Return) and not node.orelse and not self.ctx:
                self.ctx.append(neg)
            return
        self.generic_visit(node)

    def visit_Call(self, node):
        f = node.func
        fs = ast.unparse(f)
        if fs == 'struct.pack':
            self.add('pack', node.args[0], node, fs)
        elif fs in ('struct.iter_unpack', 'struct.unpack', 'struct.unpack_from', 'struct_read'):
            self.add('unpack', node.args[0], node, fs)
        elif fs == 'struct.calcsize':
            pass
        elif fs == 'struct.Struct':
            pass   # bound to a name (visit_Assign) and reported where it is used
        elif fs in ('read_array', 'write_array'):
            d = self.desc(node.args[0])
            kind = 'unpack' if fs == 'read_array' else 'pack'
            ctx = self.ctx[-1] if self.ctx else 'any'
            self.sites.append(Site(self.fn, kind, ('array-of', d), ctx, node, fs))
        elif isinstance(f, ast.Attribute) and f.attr in PACK_ATTRS | UNPACK_ATTRS:
            base = f.value
            if is_self_layout(base) or (isinstance(base, ast.Name) and base.id in self.locals):
                self.add('pack' if f.attr in PACK_ATTRS else 'unpack', base, node, fs)
        elif isinstance(f, ast.Attribute) and f.attr == 'defer' and len(node.args) >= 2:
            self.add('pack', node.args[1], node, fs)
        self.generic_visit(node)


def function_sites(cls, name, folder):
    fn = next((n for n in cls.body if isinstance(n, ast.FunctionDef) and n.name == name), None)
    if fn is None:
        raise ExtractError(f'BSP.{name} not found')
    sf = SiteFinder(name, folder)
    for s in fn.body:
        sf.visit(s)
    return fn, sf.sites


# ----------------------------------------------------------------------------- pairing table
# (record name, [(reader function, site index)], [(writer function, site index)])
# A record is the concatenation of the listed sites' formats.  Layout-dependent sites are expanded
# for every layout; `vitamin` / `not vitamin` sites are used for the matching layouts only.
PAIRS = [
    ('planes', [('_lmp_read_planes', 0)], [('_lmp_write_planes', 0)]),
    ('vertexes', [('_lmp_read_vertexes', 0)], [('_lmp_write_vertexes', 0)]),
    ('edges', [('_lmp_read_surfedges', 0)], [('_lmp_write_surfedges', 1)]),
    ('surfedges', [('_lmp_read_surfedges', 1)], [('_lmp_write_surfedges', 0)]),
    ('primverts', [('_lmp_read_primitives', 0)], [('_lmp_write_primitives', 0)]),
    ('primindices', [('_lmp_read_primitives', 1)], [('_lmp_write_primitives', 2)]),
    ('primitives', [('_lmp_read_primitives', 2)], [('_lmp_write_primitives', 1)]),
    ('faceids', [('_read_faces_common', 0)], [('_write_faces_common', 2)]),
    ('faces', [('_read_faces_common', 1)], [('_write_faces_common', 0), ('_write_faces_common', 1)]),
    ('brushsides', [('_lmp_read_brushes', 0), ('_lmp_read_brushes', 1)], [('_lmp_write_brushes', 1), ('_lmp_write_brushes', 2)]),
    ('brushes', [('_lmp_read_brushes', 2)], [('_lmp_write_brushes', 0)]),
    ('leafwaterdata', [('_lmp_read_water_leaf_info', 0)], [('_lmp_write_water_leaf_info', 0)]),
    ('leafbrushes', [('_lmp_read_visleafs', 0)], [('_lmp_write_visleafs', 3)]),
    ('leaffaces', [('_lmp_read_visleafs', 1)], [('_lmp_write_visleafs', 2)]),
    ('leafmindisttowater', [('_lmp_read_visleafs', 2)], [('_lmp_write_visleafs', 4)]),
    ('leafs', [('_lmp_read_visleafs', 3)], [('_lmp_write_visleafs', 0), ('_lmp_write_visleafs', 1)]),
    ('nodes', [('_lmp_read_nodes', 0)], [('_lmp_write_nodes', 0)]),
    ('vis_count', [('_lmp_read_visibility', 0)], [('_lmp_write_visibility', 0)]),
    ('vis_offsets', [('_lmp_read_visibility', 1)], [('_lmp_write_visibility', 1)]),
    ('texdata_string_table', [('_lmp_read_textures', 0)], [('_lmp_write_textures', 0)]),
    ('texdata', [('_lmp_read_texinfo', 0), ('_lmp_read_texinfo', 1)],
                [('_lmp_write_texinfo', 0), ('_lmp_write_texinfo', 1)]),
    ('texinfo', [('_lmp_read_texinfo', 2)], [('_lmp_write_texinfo', 2)]),
    ('models', [('_lmp_read_bmodels', 0)], [('_lmp_write_bmodels', 0)]),
    ('physcollide_header', [('_lmp_read_bmodels', 1)], [('_lmp_write_bmodels', 1)]),
    ('physcollide_solid_len', [('_lmp_read_bmodels', 2)], [('_lmp_write_bmodels', 2)]),
    ('physcollide_sentinel', [('_lmp_read_bmodels', 1)], [('_lmp_write_bmodels', 3)]),
    ('cubemaps', [('_lmp_read_cubemaps', 0)], [('_lmp_write_cubemaps', 0)]),
    ('overlay_fades', [('_lmp_read_overlays', 1)], [('_lmp_write_overlays', 0)]),
    ('overlay_levels', [('_lmp_read_overlays', 2)], [('_lmp_write_overlays', 1)]),
    # overlays: handled specially (face array is an f-string of the face count)
    ('prop_dict_count', [('_read_static_props_models', 0)], [('_lmp_write_props', 0)]),
    ('prop_dict_name', [('_read_static_props_models', 1)], [('_lmp_write_props', 1)]),
    ('prop_leaf_count', [('_lmp_read_props', 0)], [('_lmp_write_props', 2)]),
    ('prop_leafs', [('_lmp_read_props', 1)], [('_lmp_write_props', 3)]),
    ('prop_count', [('_lmp_read_props', 2)], [('_lmp_write_props', 4)]),
    # static prop records: handled specially (version-conditional segments)
    ('detail_dict_count', [('_read_static_props_models', 0)], [('_lmp_write_detail_props', 1)]),
    ('detail_dict_name', [('_read_static_props_models', 1)], [('_lmp_write_detail_props', 2)]),
    ('detail_sprite_count', [('_lmp_read_detail_props', 0)], [('_lmp_write_detail_props', 3)]),
    ('detail_sprite', [('_lmp_read_detail_props', 1)], [('_lmp_write_detail_props', 4)]),
    ('detail_count', [('_lmp_read_detail_props', 2)], [('_lmp_write_detail_props', 5)]),
    ('detail_prop', [('_lmp_read_detail_props', 3)], [('_lmp_write_detail_props', 0)]),
]
# sites consumed by the special handlers: (function, index)
SPECIAL_SITES = {
    ('_lmp_read_overlays', 0), ('_lmp_write_overlays', 2), ('_lmp_write_overlays', 3),
    ('_lmp_write_overlays', 4), ('_lmp_write_overlays', 5),
}
PROP_READER_FIRST, PROP_WRITER_FIRST = 3, 5   # first record site of _lmp_read_props / _lmp_write_props


# ----------------------------------------------------------------------------- static prop segments

def cond_of(test):
    """AST of an `if` test in the static-prop record code -> Lean PropCond term."""
    s = ast.unparse(test)
    if isinstance(test, ast.BoolOp):
        op = 'and' if isinstance(test.op, ast.And) else 'or'
        out = cond_of(test.values[0])
        for v in test.values[1:]:
            out = f'(.{op} {out} {cond_of(v)})'
        return out
    if isinstance(test, ast.UnaryOp) and isinstance(test.op, ast.Not):
        return f'(.not {cond_of(test.operand)})'
    if isinstance(test, ast.Compare) and len(test.ops) == 1 and ast.unparse(test.left) == 'vers_num':
        c = test.comparators[0]
        if isinstance(test.ops[0], ast.GtE) and isinstance(c, ast.Constant) and isinstance(c.value, int):
            return f'(.versGe {c.value})'
        if isinstance(test.ops[0], ast.In) and isinstance(c, (ast.Tuple, ast.List)) \
                and all(isinstance(e, ast.Constant) and isinstance(e.value, int) for e in c.elts):
            return '(.versIn [' + ', '.join(str(e.value) for e in c.elts) + '])'
    if s == 'version.is_lightmap':
        return '.isLightmap'
    if s == 'version.is_sdk_2013':
        return '.isSdk2013'
    if isinstance(test, ast.Compare) and len(test.ops) == 1 and isinstance(test.ops[0], ast.Is) \
            and ast.unparse(test.left) == 'version' and ast.unparse(test.comparators[0]).startswith('StaticPropVersion.'):
        return '(.isVer ' + lean_chars(ast.unparse(test.comparators[0]).split('.', 1)[1]) + ')'
    return '.unknown'


def prop_segments(fn, sites, first):
    """Record sites of the per-prop loop with the condition of the enclosing `if`s (elif = and-not)."""
    loop = [n for n in ast.walk(fn) if isinstance(n, ast.For)]
    rec_sites = sites[first:]
    by_node = {id(s.node): s for s in rec_sites}
    out = []

    def walk(stmts, cond):
        for st in stmts:
            if isinstance(st, ast.If):
                c = cond_of(st.test)
                walk(st.body, c if cond == '.always' else f'(.and {cond} {c})')
                neg = f'(.not {c})'
                walk(st.orelse, neg if cond == '.always' else f'(.and {cond} {neg})')
            else:
                for n in ast.walk(st):
                    if id(n) in by_node:
                        s = by_node[id(n)]
                        if s.fmt[0] != 'lit':
                            raise ExtractError(f'{s}: static prop record segment is not a literal format')
                        out.append((cond, s.fmt[1], s))
    # the per-prop loop is the `for` containing the first record site
    target = None
    for lp in loop:
        if any(id(n) == id(rec_sites[0].node) for n in ast.walk(lp)):
            target = lp if target is None or any(id(n) == id(lp) for n in ast.walk(target)) else target
    if target is None:
        raise ExtractError(f'{fn.name}: per-prop loop not found')
    walk(target.body, '.always')
    if len(out) != len(rec_sites):
        raise ExtractError(f'{fn.name}: {len(rec_sites)} record sites but {len(out)} located in the per-prop loop')
    # sort by source position (ast.walk is breadth-first)
    out.sort(key=lambda t: (t[2].node.lineno, t[2].node.col_offset))
    return out


# ----------------------------------------------------------------------------- `…s` guards

def str_fields(fmt):
    """lengths of the `ns` fields of a literal format string"""
    import re
    return [int(m.group(1) or 1) for m in re.finditer(r'(\d*)s', fmt)]


def find_guard(fn, site_node, limit):
    """Is there, in the same function, an `if len(X) > limit: raise …` (or `>= limit + 1`) whose X is
    the (un-encoded) value packed at `site_node`, located before it?"""
    packed = site_node.args[1] if len(site_node.args) > 1 else None
    if packed is None:
        return False, ''
    # value expression: NAME.encode(...)  or NAME
    base = packed
    if isinstance(base, ast.Call) and isinstance(base.func, ast.Attribute) and base.func.attr == 'encode':
        base = base.func.value
    what = ast.unparse(base)
    for n in ast.walk(fn):
        if isinstance(n, ast.If) and n.lineno < site_node.lineno and any(isinstance(b, ast.Raise) for b in n.body):
            t = n.test
            if isinstance(t, ast.Compare) and len(t.ops) == 1 and isinstance(t.comparators[0], ast.Constant) \
                    and isinstance(t.left, ast.Call) and ast.unparse(t.left.func) == 'len' \
                    and ast.unparse(t.left.args[0]) == what:
                c = t.comparators[0].value
                if (isinstance(t.ops[0], ast.Gt) and c <= limit) or (isinstance(t.ops[0], ast.GtE) and c <= limit + 1):
                    return True, what
    return False, what


def find_record_guard(fn, site_node, limit):
    """A byte-string field inside a record: is there, before the pack call, an `if len(X) > limit: raise`
    where X is an attribute expression (obj.field)?  The field must be the only `…s` of that length."""
    for n in ast.walk(fn):
        if isinstance(n, ast.If) and n.lineno < site_node.lineno and any(isinstance(b, ast.Raise) for b in n.body):
            t = n.test
            if isinstance(t, ast.Compare) and len(t.ops) == 1 and isinstance(t.comparators[0], ast.Constant) \
                    and isinstance(t.left, ast.Call) and ast.unparse(t.left.func) == 'len' \
                    and isinstance(t.left.args[0], ast.Attribute):
                c = t.comparators[0].value
                if (isinstance(t.ops[0], ast.Gt) and c == limit) or (isinstance(t.ops[0], ast.GtE) and c == limit + 1) \
                        or (isinstance(t.ops[0], ast.NotEq) and c == limit):
                    return True, ast.unparse(t.left.args[0])
    return False, '(field of a record)'


# ----------------------------------------------------------------------------- main

def generate(repo):
    src = (repo / 'src/srctools/bsp.py').read_text(encoding='utf-8')
    tree = ast.parse(src)
    consts = {}
    layouts_src = {}
    for n in tree.body:
        tgt = val = None
        if isinstance(n, ast.Assign) and len(n.targets) == 1 and isinstance(n.targets[0], ast.Name):
            tgt, val = n.targets[0].id, n.value
        elif isinstance(n, ast.AnnAssign) and isinstance(n.target, ast.Name) and n.value is not None:
            tgt, val = n.target.id, n.value
        if tgt is None:
            continue
        if isinstance(val, ast.Constant) and isinstance(val.value, (str, int)) and not isinstance(val.value, bool):
            consts[tgt] = val.value
        if tgt.startswith('LUMP_LAYOUT_') and isinstance(val, ast.Dict):
            layouts_src[tgt] = val
    for need in ('OVERLAY_FACE_COUNT', 'TEXINFO_IND_TYPE'):
        if need not in consts:
            raise ExtractError(f'module constant {need} not found')
    folder = Folder(consts)

    # layout tables
    layouts, area_off = {}, {}
    for name, d in layouts_src.items():
        tbl, off = {}, None
        for k, v in zip(d.keys, d.values):
            if k is None:      # **OTHER
                if not (isinstance(v, ast.Name) and v.id in layouts):
                    raise ExtractError(f'{name}: ** of unknown table')
                tbl.update(layouts[v.id]); off = area_off[v.id]
                continue
            if not (isinstance(k, ast.Constant) and isinstance(k.value, str)):
                raise ExtractError(f'{name}: non-literal key')
            if isinstance(v, ast.Call) and ast.unparse(v.func) == 'struct.Struct' and len(v.args) == 1 \
                    and isinstance(v.args[0], ast.Constant) and isinstance(v.args[0].value, str):
                tbl[k.value] = v.args[0].value
            elif isinstance(v, ast.Constant) and isinstance(v.value, int) and k.value == 'LEAF_AREA_OFFSET':
                off = v.value
            else:
                raise ExtractError(f'{name}[{k.value}]: not struct.Struct(literal)')
        layouts[name], area_off[name] = tbl, off
    if 'LUMP_LAYOUT_STANDARD' not in layouts or 'LUMP_LAYOUT_VITAMIN' not in layouts:
        raise ExtractError('layout tables not found')
    # which layout is selected for VitaminSource (the only one for which `is_vitamin` holds)
    bsp = next((n for n in tree.body if isinstance(n, ast.ClassDef) and n.name == 'BSP'), None)
    if bsp is None:
        raise ExtractError('class BSP not found')
    read_src = ast.unparse(next(n for n in bsp.body if isinstance(n, ast.FunctionDef) and n.name == 'read'))
    if 'self.lump_layout = LUMP_LAYOUT_VITAMIN' not in read_src or 'self.game_ver = GameVersion.VITAMINSOURCE' not in read_src:
        raise ExtractError('BSP.read: selection of the VitaminSource layout not recognised')

    # struct sites of every lump function
    fn_names = [n.name for n in bsp.body if isinstance(n, ast.FunctionDef)
                and (n.name.startswith('_lmp_read_') or n.name.startswith('_lmp_write_'))] + LUMP_FUNCS_EXTRA
    fns, sites = {}, {}
    for name in fn_names:
        fns[name], sites[name] = function_sites(bsp, name, folder)

    def site(fn, i):
        try:
            s = sites[fn][i]
        except (KeyError, IndexError):
            raise ExtractError(f'{fn}: struct site #{i} not found (has {len(sites.get(fn, []))})')
        s.used = True
        return s

    def fmt_for(s, layout):
        """format string of a site under a layout, or None if the site is not active there"""
        vit = layout == 'LUMP_LAYOUT_VITAMIN'
        if (s.ctx == 'vitamin' and not vit) or (s.ctx == 'not vitamin' and vit):
            return None
        d = s.fmt
        if d[0] == 'lit':
            return d[1]
        if d[0] == 'layout':
            return layouts[layout][d[1]]
        if d[0] == 'array':
            return d[1]
        if d[0] == 'array-of':
            e = d[1]
            return e[1] if e[0] == 'lit' else layouts[layout][e[1]]
        if d[0] == 'array-native-of-layout':
            return layouts[layout][d[1]][1:]      # `.format[1]`: the code without the byte order prefix
        raise ExtractError(f'{s}: unexpected format descriptor')

    def depends_on_layout(ss):
        return any(s.fmt[0] in ('layout', 'array-native-of-layout') or (s.fmt[0] == 'array-of' and s.fmt[1][0] == 'layout')
                   or s.ctx != 'any' for s in ss)

    pairs = []   # (record, layout, [reader fmts], [writer fmts])
    for rec, rd, wr in PAIRS:
        rs = [site(f, i) for f, i in rd]
        ws = [site(f, i) for f, i in wr]
        kinds_ok = all(s.kind == 'unpack' for s in rs) and all(s.kind == 'pack' for s in ws)
        if not kinds_ok:
            raise ExtractError(f'{rec}: pairing table does not match the source any more: {rs} / {ws}')
        for layout in (sorted(layouts) if depends_on_layout(rs + ws) else ['*']):
            lay = 'LUMP_LAYOUT_STANDARD' if layout == '*' else layout
            rf = [f for f in (fmt_for(s, lay) for s in rs) if f is not None]
            wf = [f for f in (fmt_for(s, lay) for s in ws) if f is not None]
            pairs.append((rec, layout, rf, wf))

    # overlays
    ov_r = site('_lmp_read_overlays', 0)
    ov_w = [site('_lmp_write_overlays', i) for i in (2, 3, 4, 5)]
    if ov_r.fmt[0] != 'lit' or ov_w[0].fmt[0] != 'lit' or ov_w[1].fmt[0] != 'param' or ov_w[2].fmt[0] != 'lit' or ov_w[3].fmt[0] != 'lit':
        raise ExtractError(f'overlays: unexpected format shapes {ov_r} {ov_w}')
    nface = consts['OVERLAY_FACE_COUNT']
    var, node = ov_w[1].fmt[1], ov_w[1].fmt[2]
    face_fmts = [(k, folder.fold(node, {var: k})) for k in range(nface + 1)]

    # static props: version table
    spv = next((n for n in tree.body if isinstance(n, ast.ClassDef) and n.name == 'StaticPropVersion'), None)
    if spv is None:
        raise ExtractError('StaticPropVersion not found')
    versions, default = [], None
    for n in spv.body:
        if isinstance(n, ast.Assign) and len(n.targets) == 1 and isinstance(n.targets[0], ast.Name):
            nm = n.targets[0].id
            if isinstance(n.value, ast.Tuple) and 2 <= len(n.value.elts) <= 3 \
                    and all(isinstance(e, ast.Constant) for e in n.value.elts):
                vals = [e.value for e in n.value.elts]
                if nm != 'UNKNOWN':
                    versions.append((nm, vals[0], vals[1]))
            elif nm == 'DEFAULT' and isinstance(n.value, ast.Name):
                default = n.value.id
    if not versions or default is None:
        raise ExtractError('StaticPropVersion members not understood')
    pr = prop_segments(fns['_lmp_read_props'], sites['_lmp_read_props'], PROP_READER_FIRST)
    pw = prop_segments(fns['_lmp_write_props'], sites['_lmp_write_props'], PROP_WRITER_FIRST)
    for _, _, s in pr + pw:
        s.used = True
    wsrc = ast.unparse(fns['_lmp_write_props'])
    rsrc = ast.unparse(fns['_lmp_read_props'])
    for fsrc, nm in ((wsrc, 'writer'), (rsrc, 'reader')):
        import re
        if not re.search(r'if version\.is_lightmap:\n\s+vers_num = 7\n', fsrc):
            raise ExtractError(f'static props {nm}: `if version.is_lightmap: vers_num = 7` not found')
    size_check = 'version.size != real_size' in wsrc

    # every site must have been consumed
    for f, ss in sites.items():
        for i, s in enumerate(ss):
            if (f, i) in SPECIAL_SITES:
                s.used = True
            if not s.used:
                raise ExtractError(f'unpaired struct site #{i} in {f}: {s}')

    # `…s` fields at pack sites and their guards
    str_sites = []
    for f, ss in sites.items():
        for s in ss:
            if s.kind != 'pack':
                continue
            fmts = set()
            if s.fmt[0] == 'lit':
                fmts.add(s.fmt[1])
            elif s.fmt[0] == 'layout':
                fmts |= {layouts[l][s.fmt[1]] for l in layouts
                         if not (s.ctx == 'vitamin' and l != 'LUMP_LAYOUT_VITAMIN')
                         and not (s.ctx == 'not vitamin' and l == 'LUMP_LAYOUT_VITAMIN')}
            for fm in sorted(fmts):
                for n in str_fields(fm):
                    if s.how == 'struct.pack' and len(str_fields(fm)) == 1 and fm.lstrip('<').rstrip('s').isdigit():
                        g, what = find_guard(fns[f], s.node, n)
                    else:
                        g, what = find_record_guard(fns[f], s.node, n)
                    if (f, fm, n, g, what) not in str_sites:
                        str_sites.append((f, fm, n, g, what))

    # texture limit: `if len(tex) >= N: raise`
    tex_limit = None
    for n in ast.walk(fns['_lmp_write_textures']):
        if isinstance(n, ast.If) and isinstance(n.test, ast.Compare) and ast.unparse(n.test.left) == 'len(tex)' \
                and isinstance(n.test.ops[0], ast.GtE) and isinstance(n.test.comparators[0], ast.Constant) \
                and any(isinstance(b, ast.Raise) for b in n.body):
            tex_limit = n.test.comparators[0].value
    tex_read_limit = None
    for n in ast.walk(fns['_lmp_read_textures']):
        if isinstance(n, ast.Call) and ast.unparse(n.func) == 'tex_data.index' and len(n.args) == 3 \
                and isinstance(n.args[2], ast.BinOp) and isinstance(n.args[2].right, ast.Constant):
            tex_read_limit = n.args[2].right.value
    if tex_limit is None or tex_read_limit is None:
        raise ExtractError('texture name limit not found')

    # find_or_extend: does the candidate test require the whole slice to exist?
    bsrc = (repo / 'src/srctools/binformat.py').read_text(encoding='utf-8')
    btree = ast.parse(bsrc)
    foe = next((n for n in btree.body if isinstance(n, ast.FunctionDef) and n.name == 'find_or_extend'), None)
    foi = next((n for n in btree.body if isinstance(n, ast.FunctionDef) and n.name == 'find_or_insert'), None)
    if foe is None or foi is None:
        raise ExtractError('find_or_insert / find_or_extend not found')
    finder = next((n for n in foe.body if isinstance(n, ast.FunctionDef) and n.name == 'finder'), None)
    if finder is None:
        raise ExtractError('find_or_extend.finder not found')
    fsrc = ast.unparse(finder)
    if 'zip(items, itertools.islice(item_list, i, i + len(items)))' not in fsrc or 'item_list.extend(items)' not in fsrc:
        raise ExtractError('find_or_extend.finder: candidate test not recognised')
    # the `if` that accepts candidate `i` (its body returns i): does its test also require the slice to exist?
    bounded = False
    accept = [n for n in ast.walk(finder) if isinstance(n, ast.If)
              and any(isinstance(b, ast.Return) and ast.unparse(b.value) == 'i' for b in n.body)]
    if len(accept) != 1:
        raise ExtractError('find_or_extend.finder: the candidate acceptance test was not found')
    t = accept[0].test
    conj = t.values if isinstance(t, ast.BoolOp) and isinstance(t.op, ast.And) else [t]
    for c in conj:
        if isinstance(c, ast.Compare) and ast.unparse(c).replace(' ', '') in (
                'i+len(items)<=len(item_list)', 'len(item_list)>=i+len(items)'):
            bounded = True
    fisrc = ast.unparse(foi)
    if 'by_index[key]' not in fisrc or 'item_list.append(item)' not in fisrc:
        raise ExtractError('find_or_insert: body not recognised')

    # the DetailProp writer tests subclasses before their base class?  (isinstance order)
    dp = fns['_lmp_write_detail_props']
    order = []
    for n in ast.walk(dp):
        if isinstance(n, ast.If):
            t = n.test
            if isinstance(t, ast.Call) and ast.unparse(t.func) == 'isinstance' and ast.unparse(t.args[0]) == 'prop':
                order.append((n.lineno, ast.unparse(t.args[1])))
    order = [c for _, c in sorted(set(order))]
    bases = {}
    for n in tree.body:
        if isinstance(n, ast.ClassDef) and n.name.startswith('DetailProp'):
            bases[n.name] = [ast.unparse(b) for b in n.bases]

    # ParsedLump.__set__ / __set_name__ and the `_lmp_check_*` assignment hooks: the assigned value must be stored as it
    # is (a one-shot iterable is a legal value for the writers that iterate their argument once)
    pl = next((n for n in tree.body if isinstance(n, ast.ClassDef) and n.name == 'ParsedLump'), None)
    if pl is None:
        raise ExtractError('class ParsedLump not found')
    pset = next((n for n in pl.body if isinstance(n, ast.FunctionDef) and n.name == '__set__'), None)
    psetname = next((n for n in pl.body if isinstance(n, ast.FunctionDef) and n.name == '__set_name__'), None)
    if pset is None or psetname is None or len(pset.args.args) != 3:
        raise ExtractError('ParsedLump.__set__/__set_name__ not found')
    if "getattr(owner, '_lmp_check_' + func_suffix, None)" not in ast.unparse(psetname):
        raise ExtractError('ParsedLump.__set_name__: the check-hook lookup is not recognised')
    vname = pset.args.args[2].arg
    uses_ok, n_store = True, 0
    parents = {}
    for n in ast.walk(pset):
        for c in ast.iter_child_nodes(n):
            parents[id(c)] = n
    for n in ast.walk(pset):
        if isinstance(n, ast.Name) and n.id == vname:
            par = parents.get(id(n))
            if isinstance(par, ast.Call) and ast.unparse(par.func) == 'self._check' and n in par.args:
                continue
            if isinstance(par, ast.Assign) and par.value is n and len(par.targets) == 1 \
                    and ast.unparse(par.targets[0]) == 'instance._parsed_lumps[self.lump]':
                n_store += 1
                continue
            uses_ok = False
    set_untouched = uses_ok and n_store == 1
    CONSUMERS = {'list', 'tuple', 'sorted', 'len', 'iter', 'next', 'any', 'all', 'set', 'frozenset', 'sum', 'enumerate', 'zip',
                 'map', 'filter', 'min', 'max', 'reversed', 'dict'}
    hooks = []
    for fn_ in bsp.body:
        if isinstance(fn_, ast.FunctionDef) and fn_.name.startswith('_lmp_check_'):
            if len(fn_.args.args) < 2:
                raise ExtractError(f'{fn_.name}: unexpected signature')
            pn = fn_.args.args[1].arg
            consumes = False
            for n in ast.walk(fn_):
                if isinstance(n, (ast.For, ast.AsyncFor, ast.comprehension)) and any(
                        isinstance(m, ast.Name) and m.id == pn for m in ast.walk(n.iter)):
                    consumes = True
                if isinstance(n, ast.Call) and isinstance(n.func, ast.Name) and n.func.id in CONSUMERS and any(
                        isinstance(m, ast.Name) and m.id == pn for a_ in n.args for m in ast.walk(a_)):
                    consumes = True
                if isinstance(n, ast.Starred) and isinstance(n.value, ast.Name) and n.value.id == pn:
                    consumes = True
                if isinstance(n, ast.Subscript) and isinstance(n.value, ast.Name) and n.value.id == pn:
                    consumes = True
            hooks.append((fn_.name, consumes))

    L = []
    A = L.append
    A('import Srctools.Model.C11')
    A('/-! GENERATED by tools/gen_bspfmt.py from src/srctools/bsp.py and binformat.py — do not edit. -/')
    A('namespace Gen.Bspfmt')
    A('open C11')
    A('')
    A(f'def overlayFaceCount : Nat := {nface}')
    A(f'def texinfoIndType : List Char := {lean_chars(consts["TEXINFO_IND_TYPE"])}')
    A('')
    A('/-- layout tables: (table name, [(key, format string)]) -/')
    A('def layouts : List (String × List (String × List Char)) := [')
    A(',\n'.join('  (' + lean_string(n) + ', [' + ', '.join(f'({lean_string(k)}, {lean_chars(v)})' for k, v in t.items()) + '])'
                 for n, t in sorted(layouts.items())))
    A(']')
    A('def leafAreaOffset : List (String × Nat) := [' + ', '.join(f'({lean_string(n)}, {o})' for n, o in sorted(area_off.items())) + ']')
    A('')
    A('/-- One on-disk record: the reader\'s and the writer\'s format strings (concatenated pieces),')
    A('for one layout table ("*" = independent of the layout). -/')
    A('structure Pair where')
    A('  record : String')
    A('  layout : String')
    A('  reader : List (List Char)')
    A('  writer : List (List Char)')
    A('')
    A('def pairs : List Pair := [')
    A(',\n'.join(f'  ⟨{lean_string(r)}, {lean_string(l)}, [' + ', '.join(lean_chars(x) for x in rf) + '], [' +
                 ', '.join(lean_chars(x) for x in wf) + ']⟩' for r, l, rf, wf in pairs))
    A(']')
    A('')
    A('/-- overlays: reader record; writer head, face array per face count (f-string), tail pieces -/')
    A(f'def overlayReader : List Char := {lean_chars(ov_r.fmt[1])}')
    A(f'def overlayWriterHead : List Char := {lean_chars(ov_w[0].fmt[1])}')
    A('def overlayWriterFaces : List (Nat × List Char) := [' + ', '.join(f'({k}, {lean_chars(f)})' for k, f in face_fmts) + ']')
    A('def overlayWriterTail : List (List Char) := [' + ', '.join(lean_chars(s.fmt[1]) for s in ov_w[2:]) + ']')
    A('')
    A('/-- `StaticPropVersion` members (name, version, size), without UNKNOWN; DEFAULT alias. -/')
    A('def propVersions : List PropVersion := [' + ', '.join(f'⟨{lean_chars(n)}, {v}, {s}⟩' for n, v, s in versions) + ']')
    A(f'def propDefault : List Char := {lean_chars(default)}')
    A('/-- segments of one static-prop record in the reader / the writer: (condition, format) -/')
    for nm, segs in (('propReaderSegs', pr), ('propWriterSegs', pw)):
        A(f'def {nm} : List (PropCond × List Char) := [')
        A(',\n'.join(f'  ({c}, {lean_chars(f)})' for c, f, _ in segs))
        A(']')
    A(f'/-- the writer compares the size of the record it produced with `version.size` -/')
    A(f'def propWriterChecksSize : Bool := {"true" if size_check else "false"}')
    A('')
    A('/-- `…s` fields at pack sites: (function, format, field length, length guard at the call site, value) -/')
    A('def strSites : List (String × List Char × Nat × Bool × String) := [')
    A(',\n'.join(f'  ({lean_string(f)}, {lean_chars(fm)}, {n}, {"true" if g else "false"}, {lean_string(w)})' for f, fm, n, g, w in str_sites))
    A(']')
    A('')
    A(f'/-- `_lmp_write_textures` raises when `len(tex) >= textureWriteLimit`; the reader looks for the NUL within `textureReadLimit` bytes -/')
    A(f'def textureWriteLimit : Nat := {tex_limit}')
    A(f'def textureReadLimit : Nat := {tex_read_limit}')
    A('')
    A('/-- find_or_extend: the candidate test also requires `i + len(items) <= len(item_list)` -/')
    A(f'def findOrExtendBounded : Bool := {"true" if bounded else "false"}')
    A('')
    A('/-- order of the `isinstance(prop, …)` tests in `_lmp_write_detail_props`, and the class bases -/')
    A('def detailIsinstanceOrder : List String := [' + ', '.join(lean_string(c) for c in order) + ']')
    A('def detailBases : List (String × List String) := [' + ', '.join(
        f'({lean_string(c)}, [' + ', '.join(lean_string(b) for b in bs) + '])' for c, bs in sorted(bases.items())) + ']')
    A('')
    A('/-- `ParsedLump.__set__` only hands the assigned value to the check hook and stores it (never iterates it) -/')
    A(f'def setStoresValueUntouched : Bool := {"true" if set_untouched else "false"}')
    A('/-- the `_lmp_check_<view>` assignment hooks of BSP: (name, iterates / indexes / measures its argument) -/')
    A('def assignmentHooks : List (String × Bool) := [' + ', '.join(f'({lean_string(n)}, {"true" if c else "false"})' for n, c in hooks) + ']')
    A('')
    A('/-- every struct site found in the lump functions: (function, line, kind, format source) -/')
    A('def allSites : List (String × Nat × String × String) := [')
    rows = []
    for f, ss in sites.items():
        for s in ss:
            rows.append(f'  ({lean_string(f)}, {s.node.lineno}, {lean_string(s.kind)}, {lean_string(str(s.fmt[:2]))})')
    A(',\n'.join(rows))
    A(']')
    A('')
    A('end Gen.Bspfmt')
    return '\n'.join(L) + '\n'


if __name__ == '__main__':
    import pathlib, sys
    repo = pathlib.Path(sys.argv[1] if len(sys.argv) > 1 else '/repo')
    tree = ast.parse((repo / 'src/srctools/bsp.py').read_text())
    bsp = next(n for n in tree.body if isinstance(n, ast.ClassDef) and n.name == 'BSP')
    consts = {n.targets[0].id: n.value.value for n in tree.body if isinstance(n, ast.Assign)
              and isinstance(n.targets[0], ast.Name) and isinstance(n.value, ast.Constant)}
    folder = Folder(consts)
    for n in bsp.body:
        if isinstance(n, ast.FunctionDef) and (n.name.startswith('_lmp_') or n.name in LUMP_FUNCS_EXTRA):
            _, ss = function_sites(bsp, n.name, folder)
            for i, s in enumerate(ss):
                print(n.name, i, s.kind, s.fmt[:2], s.ctx, s.node.lineno)
