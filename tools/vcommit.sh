#!/bin/sh
# usage: tools/vcommit.sh "<message>" <path>...     (paths relative to /verif)
# Serialised commit of only the given paths to /verif (other agents' files are left alone).
set -e
MSG="$1"; shift
HERE="$(cd "$(dirname "$0")/.." && pwd)"
exec 9>/tmp/.verif_verif_git.lock
flock 9
cd "$HERE"
git add -- "$@"
git commit -q -m "$MSG" -- "$@" || echo "(nothing to commit)"
git log --oneline | head -1
