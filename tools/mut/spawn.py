#!/usr/bin/env python3
"""usage: spawn.py <PID> <n> [hint]  — create worktree /tmp/mut/<PID>_<n> and print the agent prompt."""
import sys, json, subprocess, pathlib, shutil, os
pid, n = sys.argv[1], sys.argv[2]
hint = sys.argv[3] if len(sys.argv) > 3 else ''
V = pathlib.Path(__file__).resolve().parent.parent.parent
props = {json.loads(l)['id']: json.loads(l) for l in (V / 'properties.jsonl').read_text().splitlines() if l.strip()}
p = props[pid]
wt = f'/tmp/mut/{pid}_{n}'
os.makedirs('/tmp/mut', exist_ok=True); os.makedirs('/tmp/shims', exist_ok=True)
for f in ('run_tests.sh', 'baseline_failures.txt'):
    shutil.copy(V / 'tools' / 'mut' / f, '/tmp/mut/' + f)
if not os.path.exists('/tmp/shims/importlib_resources'):
    shutil.copytree(V / 'harness' / 'shims' / 'importlib_resources', '/tmp/shims/importlib_resources')
if not os.path.exists(wt):
    subprocess.run(['git', '-C', '/repo', 'worktree', 'add', '-q', '--detach', wt, 'HEAD'], check=True)
os.makedirs(wt + '/_mut', exist_ok=True)
t = (V / 'tools' / 'mut' / 'PROMPT.md').read_text()
print(t.format(WT=wt, PID=pid, TITLE=p['title'], STATEMENT=p['statement'], QUANT=p['quantifier']['text'],
               ANCHORS=json.dumps(p['anchors'].get('mechanism', []) + p['anchors'].get('state', [])), HINT=hint))
