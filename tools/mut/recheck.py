#!/usr/bin/env python3
"""usage: recheck.py <seeded-name>...   re-run the committed check against kept mutants and record the
result in meta.json ('recheck': list of {verif_commit, exit, output, detected}); the first result stays."""
import sys, json, subprocess, pathlib
V = pathlib.Path(__file__).resolve().parent.parent.parent
for name in sys.argv[1:]:
    d = V / 'seeded' / name
    meta = json.loads((d / 'meta.json').read_text())
    pid = meta.get('breaks_property', name[:3])
    for prop in [pid] + [p for p in meta.get('also_check', []) if p != pid]:
        p = subprocess.run([str(V / 'tools/mut/try.sh'), prop, str(d / 'patch.diff')], stdout=subprocess.PIPE, stderr=subprocess.STDOUT, text=True)
        lines = [l for l in p.stdout.splitlines() if 'VIOLATION' in l or l.startswith('try.sh')]
        head = subprocess.run(['git', '-C', str(V), 'rev-parse', '--short', 'HEAD'], stdout=subprocess.PIPE, text=True).stdout.strip()
        rec = {'property_checked': prop, 'verif_commit': head, 'exit': p.returncode, 'output': lines,
               'detected': p.returncode == 1 and any('VIOLATION' in l for l in lines)}
        meta.setdefault('recheck', []).append(rec)
        if prop == pid:
            meta['detected_now'] = rec['detected']
        print(name, prop, rec['detected'], lines)
    (d / 'meta.json').write_text(json.dumps(meta, indent=1))
