#!/bin/sh
# usage: tools/mut/try.sh <PID> <patch.diff> [tier]
# Runs ./check PID from an isolated copy of the committed /verif (/tmp/vm, own .lake) against a scratch
# worktree of /repo HEAD with the patch applied (VERIF_REPO), so builders working in /verif and /repo are
# not disturbed. Prints the check's output; removes the scratch worktree afterwards.
PID="$1"; PATCH="$(readlink -f "$2")"; TIER="${3:-quick}"
V="$(cd "$(dirname "$0")/../.." && pwd)"
exec 8>/tmp/.verif_vm.lock; flock 8
HEAD=$(git -C "$V" rev-parse HEAD)
if [ ! -d /tmp/vm/.git ] && [ ! -f /tmp/vm/.git ]; then git -C "$V" worktree add -q --detach /tmp/vm "$HEAD" || exit 2; fi
git -C /tmp/vm clean -fdq -e lean/.lake -e replays; git -C /tmp/vm checkout -q -f --detach "$HEAD" || exit 2
mkdir -p /tmp/vm/lean/.lake
WT=/tmp/mut/try_$$
git -C /repo worktree add -q --detach "$WT" HEAD || exit 2
if ! git -C "$WT" apply "$PATCH"; then echo "PATCH DOES NOT APPLY to /repo HEAD"; git -C /repo worktree remove --force "$WT"; exit 3; fi
cd /tmp/vm
VERIF_REPO="$WT" timeout 3000 ./check "$PID" --tier "$TIER"; RC=$?
# restore Gen files of the copy to the unchanged tree
git -C /tmp/vm checkout -q -- lean/Srctools/Gen 2>/dev/null
git -C /repo worktree remove --force "$WT"
echo "try.sh: check exit code $RC"
exit $RC
