#!/bin/sh
# usage: tools/mut/try.sh <PID> <patch.diff> [tier]
# Runs ./check PID from an isolated copy of the committed /verif ($VM, own .lake) against a scratch
# worktree of /repo HEAD with the patch applied (VERIF_REPO), so builders working in /verif and /repo are
# not disturbed. Prints the check's output; removes the scratch worktree afterwards.
PID="$1"; PATCH="$(readlink -f "$2")"; TIER="${3:-quick}"
V="$(cd "$(dirname "$0")/../.." && pwd)"
VM="${VERIF_VM:-/tmp/vm}"
exec 8>"/tmp/.verif_$(basename $VM).lock"; flock 8
HEAD=$(git -C "$V" rev-parse HEAD)
if [ ! -d $VM/.git ] && [ ! -f $VM/.git ]; then git -C "$V" worktree add -q --detach $VM "$HEAD" || exit 2; fi
git -C $VM clean -fdq -e lean/.lake -e replays; git -C $VM checkout -q -f --detach "$HEAD" || exit 2
mkdir -p $VM/lean/.lake
WT=/tmp/mut/try_$(basename $VM)_$$
git -C /repo worktree add -q --detach "$WT" HEAD || exit 2
if ! git -C "$WT" apply "$PATCH"; then echo "PATCH DOES NOT APPLY to /repo HEAD"; git -C /repo worktree remove --force "$WT"; exit 3; fi
cd $VM
VERIF_REPO="$WT" timeout 3000 ./check "$PID" --tier "$TIER"; RC=$?
# restore Gen files of the copy to the unchanged tree
git -C $VM checkout -q -- lean/Srctools/Gen 2>/dev/null
git -C /repo worktree remove --force "$WT"
echo "try.sh: check exit code $RC"
exit $RC
