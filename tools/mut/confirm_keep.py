#!/usr/bin/env python3
"""usage: confirm_keep.py <PID> <n> <slug> [--no-tests]
Confirms a mutant delivered in /tmp/mut/<PID>_<n>/_mut in a FRESH scratch worktree of /repo HEAD:
demo passes on the original, patch applies, demo fails with it, repo tests still pass; then runs the
check against it (tools/mut/try.sh) and stores everything as /verif/seeded/<PID>-<slug>/."""
import sys, subprocess, json, pathlib, shutil, os
pid, n, slug = sys.argv[1:4]
run_tests = '--no-tests' not in sys.argv
V = pathlib.Path(__file__).resolve().parent.parent.parent
src = pathlib.Path(f'/tmp/mut/{pid}_{n}/_mut')
wt = f'/tmp/mut/confirm_{os.getpid()}'
env = dict(os.environ, PYTHONPATH=f'{wt}/src:/tmp/shims')
def sh(cmd, **kw):
    p = subprocess.run(cmd, stdout=subprocess.PIPE, stderr=subprocess.STDOUT, text=True, **kw)
    return p.returncode, p.stdout
res = {}
subprocess.run(['git', '-C', '/repo', 'worktree', 'add', '-q', '--detach', wt, 'HEAD'], check=True)
try:
    res['repo_head'] = sh(['git', '-C', '/repo', 'rev-parse', '--short', 'HEAD'])[1].strip()
    rc, out = sh(['/venv/bin/python', str(src / 'demo.py')], env=env, cwd=wt, timeout=900)
    res['demo_on_original'] = {'rc': rc, 'tail': out[-400:]}
    rc, out = sh(['git', '-C', wt, 'apply', '--3way', str(src / 'patch.diff')])
    if rc != 0:
        rc, out = sh(['git', '-C', wt, 'apply', str(src / 'patch.diff')])
    res['patch_applies'] = rc == 0
    if rc == 0:
        # store the patch as it applies to the current HEAD
        rebased = sh(['git', '-C', wt, 'diff', 'HEAD', '--', 'src'])[1]
        rc, out = sh(['/venv/bin/python', str(src / 'demo.py')], env=env, cwd=wt, timeout=900)
        res['demo_with_change'] = {'rc': rc, 'tail': out[-600:]}
        if run_tests:
            rc, out = sh(['/tmp/mut/run_tests.sh', wt], timeout=3000)
            res['tests_with_change'] = {'rc': rc, 'tail': out[-300:]}
finally:
    subprocess.run(['git', '-C', '/repo', 'worktree', 'remove', '--force', wt])
ok = res.get('patch_applies') and res['demo_on_original']['rc'] == 0 and res['demo_with_change']['rc'] != 0 and (not run_tests or res['tests_with_change']['rc'] == 0)
res['confirmed'] = bool(ok)
print(json.dumps(res, indent=1))
if not ok:
    sys.exit(1)
dst = V / 'seeded' / f'{pid}-{slug}'
dst.mkdir(parents=True, exist_ok=True)
(dst / 'patch.diff').write_text(rebased)
shutil.copy(src / 'demo.py', dst / 'demo.py')
meta = json.loads((src / 'meta.json').read_text())
# run the check against it
rc, out = sh([str(V / 'tools' / 'mut' / 'try.sh'), pid, str(dst / 'patch.diff')], timeout=3200)
lines = [l for l in out.splitlines() if 'VIOLATION' in l or 'KNOWN-FINDING' in l or l.startswith('try.sh')]
meta.update({'breaks_property': pid, 'confirmation': res, 'confirmed_by': 'tools/mut/confirm_keep.py: fresh worktree of /repo HEAD; demo.py exit 0 without / non-zero with the patch; repo tests (source tree) unchanged vs baseline',
             'check_cmd': f'tools/mut/try.sh {pid} seeded/{pid}-{slug}/patch.diff', 'check_exit': rc, 'check_output': lines,
             'detected': rc == 1 and any('VIOLATION' in l for l in lines)})
(dst / 'meta.json').write_text(json.dumps(meta, indent=1))
print('kept in', dst, 'detected:', meta['detected'], lines)
