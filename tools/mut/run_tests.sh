#!/bin/sh
# usage: /tmp/mut/run_tests.sh <worktree>   — runs the repo's test-suite against THAT worktree's src
# and prints test failures that are not in the baseline (baseline failures are Cython-related: no Cython here).
WT="$(readlink -f "$1")"
cd "$WT" || exit 2
PYTHONPATH="$WT/src:/tmp/shims" timeout 1800 /venv/bin/python -m pytest tests -q -p no:cacheprovider -n 4 2>&1 | grep -E "^(FAILED|ERROR)" | sed 's/ - .*//' | sort > /tmp/mut/.fail.$$ 
NEW=$(comm -23 /tmp/mut/.fail.$$ /tmp/mut/baseline_failures.txt)
rm -f /tmp/mut/.fail.$$
if [ -z "$NEW" ]; then echo "TESTS OK (no failures beyond the baseline)"; exit 0; else echo "NEW TEST FAILURES:"; echo "$NEW"; exit 1; fi
