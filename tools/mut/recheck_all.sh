#!/bin/sh
# usage: tools/mut/recheck_all.sh [nparallel]  — re-run the committed checks against EVERY seeded mutant,
# spread over scratch copies /tmp/vm, /tmp/vm1.. (each with its own build directory); results are
# appended to each meta.json ('recheck') by tools/mut/recheck.py.
N="${1:-4}"
HERE="$(cd "$(dirname "$0")/../.." && pwd)"
cd "$HERE"
ls seeded | awk -v n="$N" '{print (NR % n) " " $0}' | sort -n > /tmp/.recheck_plan
for i in $(seq 0 $((N-1))); do
  VM=/tmp/vm; [ "$i" -gt 0 ] && VM=/tmp/vm$i
  ( for name in $(awk -v i="$i" '$1==i {print $2}' /tmp/.recheck_plan); do VERIF_VM=$VM python3 tools/mut/recheck.py "$name"; done > /tmp/.recheck_$i.log 2>&1 ) &
done
wait
cat /tmp/.recheck_*.log | grep -c " True "
cat /tmp/.recheck_*.log | grep -v " True " | cut -c1-200
