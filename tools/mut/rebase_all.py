#!/usr/bin/env python3
"""Re-validate every seeded/<id>/patch.diff against /repo HEAD (fix commits keep landing): apply
(plain, then --3way) in a scratch worktree; rewrite patch.diff when it needed a 3-way merge; record
'applies_to_repo_head' (sha) or 'stale_since' in meta.json. Does not run demos or checks."""
import subprocess, json, pathlib, os
V = pathlib.Path(__file__).resolve().parent.parent.parent
head = subprocess.run(['git', '-C', '/repo', 'rev-parse', '--short', 'HEAD'], stdout=subprocess.PIPE, text=True).stdout.strip()
wt = f'/tmp/mut/rebase_{os.getpid()}'
subprocess.run(['git', '-C', '/repo', 'worktree', 'add', '-q', '--detach', wt, 'HEAD'], check=True)
ok = stale = rewritten = 0
try:
    for d in sorted((V / 'seeded').iterdir()):
        p = d / 'patch.diff'
        if not p.exists():
            continue
        meta = json.loads((d / 'meta.json').read_text())
        subprocess.run(['git', '-C', wt, 'checkout', '-q', '--', '.'])
        r = subprocess.run(['git', '-C', wt, 'apply', str(p)], stderr=subprocess.PIPE, text=True)
        if r.returncode != 0:
            r = subprocess.run(['git', '-C', wt, 'apply', '--3way', str(p)], stderr=subprocess.PIPE, text=True)
            if r.returncode == 0 and '<<<<<<<' not in subprocess.run(['git', '-C', wt, 'diff'], stdout=subprocess.PIPE, text=True).stdout:
                new = subprocess.run(['git', '-C', wt, 'diff', 'HEAD', '--', 'src'], stdout=subprocess.PIPE, text=True).stdout
                p.write_text(new); rewritten += 1
                subprocess.run(['git', '-C', wt, 'reset', '-q', '--hard', 'HEAD'])
            else:
                subprocess.run(['git', '-C', wt, 'reset', '-q', '--hard', 'HEAD'])
                meta['stale_since'] = head
                meta['stale_note'] = 'patch no longer applies to /repo HEAD (a later fix: commit touched the same lines); it applied to ' + str(meta.get('confirmation', {}).get('repo_head'))
                (d / 'meta.json').write_text(json.dumps(meta, indent=1)); stale += 1
                print('STALE', d.name, r.stderr.strip()[:120])
                continue
        meta['applies_to_repo_head'] = head
        meta.pop('stale_since', None); meta.pop('stale_note', None)
        (d / 'meta.json').write_text(json.dumps(meta, indent=1)); ok += 1
finally:
    subprocess.run(['git', '-C', '/repo', 'worktree', 'remove', '--force', wt])
print(f'{ok} apply to {head} ({rewritten} rewritten after 3-way), {stale} stale')
