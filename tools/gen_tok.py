"""Gen.Tok: tables of srctools/tokenizer.py (ESCAPES, regex exclusions and which regex
escape_text uses for which mode, _OPERATORS, BARE_DISALLOWED, Token values)."""
import ast, re
from extract import ExtractError, lean_char, lean_str_chars

def _assign_value(tree, name):
    for n in tree.body:
        if isinstance(n, ast.Assign) and any(isinstance(t, ast.Name) and t.id == name for t in n.targets):
            return n.value
        if isinstance(n, ast.AnnAssign) and isinstance(n.target, ast.Name) and n.target.id == name:
            return n.value
    raise ExtractError(f'no top-level assignment to {name}')

def _exclusion(tree, name):
    """The string literal X in `re.compile('|'.join(re.escape(c) for c in ESCAPES_INV if c not in X))`;
    the whole expression must have exactly this shape."""
    val = _assign_value(tree, name)
    found = []
    for n in ast.walk(val):
        if isinstance(n, ast.Compare) and len(n.ops) == 1 and isinstance(n.ops[0], ast.NotIn) \
                and isinstance(n.comparators[0], ast.Constant) and isinstance(n.comparators[0].value, str):
            found.append(n.comparators[0].value)
    if len(found) != 1:
        raise ExtractError(f'{name}: unrecognised construction: {ast.unparse(val)[:120]}')
    want = ast.parse("re.compile('|'.join(re.escape(c) for c in ESCAPES_INV if c not in %r))" % found[0], mode='eval').body
    if ast.dump(val) != ast.dump(want):
        raise ExtractError(f'{name}: unrecognised construction: {ast.unparse(val)[:160]}')
    return found[0]

def generate(repo):
    src = (repo / 'src/srctools/tokenizer.py').read_text(encoding='utf-8')
    tree = ast.parse(src)
    # ESCAPES: a literal dict char -> char (python dict semantics: later duplicate keys win)
    esc = ast.literal_eval(_assign_value(tree, 'ESCAPES'))
    if not isinstance(esc, dict) or not all(isinstance(k, str) and isinstance(v, str) and len(k) == 1 and len(v) == 1 for k, v in esc.items()):
        raise ExtractError('ESCAPES is not a dict of single characters')
    inv = ast.unparse(_assign_value(tree, 'ESCAPES_INV'))
    if inv.replace(' ', '') != "{char:f'\\\\{sym}'forsym,charinESCAPES.items()}":
        raise ExtractError('ESCAPES_INV: unrecognised construction: ' + inv)
    excl = {'ESCAPE_RE': _exclusion(tree, 'ESCAPE_RE'), 'ESCAPE_MULTILINE_RE': _exclusion(tree, 'ESCAPE_MULTILINE_RE')}
    # escape_text: `return (A if multiline else B).sub(_escape_matcher, text)`
    fn = next((n for n in tree.body if isinstance(n, ast.FunctionDef) and n.name == 'escape_text'), None)
    if fn is None:
        raise ExtractError('escape_text not found')
    body = [s for s in fn.body if not (isinstance(s, ast.Expr) and isinstance(s.value, ast.Constant))]
    ok = (len(body) == 1 and isinstance(body[0], ast.Return) and isinstance(body[0].value, ast.Call)
          and isinstance(body[0].value.func, ast.Attribute) and body[0].value.func.attr == 'sub'
          and isinstance(body[0].value.func.value, ast.IfExp))
    if not ok:
        raise ExtractError('escape_text: unrecognised body: ' + ast.unparse(fn)[-200:])
    ife = body[0].value.func.value
    args = [ast.unparse(a) for a in body[0].value.args]
    if ast.unparse(ife.test) != 'multiline' or args != ['_escape_matcher', 'text']:
        raise ExtractError('escape_text: unrecognised call')
    ml_name, sl_name = ast.unparse(ife.body), ast.unparse(ife.orelse)
    if ml_name not in excl or sl_name not in excl:
        raise ExtractError('escape_text: unknown regex names')
    matcher = next((n for n in tree.body if isinstance(n, ast.FunctionDef) and n.name == '_escape_matcher'), None)
    if matcher is None or 'return ESCAPES_INV[match.group()]' not in ast.unparse(matcher):
        raise ExtractError('_escape_matcher: unrecognised')
    # _OPERATORS : char -> Token.X ; Token enum values
    tokcls = next(n for n in tree.body if isinstance(n, ast.ClassDef) and n.name == 'Token')
    tokvals = {}
    for n in tokcls.body:
        if isinstance(n, ast.Assign) and isinstance(n.value, ast.Constant) and isinstance(n.value.value, int):
            tokvals[n.targets[0].id] = n.value.value
    ops = []
    opd = _assign_value(tree, '_OPERATORS')
    if not isinstance(opd, ast.Dict):
        raise ExtractError('_OPERATORS not a dict literal')
    seen = {}
    for k, v in zip(opd.keys, opd.values):
        if not (isinstance(k, ast.Constant) and isinstance(k.value, str) and len(k.value) == 1
                and isinstance(v, ast.Attribute) and isinstance(v.value, ast.Name) and v.value.id == 'Token'):
            raise ExtractError('_OPERATORS: unrecognised entry')
        seen[k.value] = tokvals[v.attr]
    ops = list(seen.items())
    bare = _assign_value(tree, 'BARE_DISALLOWED')
    if not (isinstance(bare, ast.Call) and ast.unparse(bare.func) == 'frozenset' and len(bare.args) == 1
            and isinstance(bare.args[0], ast.Constant) and isinstance(bare.args[0].value, str)):
        raise ExtractError('BARE_DISALLOWED: unrecognised')
    bare_s = ''.join(sorted(set(bare.args[0].value)))
    # the .pyx twin (cannot be built here): tie its literal tables statically.
    pyx = (repo / 'src/srctools/_tokenizer.pyx').read_text(encoding='utf-8')
    m = re.search(r"^DEF BARE_DISALLOWED = (b'(?:[^'\\]|\\.)*')", pyx, re.M)
    pyx_bare = ''.join(sorted(set(ast.literal_eval(m.group(1)).decode('latin-1')))) if m else None
    def blit(x):
        return ast.literal_eval(x).decode('latin-1')
    BL = r"""(b'(?:[^'\\]|\\.)'|b"(?:[^"\\]|\\.)")"""
    pyx_tables = None
    try:
        # decoder chain:  [el]if escape_char == b'X':\n next_char = b'Y'
        dec = [(blit(a), blit(b)) for a, b in re.findall(r"if escape_char == " + BL + r":\s*\n\s*next_char = " + BL, pyx)]
        mi = re.search(r"elif escape_char in \(([^)]*)\):\s*\n(?:\s*#.*\n)*\s*next_char = escape_char", pyx)
        ident = [blit(x) for x in re.findall(BL, mi.group(1))] if mi else []
        dec += [(c, c) for c in ident]
        # encoder chain:  [el]if letter == b'Y':\n j = _write_escape(out_buff, j, b'X')
        enc = [(blit(b), blit(a)) for a, b in re.findall(r"if letter == " + BL + r":\s*\n\s*j = _write_escape\(out_buff, j, " + BL + r"\)", pyx)]
        mlf = re.search(r"if letter == " + BL + r" and not multiline:\s*\n\s*j = _write_escape\(out_buff, j, " + BL + r"\)", pyx)
        if dec and enc and mlf and blit(mlf.group(1)) == '\n':
            enc_single = enc + [(blit(mlf.group(2)), '\n')]
            produced_single = {c for _, c in enc_single}
            produced_multi = {c for _, c in enc}
            # every produced pair must be decodable by the same symbol, else the table view is meaningless
            if all((sym, c) in dec for sym, c in enc_single):
                pyx_tables = {
                    'escapes': dec,
                    'exclSingle': ''.join(c for _, c in dec if c not in produced_single),
                    'exclMulti': ''.join(c for _, c in dec if c not in produced_multi),
                }
    except Exception:
        pyx_tables = None

    L = []
    L.append('import Srctools.Model.Tok')
    L.append('/-! GENERATED by tools/gen_tok.py from src/srctools/tokenizer.py — do not edit. -/')
    L.append('namespace Gen.Tok')
    L.append('')
    L.append('def tables : Tok.Tables where')
    L.append('  escapes := [' + ', '.join(f'({lean_char(k)}, {lean_char(v)})' for k, v in esc.items()) + ']')
    L.append('  exclSingle := ' + lean_str_chars(excl[sl_name]))
    L.append('  exclMulti := ' + lean_str_chars(excl[ml_name]))
    L.append('  operators := [' + ', '.join(f'({lean_char(k)}, {v})' for k, v in ops) + ']')
    L.append('  bareDisallowed := ' + lean_str_chars(bare_s))
    L.append('')
    L.append('/-- `Token` enum values (name order as in the source). -/')
    L.append('def tokenValues : List (String × Nat) := [' + ', '.join(f'("{k}", {v})' for k, v in tokvals.items()) + ']')
    L.append('')
    L.append('/-- BARE_DISALLOWED of the Cython twin (sorted), or none if not found. -/')
    L.append('def pyxBareDisallowed : Option (List Char) := ' + ('none' if pyx_bare is None else 'some ' + lean_str_chars(pyx_bare)))
    L.append('')
    L.append('/-- Escape tables read off the if/elif chains of `_tokenizer.pyx` (`_handle_string` decoder,')
    L.append('`escape_text` encoder); `exclX` = decodable characters the encoder does not produce in that mode.')
    L.append('none when the chains are no longer recognised. Operators/bare set are copied from the .py tables. -/')
    if pyx_tables is None:
        L.append('def pyxTables : Option Tok.Tables := none')
    else:
        L.append('def pyxTables : Option Tok.Tables := some {')
        L.append('  escapes := [' + ', '.join(f'({lean_char(k)}, {lean_char(v)})' for k, v in pyx_tables['escapes']) + ']')
        L.append('  exclSingle := ' + lean_str_chars(pyx_tables['exclSingle']))
        L.append('  exclMulti := ' + lean_str_chars(pyx_tables['exclMulti']))
        L.append('  operators := tables.operators')
        L.append('  bareDisallowed := ' + (lean_str_chars(pyx_bare) if pyx_bare is not None else '[]') + ' }')
    L.append('')
    L.append('end Gen.Tok')
    return '\n'.join(L) + '\n'
