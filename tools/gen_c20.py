"""Gen.C20: literal tables of the secondary-format writers/readers.

cmdseq.py : SEQ_HEADER, ST_COMMAND / ST_COMMAND_PRE_V2 format strings, SpecialCommand values and
            SPECIAL_NAMES, the literal widths given to pad_string in `write` and to file.read in
            `parse`, the version literal written by `write` and compared by `parse`.
choreo.py : struct formats / magic / versions of the scenes.image reader and writer, the sort key,
            the quantisation constants (Tag / AbsoluteTag / Curve / FlexAnimTrack / Entry).
vmt.py    : the characters `_quote_if_required` refuses as the first character of a bare string.
sndscript.py : which strings `Sound.export` passes through escape_text inside quotes.
Only `ast` is used; the code is never imported.
"""
import ast, struct
from extract import ExtractError, lean_char, lean_str_chars, lean_string


def _top(tree, name):
    for n in tree.body:
        if isinstance(n, ast.Assign) and any(isinstance(t, ast.Name) and t.id == name for t in n.targets):
            return n.value
        if isinstance(n, ast.AnnAssign) and isinstance(n.target, ast.Name) and n.target.id == name:
            return n.value
    raise ExtractError(f'no top-level assignment to {name}')


def _func(tree, name, cls=None):
    body = tree.body
    if cls is not None:
        c = next((n for n in tree.body if isinstance(n, ast.ClassDef) and n.name == cls), None)
        if c is None:
            raise ExtractError(f'class {cls} not found')
        body = c.body
    f = next((n for n in body if isinstance(n, ast.FunctionDef) and n.name == name), None)
    if f is None:
        raise ExtractError(f'function {cls + "." if cls else ""}{name} not found')
    return f


def _struct_fmt(node, what):
    if isinstance(node, ast.Call) and ast.unparse(node.func) in ('Struct', 'struct.Struct') and len(node.args) == 1 \
            and isinstance(node.args[0], ast.Constant) and isinstance(node.args[0].value, str):
        return node.args[0].value
    raise ExtractError(f'{what}: not Struct("<literal>")')


def _bytes(bs):
    return '[' + ', '.join(str(b) for b in bs) + ']'


def _nats(ns):
    return '[' + ', '.join(str(n) for n in ns) + ']'


def _strs(ss):
    return '[' + ', '.join(lean_string(s) for s in ss) + ']'


def _calls(fn, name):
    """All calls `name(...)` / `x.name(...)` inside fn, in source order."""
    out = []
    for n in ast.walk(fn):
        if isinstance(n, ast.Call):
            f = n.func
            if (isinstance(f, ast.Name) and f.id == name) or (isinstance(f, ast.Attribute) and f.attr == name):
                out.append(n)
    out.sort(key=lambda n: (n.lineno, n.col_offset))
    return out


def _cmdseq(repo):
    tree = ast.parse((repo / 'src/srctools/cmdseq.py').read_text(encoding='utf-8'))
    header = ast.literal_eval(_top(tree, 'SEQ_HEADER'))
    if not isinstance(header, bytes):
        raise ExtractError('SEQ_HEADER is not a bytes literal')
    fmt = _struct_fmt(_top(tree, 'ST_COMMAND'), 'ST_COMMAND')
    fmt_pre = _struct_fmt(_top(tree, 'ST_COMMAND_PRE_V2'), 'ST_COMMAND_PRE_V2')
    enum = next((n for n in tree.body if isinstance(n, ast.ClassDef) and n.name == 'SpecialCommand'), None)
    if enum is None:
        raise ExtractError('SpecialCommand not found')
    vals = {}
    for n in enum.body:
        if isinstance(n, ast.Assign) and len(n.targets) == 1 and isinstance(n.targets[0], ast.Name) \
                and isinstance(n.value, ast.Constant) and isinstance(n.value.value, int):
            vals[n.targets[0].id] = n.value.value
    names_node = _top(tree, 'SPECIAL_NAMES')
    if not isinstance(names_node, ast.Dict):
        raise ExtractError('SPECIAL_NAMES is not a dict literal')
    specials = []
    for k, v in zip(names_node.keys, names_node.values):
        if not (isinstance(k, ast.Attribute) and ast.unparse(k.value) == 'SpecialCommand' and k.attr in vals
                and isinstance(v, ast.Constant) and isinstance(v.value, str)):
            raise ExtractError('SPECIAL_NAMES: unrecognised entry ' + ast.unparse(k))
        specials.append((vals[k.attr], v.value))
    if sorted(c for c, _ in specials) != sorted(vals.values()):
        raise ExtractError('SPECIAL_NAMES does not cover SpecialCommand')
    wr = _func(tree, 'write')
    widths_w = []
    for c in _calls(wr, 'pad_string'):
        if len(c.args) != 2 or not isinstance(c.args[1], ast.Constant):
            raise ExtractError('write: pad_string with a non-literal width')
        widths_w.append((ast.unparse(c.args[0]), c.args[1].value))
    ver_w = None
    for c in _calls(wr, 'pack'):
        if len(c.args) == 2 and isinstance(c.args[0], ast.Constant) and c.args[0].value == 'f' \
                and isinstance(c.args[1], ast.Constant) and isinstance(c.args[1].value, float):
            ver_w = c.args[1].value
    if ver_w is None:
        raise ExtractError("write: pack('f', <literal>) not found")
    ps = _func(tree, 'parse')
    reads = [c.args[0].value for c in _calls(ps, 'read')
             if len(c.args) == 1 and isinstance(c.args[0], ast.Constant) and isinstance(c.args[0].value, int)]
    cmp_ = [n for n in ast.walk(ps) if isinstance(n, ast.Compare) and ast.unparse(n.left) == 'version']
    if len(cmp_) != 1 or len(cmp_[0].ops) != 1 or not isinstance(cmp_[0].comparators[0], ast.Constant):
        raise ExtractError('parse: version comparison not recognised')
    cmp_op = type(cmp_[0].ops[0]).__name__
    cmp_val = cmp_[0].comparators[0].value
    # threshold on float32 bit patterns: the least positive float32 that is NOT `version <op> cmp_val`
    if cmp_op != 'Lt' or not isinstance(cmp_val, float) or cmp_val <= 0:
        raise ExtractError(f'parse: version comparison is `{ast.unparse(cmp_[0])}`')
    lo, hi = 0, 0x7F800000
    while lo < hi:
        mid = (lo + hi) // 2
        if struct.unpack('<f', struct.pack('<I', mid))[0] < cmp_val:
            lo = mid + 1
        else:
            hi = mid
    ver_bits = struct.unpack('<I', struct.pack('<f', ver_w))[0]
    sp = ', '.join(f'({c}, {_bytes(n.encode("ascii"))})' for c, n in specials)
    name_w = [w for a, w in widths_w if a == 'name']
    field_w = [w for a, w in widths_w if a != 'name']
    return f"""def cmdTables : C20.CmdTables where
  header := {_bytes(header)}
  versionBits := {ver_bits}
  specials := [{sp}]
  nameWidth := {name_w[0] if name_w else 0}
  fieldWidth := {field_w[0] if field_w else 0}

/-- ST_COMMAND / ST_COMMAND_PRE_V2 format strings. -/
def cmdFmt : String := {lean_string(fmt)}
def cmdFmtPre : String := {lean_string(fmt_pre)}
/-- literal widths given to pad_string in `write` (argument, width), in source order. -/
def cmdPadWidths : List (String × Nat) := [{', '.join(f'({lean_string(a)}, {w})' for a, w in widths_w)}]
/-- literal sizes given to file.read in `parse`. -/
def cmdReadSizes : List Nat := {_nats(reads)}
/-- least positive float32 bit pattern for which `version < {cmp_val}` is false. -/
def cmdPreV2Threshold : Nat := {lo}
"""


def _choreo(repo):
    tree = ast.parse((repo / 'src/srctools/choreo.py').read_text(encoding='utf-8'))
    ps = _func(tree, 'parse_scenes_image')
    rd = []
    for c in _calls(ps, 'struct_read'):
        a = c.args[0]
        if isinstance(a, ast.Constant):
            rd.append(a.value)
        elif isinstance(a, ast.JoinedStr):
            rd.append(''.join(v.value if isinstance(v, ast.Constant) else '{}' for v in a.values))
        else:
            raise ExtractError('parse_scenes_image: struct_read with an unrecognised format')
    magic_r = [n.comparators[0].value for n in ast.walk(ps) if isinstance(n, ast.Compare)
               and ast.unparse(n.left) == 'magic' and isinstance(n.comparators[0], ast.Constant)]
    vers = [ast.literal_eval(n.comparators[0]) for n in ast.walk(ps) if isinstance(n, ast.Compare)
            and ast.unparse(n.left) == 'version' and isinstance(n.ops[0], ast.NotIn)]
    if len(magic_r) != 1 or len(vers) != 1:
        raise ExtractError('parse_scenes_image: magic / version checks not recognised')
    sv = _func(tree, 'save_scenes_image_sync')
    wr = []
    for c in _calls(sv, 'pack'):
        a = c.args[0]
        if not (isinstance(a, ast.Constant) and isinstance(a.value, str)):
            raise ExtractError('save_scenes_image_sync: struct.pack with a non-literal format')
        wr.append(a.value)
    df = []
    for c in _calls(sv, 'defer'):
        a = c.args[1]
        if isinstance(a, ast.Constant):
            df.append(a.value)
        elif isinstance(a, ast.JoinedStr):
            df.append(''.join(v.value if isinstance(v, ast.Constant) else '{}' for v in a.values))
        else:
            raise ExtractError('save_scenes_image_sync: defer with an unrecognised format')
    sorts = [c for c in _calls(sv, 'sort')]
    if len(sorts) != 1 or len(sorts[0].keywords) != 1 or sorts[0].keywords[0].arg != 'key':
        raise ExtractError('save_scenes_image_sync: sort call not recognised')
    sort_key = ast.unparse(sorts[0].keywords[0].value).replace(' ', '')
    magic_w = [c.args[1].value for c in _calls(sv, 'pack') if len(c.args) > 1 and isinstance(c.args[1], ast.Constant)
               and isinstance(c.args[1].value, bytes)]
    # quantisation constants
    def cls_const(cls, name):
        c = next((n for n in tree.body if isinstance(n, ast.ClassDef) and n.name == cls), None)
        if c is None:
            raise ExtractError(f'class {cls} not found')
        for n in c.body:
            if isinstance(n, ast.AnnAssign) and isinstance(n.target, ast.Name) and n.target.id == name and n.value is not None:
                return ast.literal_eval(n.value) if not isinstance(n.value, ast.Call) else _struct_fmt(n.value, f'{cls}.{name}')
        raise ExtractError(f'{cls}.{name} not found')
    tag = (cls_const('Tag', '_FACTOR'), cls_const('Tag', '_MAX'), cls_const('Tag', '_FMT'))
    atag = (cls_const('AbsoluteTag', '_FACTOR'), cls_const('AbsoluteTag', '_MAX'), cls_const('AbsoluteTag', '_FMT'))
    for f, m, _ in (tag, atag):
        if float(f) != int(f) or not isinstance(m, int):
            raise ExtractError('tag factors are not integral')
    # the inline expression min(255, max(0, round(x.value * 255.0))) in Curve / FlexAnimTrack
    inline = set()
    for cls, fn in (('Curve', 'export_binary'), ('FlexAnimTrack', 'export_binary')):
        f = _func(tree, fn, cls)
        for c in _calls(f, 'min'):
            inline.add(ast.unparse(c).replace(' ', ''))
    reads = set()
    for cls, fn in (('Curve', 'parse_binary'), ('FlexAnimTrack', 'parse_binary')):
        f = _func(tree, fn, cls)
        for n in ast.walk(f):
            if isinstance(n, ast.BinOp) and isinstance(n.op, ast.Div) and ast.unparse(n.left) == 'value':
                reads.add(ast.unparse(n).replace(' ', ''))
    fs = _func(tree, 'from_scene', 'Entry')
    ms = sorted({ast.unparse(c).replace(' ', '') for c in _calls(fs, 'round')})
    snd = sorted({ast.unparse(k.value).replace(' ', '') for c in ast.walk(fs) if isinstance(c, ast.Call) for k in c.keywords if k.arg == 'sounds'})
    return f"""/-- struct formats read by parse_scenes_image, in source order. -/
def imgReadFmts : List String := {_strs(rd)}
/-- struct.pack formats of save_scenes_image_sync, in source order. -/
def imgWriteFmts : List String := {_strs(wr)}
/-- deferred slots of save_scenes_image_sync, in source order. -/
def imgDeferFmts : List String := {_strs(df)}
def imgMagicRead : C20.Bytes := {_bytes(magic_r[0])}
def imgMagicWrite : C20.Bytes := {_bytes(magic_w[0]) if magic_w else '[]'}
def imgVersions : List Nat := {_nats(list(vers[0]))}
def imgSortKey : String := {lean_string(sort_key)}
/-- (factor, max code, struct format) of Tag and AbsoluteTag. -/
def tagQuant : Nat × Nat × String := ({int(tag[0])}, {tag[1]}, {lean_string(tag[2])})
def absTagQuant : Nat × Nat × String := ({int(atag[0])}, {atag[1]}, {lean_string(atag[2])})
/-- the inline quantisation expressions of Curve / FlexAnimTrack writers and readers. -/
def sampleQuantWrite : List String := {_strs(sorted(inline))}
def sampleQuantRead : List String := {_strs(sorted(reads))}
/-- Entry.from_scene: duration quantisation and the sound list. -/
def entryMs : List String := {_strs(ms)}
def entrySounds : List String := {_strs(snd)}
"""


def _bvcd(repo):
    tree = ast.parse((repo / 'src/srctools/choreo.py').read_text(encoding='utf-8'))

    def enum_vals(name):
        c = next((n for n in tree.body if isinstance(n, ast.ClassDef) and n.name == name), None)
        if c is None:
            raise ExtractError(f'enum {name} not found')
        out = {}
        for n in c.body:
            if isinstance(n, ast.Assign) and len(n.targets) == 1 and isinstance(n.targets[0], ast.Name):
                try:
                    v = eval(compile(ast.Expression(n.value), '<enum>', 'eval'), {'__builtins__': {}})
                except Exception:
                    raise ExtractError(f'{name}.{n.targets[0].id}: value is not a constant expression')
                if isinstance(v, int):
                    out[n.targets[0].id] = v
        return out
    et = enum_vals('EventType')
    ct = enum_vals('CaptionType')
    ef = enum_vals('EventFlags')
    ip = enum_vals('Interpolation')
    ver = ast.literal_eval(_top(tree, 'BINARY_VERSION'))
    for k in ('Gesture', 'Loop', 'Speak'):
        if k not in et:
            raise ExtractError(f'EventType.{k} missing')
    enums = [('EventType.Gesture', et['Gesture']), ('EventType.Loop', et['Loop']), ('EventType.Speak', et['Speak']),
             ('EventType.max', max(et.values())), ('EventType.count', len(et)), ('CaptionType.Disabled', ct.get('Disabled', -1)),
             ('CaptionType.max', max(ct.values())), ('EventFlags.end', 2 * max(ef.values())),
             ('Interpolation.max', max(ip.values())), ('BINARY_VERSION', ver)]

    def fmts(cls, fn):
        f = _func(tree, fn, cls)
        out = []
        for n in ast.walk(f):
            if isinstance(n, ast.Call):
                fu = n.func
                nm = fu.attr if isinstance(fu, ast.Attribute) else (fu.id if isinstance(fu, ast.Name) else '')
                if nm in ('pack', 'struct_read') and n.args:
                    a = n.args[0]
                    if isinstance(a, ast.Constant) and isinstance(a.value, str):
                        out.append((n.lineno, n.col_offset, a.value))
                    else:
                        out.append((n.lineno, n.col_offset, '@' + ast.unparse(a)))
                elif nm == 'write' and n.args and isinstance(n.args[0], ast.Constant) and isinstance(n.args[0].value, bytes):
                    out.append((n.lineno, n.col_offset, 'bytes:' + n.args[0].value.hex()))
                elif nm == 'read' and n.args and isinstance(n.args[0], ast.Constant):
                    out.append((n.lineno, n.col_offset, 'read:%d' % n.args[0].value))
        return [x[2] for x in sorted(out)]
    table = []
    for cls, fn in (('Tag', 'export_binary'), ('Tag', 'parse_binary'), ('Curve', 'export_binary'), ('Curve', 'parse_binary'),
                    ('FlexAnimTrack', 'export_binary'), ('FlexAnimTrack', 'parse_binary'),
                    ('Event', 'export_binary'), ('Event', 'parse_binary'), ('Channel', 'export_binary'),
                    ('Channel', 'parse_binary'), ('Actor', 'export_binary'), ('Actor', 'parse_binary'),
                    ('Scene', 'export_binary'), ('Scene', 'parse_binary')):
        table.append((f'{cls}.{fn}', fmts(cls, fn)))
    curve_fmt = None
    c = next(n for n in tree.body if isinstance(n, ast.ClassDef) and n.name == 'Curve')
    for n in c.body:
        if isinstance(n, ast.AnnAssign) and isinstance(n.target, ast.Name) and n.target.id == 'BIN_FMT':
            curve_fmt = _struct_fmt(n.value, 'Curve.BIN_FMT')
    if curve_fmt is None:
        raise ExtractError('Curve.BIN_FMT not found')
    return f"""/-- enum values and constants the BVCD model hard-codes. -/
def bvcdEnums : List (String × Nat) := [{', '.join(f'({lean_string(k)}, {v})' for k, v in enums)}]
def bvcdCurveFmt : String := {lean_string(curve_fmt)}
/-- struct formats / literal byte writes / literal read sizes of every binary writer and reader, in source order. -/
def bvcdFmts : List (String × List String) := [{', '.join(f'({lean_string(k)}, {_strs(v)})' for k, v in table)}]
"""


def _vmt(repo):
    tree = ast.parse((repo / 'src/srctools/vmt.py').read_text(encoding='utf-8'))
    try:
        q = _func(tree, '_quote_if_required')
    except ExtractError:
        return "def vmtLead : List Char := []\ndef vmtQuoteRule : String := \"\"\n"
    tests = [n for n in ast.walk(q) if isinstance(n, ast.If)]
    if len(tests) != 1:
        raise ExtractError('_quote_if_required: expected a single if')
    rule = ast.unparse(tests[0].test)
    lead = [n.comparators[0].value for n in ast.walk(tests[0].test) if isinstance(n, ast.Compare)
            and isinstance(n.ops[0], ast.In) and ast.unparse(n.left) == 'text[0]' and isinstance(n.comparators[0], ast.Constant)]
    if len(lead) != 1:
        raise ExtractError('_quote_if_required: leading-character test not recognised')
    ex = _func(tree, 'export', 'Material')
    uses = len(_calls(ex, '_quote_if_required'))
    def writes(fn):
        out = []
        for n in ast.walk(fn):
            if isinstance(n, ast.Call) and isinstance(n.func, ast.Attribute) and n.func.attr == 'write' and n.args:
                a = n.args[0]
                if isinstance(a, ast.JoinedStr):
                    txt = ''.join(v.value if isinstance(v, ast.Constant) else '$' for v in a.values)
                elif isinstance(a, ast.Constant) and isinstance(a.value, str):
                    txt = a.value
                else:
                    txt = '@' + ast.unparse(a).replace(' ', '')
                out.append((n.lineno, n.col_offset, txt))
        return [t for _, _, t in sorted(out)]
    try:
        eb = writes(_func(tree, '_export_block'))
    except ExtractError:
        eb = []
    pieces = writes(ex)
    ps = _func(tree, 'parse', 'Material')
    tok_kw = sorted({k.arg + '=' + ast.unparse(k.value) for n in ast.walk(ps) if isinstance(n, ast.Call)
                     and ast.unparse(n.func) == 'Tokenizer' for k in n.keywords})
    lits = sorted({n.value for n in ast.walk(ps) if isinstance(n, ast.Constant) and isinstance(n.value, str) and n.value.isalpha()})
    return f"""/-- Material.export / _export_block: the literal text of every write ('$' = interpolation, '@' = expression). -/
def vmtPieces : List String := {_strs(pieces)}
def vmtBlockPieces : List String := {_strs(eb)}
/-- Material.parse: tokenizer options and alphabetic string literals (`proxies`, `Proxy`). -/
def vmtTokOpts : List String := {_strs(tok_kw)}
def vmtParseWords : List String := {_strs(lits)}
/-- characters `_quote_if_required` refuses at the start of a bare string. -/
def vmtLead : List Char := {lean_str_chars(lead[0])}
def vmtQuoteRule : String := {lean_string(rule)}
/-- number of strings Material.export passes through `_quote_if_required` (shader, name, value). -/
def vmtQuoteUses : Nat := {uses}
"""


def _snd(repo):
    tree = ast.parse((repo / 'src/srctools/sndscript.py').read_text(encoding='utf-8'))
    ex = _func(tree, 'export', 'Sound')
    # every f-string piece written by export: which expressions are interpolated raw inside quotes
    raw, esc = [], []
    for n in ast.walk(ex):
        if isinstance(n, ast.JoinedStr):
            vals = n.values
            for i, v in enumerate(vals):
                if isinstance(v, ast.FormattedValue):
                    before = vals[i - 1].value if i > 0 and isinstance(vals[i - 1], ast.Constant) else ''
                    src = ast.unparse(v.value).replace(' ', '')
                    quoted = before.endswith('"')
                    (esc if src.startswith('escape_text(') else raw).append(('"' if quoted else '') + src)
    # literal text pieces written by export, in source order, and the keys parse_one looks at
    pieces = []
    for n in ast.walk(ex):
        if isinstance(n, ast.Call) and isinstance(n.func, ast.Attribute) and n.func.attr == 'write' and n.args:
            a = n.args[0]
            if isinstance(a, ast.JoinedStr):
                txt = ''.join(v.value if isinstance(v, ast.Constant) else '$' for v in a.values)
            elif isinstance(a, ast.Constant) and isinstance(a.value, str):
                txt = a.value
            else:
                txt = '@' + ast.unparse(a)
            pieces.append((n.lineno, n.col_offset, txt))
    pieces = [t for _, _, t in sorted(pieces)]
    conds = [ast.unparse(n.test).replace(' ', '') for n in ast.walk(ex) if isinstance(n, ast.If)]
    po = _func(tree, 'parse_one', 'Sound')
    keys = sorted({n.value for n in ast.walk(po) if isinstance(n, ast.Constant) and isinstance(n.value, str)
                   and n.value and n.value.replace('_', '').isalpha() and n.value.islower()})
    return f"""/-- Sound.export: the literal text of every write ('$' = interpolation), in source order; its conditions. -/
def sndPieces : List String := {_strs(pieces)}
def sndConds : List String := {_strs(conds)}
/-- lower-case word literals in Sound.parse_one (the keys it looks up). -/
def sndParseKeys : List String := {_strs(keys)}
/-- Sound.export: interpolations wrapped in escape_text, and the others ('"' prefix = inside quotes). -/
def sndEscaped : List String := {_strs(sorted(esc))}
def sndRaw : List String := {_strs(sorted(raw))}
"""


def _smd(repo):
    tree = ast.parse((repo / 'src/srctools/smd.py').read_text(encoding='utf-8'))
    ex = _func(tree, 'export', 'Mesh')
    lits = []
    for n in ast.walk(ex):
        if isinstance(n, ast.Constant) and isinstance(n.value, bytes):
            lits.append((n.lineno, n.col_offset, n.value.decode('latin1')))
    lits = [t for _, _, t in sorted(lits)]
    todo = [ast.unparse(n.value).replace(' ', '') for n in ast.walk(ex)
            if isinstance(n, ast.AnnAssign) and isinstance(n.target, ast.Name) and n.target.id == 'todo']
    cond = [ast.unparse(n.test).replace(' ', '') for n in ast.walk(ex) if isinstance(n, ast.If)]
    tri = _func(tree, '_parse_smd_tri', 'Mesh')
    tconds = [ast.unparse(n.test).replace(' ', '') for n in ast.walk(tri) if isinstance(n, ast.If)]
    return f"""/-- Mesh.export: every bytes literal (format strings), in source order; the work list; the conditions. -/
def smdExportFmts : List String := {_strs(lits)}
def smdTodo : List String := {_strs(todo)}
def smdExportConds : List String := {_strs(cond)}
/-- Mesh._parse_smd_tri: its conditions. -/
def smdTriConds : List String := {_strs(tconds)}
"""


def generate(repo):
    return ("import Srctools.Model.C20\n"
            "/-! GENERATED by tools/gen_c20.py from src/srctools/{cmdseq,choreo,vmt,sndscript}.py — do not edit. -/\n"
            "namespace Gen.C20\n\n" + _cmdseq(repo) + "\n" + _choreo(repo) + "\n" + _bvcd(repo) + "\n" + _vmt(repo) + "\n" + _snd(repo) + "\n" + _smd(repo) +
            "\nend Gen.C20\n")
