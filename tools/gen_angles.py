"""Gen.Angles: every assignment to an angle slot (`_pitch`, `_yaw`, `_roll`) in srctools/math.py, with the
right-hand side classified syntactically:

  norm2      e % 360 % 360        (360 or 360.0, both moduli)
  copyField  <obj>._pitch / ._yaw / ._roll
  zero       literal 0 / 0.0
  mod1       e % 360              (one modulo only)
  other      anything else: augmented assignment, unpacking of a non-literal tuple, setattr, a raw expression

The translator only reports; `Props/C05.lean` decides that no `mod1` / `other` site exists.
"""
import ast
from extract import ExtractError, lean_string

SLOTS = {'_pitch': 0, '_yaw': 1, '_roll': 2}
ANGLE_CLASSES = ('AngleBase', 'FrozenAngle', 'Angle')


def _is_mod360(e):
    return (isinstance(e, ast.BinOp) and isinstance(e.op, ast.Mod) and isinstance(e.right, ast.Constant)
            and type(e.right.value) in (int, float) and e.right.value == 360)


def classify(rhs):
    if rhs is None:
        return 'other'
    if _is_mod360(rhs) and _is_mod360(rhs.left):
        return 'norm2'
    if _is_mod360(rhs):
        return 'mod1'
    if isinstance(rhs, ast.Attribute) and rhs.attr in SLOTS and isinstance(rhs.ctx, ast.Load):
        return 'copyField'
    if isinstance(rhs, ast.Constant) and type(rhs.value) in (int, float) and rhs.value == 0:
        return 'zero'
    return 'other'


def _parents(tree):
    par = {}
    for n in ast.walk(tree):
        for c in ast.iter_child_nodes(n):
            par[c] = n
    return par


def _scope_name(node, par):
    names = []
    n = node
    while n in par:
        n = par[n]
        if isinstance(n, (ast.FunctionDef, ast.AsyncFunctionDef, ast.ClassDef)):
            names.append(n.name)
    return '.'.join(reversed(names)) or '<module>'


def sites_of(tree):
    par = _parents(tree)
    out = []
    for node in ast.walk(tree):
        # every syntactic store / delete of an angle slot
        if isinstance(node, ast.Attribute) and node.attr in SLOTS and isinstance(node.ctx, (ast.Store, ast.Del)):
            stmt = par[node]
            cls = 'other'
            if isinstance(node.ctx, ast.Store):
                if isinstance(stmt, ast.Assign) and node in stmt.targets:
                    cls = classify(stmt.value)
                elif isinstance(stmt, ast.AnnAssign) and stmt.target is node:
                    cls = classify(stmt.value)
                elif isinstance(stmt, (ast.Tuple, ast.List)) and isinstance(par.get(stmt), ast.Assign) \
                        and stmt in par[stmt].targets:
                    asg = par[stmt]
                    if isinstance(asg.value, (ast.Tuple, ast.List)) and len(asg.value.elts) == len(stmt.elts) \
                            and not any(isinstance(e, ast.Starred) for e in list(stmt.elts) + list(asg.value.elts)):
                        cls = classify(asg.value.elts[stmt.elts.index(node)])
                    else:
                        cls = 'other'
                else:
                    cls = 'other'   # AugAssign, for-target, with-target, walrus, ...
            out.append((_scope_name(node, par), node.lineno, SLOTS[node.attr], cls, ast.unparse(stmt)[:90]))
        # setattr / __setattr__ / __dict__ tricks inside the angle classes (or naming an angle slot anywhere)
        if isinstance(node, ast.Call):
            f = node.func
            fname = f.id if isinstance(f, ast.Name) else f.attr if isinstance(f, ast.Attribute) else ''
            if fname in ('setattr', '__setattr__', '__setstate__', 'delattr', '__delattr__'):
                scope = _scope_name(node, par)
                names_slot = any(isinstance(a, ast.Constant) and a.value in SLOTS for a in node.args)
                if names_slot or scope.split('.')[0] in ANGLE_CLASSES:
                    slot = next((SLOTS[a.value] for a in node.args if isinstance(a, ast.Constant) and a.value in SLOTS), 0)
                    out.append((scope, node.lineno, slot, 'other', ast.unparse(node)[:90]))
    out.sort(key=lambda s: (s[1], s[2]))
    return out


def class_slots(tree):
    res = {}
    for n in tree.body:
        if isinstance(n, ast.ClassDef) and n.name in ANGLE_CLASSES:
            sl = None
            for s in n.body:
                if isinstance(s, ast.Assign) and any(isinstance(t, ast.Name) and t.id == '__slots__' for t in s.targets):
                    try:
                        sl = list(ast.literal_eval(s.value))
                    except Exception:
                        raise ExtractError(f'{n.name}.__slots__ is not a literal')
            res[n.name] = sl
    return res


def generate(repo):
    src = (repo / 'src/srctools/math.py').read_text(encoding='utf-8')
    tree = ast.parse(src)
    slots = class_slots(tree)
    for c in ANGLE_CLASSES:
        if c not in slots:
            raise ExtractError(f'class {c} not found in math.py')
    sites = sites_of(tree)
    if not sites:
        raise ExtractError('no assignment to an angle slot found')
    L = ['import Srctools.Model.C05Sites',
         '/-! GENERATED by tools/gen_angles.py from src/srctools/math.py — do not edit. -/',
         'namespace Gen.Angles', 'open C05', '',
         '/-- every store to `_pitch/_yaw/_roll` (function, line, slot, class of the right-hand side). -/',
         'def sites : List AngleSite := [']
    for i, (fn, line, slot, cls, text) in enumerate(sites):
        sep = ',' if i + 1 < len(sites) else ''
        L.append(f'  ⟨{lean_string(fn)}, {line}, {slot}, .{cls}⟩{sep}  -- {text.splitlines()[0]}')
    L.append(']')
    L.append('')
    L.append('/-- literal `__slots__` of the three angle classes (`none` = no `__slots__`, i.e. a `__dict__`). -/')
    L.append('def slots : List (String × Option (List String)) := [' + ', '.join(
        f'({lean_string(c)}, ' + ('none' if slots[c] is None else 'some [' + ', '.join(lean_string(s) for s in slots[c]) + ']') + ')'
        for c in ANGLE_CLASSES) + ']')
    L.append('')
    L.append('end Gen.Angles')
    return '\n'.join(L) + '\n'
