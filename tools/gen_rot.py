"""Gen.Rot: the arithmetic of the rotation code of srctools/math.py, re-stated as Lean terms.

Symbolically executes the straight-line bodies of
  MatrixBase.from_angle / from_pitch / from_yaw / from_roll   (sin/cos of the three angles -> 9 slots)
  MatrixBase._mat_mul      (sequential tuple assignments; once with `other` a different object and
                            once with `other is self`, because the method works in place)
  MatrixBase._vec_rot, MatrixBase.transpose
  MatrixBase._to_angle     (the sqrt argument, the threshold literal, the (y, x) arguments of the five
                            atan2 calls and the constant roll of the gimbal branch)
  MatrixBase.inverse       (the literal of the final diagonal test)
into polynomial expressions over the inputs (only + - * unary- **2 and the literals 0/1 are
understood; anything else raises ExtractError).  The generated definitions are generic in the
number type; `Props/C04.lean` proves each equal to the hand-written model (`ring`), so a flipped
sign, a swapped term or a changed threshold breaks the build, while harmless re-association does not.
Never imports the code.
"""
import ast
from fractions import Fraction
from extract import ExtractError

SLOTS = ['aa', 'ab', 'ac', 'ba', 'bb', 'bc', 'ca', 'cb', 'cc']
AXIS = {'pitch': 'p', 'yaw': 'y', 'roll': 'r'}


def _method(cls, name):
    """The last (non-overload) definition of a method."""
    found = [n for n in cls.body if isinstance(n, ast.FunctionDef) and n.name == name]
    if not found:
        raise ExtractError(f'{cls.name}.{name} not found')
    return found[-1]


def _is_doc(s):
    return isinstance(s, ast.Expr) and isinstance(s.value, ast.Constant) and isinstance(s.value.value, str)


def _call_name(n):
    """'math.cos' for math.cos(...)"""
    if isinstance(n, ast.Call):
        return ast.unparse(n.func)
    return None


class Sym:
    """Symbolic store: python lvalue text -> Lean term text."""

    def __init__(self, objs, where):
        self.env = {}
        self.objs = objs      # python object name -> lean record name (e.g. {'self': 'm', 'other': 'o'})
        self.where = where

    def bad(self, node, why='unsupported expression'):
        raise ExtractError(f'{self.where}: {why}: {ast.unparse(node)[:80]}')

    def key(self, node):
        """Canonical key of an attribute / name lvalue: ('self','aa') or 'x'."""
        if isinstance(node, ast.Name):
            return node.id
        if isinstance(node, ast.Attribute) and isinstance(node.value, ast.Name):
            return (self.alias(node.value.id), node.attr.lstrip('_'))
        self.bad(node, 'unsupported lvalue')

    def alias(self, name):
        return name

    def expr(self, n):
        if isinstance(n, ast.Constant):
            if isinstance(n.value, (int, float)) and not isinstance(n.value, bool) and n.value in (0, 1):
                return '0' if n.value == 0 else '1'
            self.bad(n, 'unsupported literal')
        if isinstance(n, (ast.Name, ast.Attribute)):
            k = self.key(n)
            if k in self.env:
                if isinstance(self.env[k], list):
                    self.bad(n, 'a tuple used as a number')
                return self.env[k]
            if isinstance(k, tuple) and k[0] in self.objs:
                return f'{self.objs[k[0]]}.{k[1]}'
            self.bad(n, 'unknown name')
        if isinstance(n, ast.UnaryOp) and isinstance(n.op, ast.USub):
            return f'(-{self.expr(n.operand)})'
        if isinstance(n, ast.UnaryOp) and isinstance(n.op, ast.UAdd):
            return self.expr(n.operand)
        if isinstance(n, ast.BinOp):
            if isinstance(n.op, ast.Pow):
                if isinstance(n.right, ast.Constant) and n.right.value == 2:
                    e = self.expr(n.left)
                    return f'({e} * {e})'
                self.bad(n, 'unsupported power')
            op = {ast.Add: '+', ast.Sub: '-', ast.Mult: '*'}.get(type(n.op))
            if op is None:
                self.bad(n, 'unsupported operator')
            return f'({self.expr(n.left)} {op} {self.expr(n.right)})'
        self.bad(n)

    def assign(self, target, value):
        """Python semantics: the whole right-hand side is evaluated before any store."""
        if isinstance(value, ast.Tuple):
            vals = [self.expr(v) for v in value.elts]
        elif isinstance(value, ast.Name) and isinstance(self.env.get(value.id), list):
            vals = list(self.env[value.id])          # a local that holds a tuple of terms
        else:
            vals = None
        if isinstance(target, ast.Tuple):
            if vals is None or len(vals) != len(target.elts):
                self.bad(value, 'tuple assignment from something that is not a tuple of the same length')
            for t, v in zip(target.elts, vals):
                self.env[self.key(t)] = v
        elif vals is not None:
            if not isinstance(target, ast.Name):
                self.bad(value, 'tuple stored into a slot')
            self.env[target.id] = vals
        else:
            self.env[self.key(target)] = self.expr(value)


class AliasSym(Sym):
    """`other is self`: reads and writes of other.* go to self.*"""

    def alias(self, name):
        return 'self' if name == 'other' else name


def _mat_literal(sym, obj, what):
    miss = [s for s in SLOTS if (obj, s) not in sym.env]
    if miss:
        raise ExtractError(f'{what}: slots never assigned: {miss}')
    return '{ ' + ', '.join(f'{s} := {sym.env[(obj, s)]}' for s in SLOTS) + ' }'


def _trig_bodies(fn, where):
    """Straight-line interpretation of a from_* classmethod. Returns the Lean matrix literal."""
    # rad_X = math.radians(<axis param> | pitch.<axis>) anywhere in the function
    rad = {}
    for n in ast.walk(fn):
        if isinstance(n, ast.Assign) and len(n.targets) == 1 and isinstance(n.targets[0], ast.Name) \
                and _call_name(n.value) == 'math.radians' and len(n.value.args) == 1:
            a = n.value.args[0]
            if isinstance(a, ast.Name) and a.id in AXIS:
                ax = a.id
            elif isinstance(a, ast.Attribute) and a.attr in AXIS and isinstance(a.value, ast.Name):
                ax = a.attr
            else:
                raise ExtractError(f'{where}: unrecognised radians() argument {ast.unparse(a)}')
            if rad.setdefault(n.targets[0].id, ax) != ax:
                raise ExtractError(f'{where}: {n.targets[0].id} is assigned from two different axes')
    sym = Sym({}, where)
    for s in fn.body:
        if _is_doc(s) or isinstance(s, (ast.If, ast.Return)):
            if isinstance(s, ast.If):
                # the argument-parsing prelude: may only assign rad_* / raise
                for n in ast.walk(s):
                    if isinstance(n, ast.Assign) and not (isinstance(n.targets[0], ast.Name) and n.targets[0].id in rad):
                        raise ExtractError(f'{where}: assignment inside a branch: {ast.unparse(n)[:60]}')
            continue
        if not isinstance(s, ast.Assign) or len(s.targets) != 1:
            raise ExtractError(f'{where}: unsupported statement: {ast.unparse(s)[:60]}')
        t, v = s.targets[0], s.value
        cn = _call_name(v)
        if cn == 'math.radians':
            continue
        if cn in ('math.cos', 'math.sin'):
            if not (isinstance(t, ast.Name) and len(v.args) == 1 and isinstance(v.args[0], ast.Name) and v.args[0].id in rad):
                raise ExtractError(f'{where}: unrecognised trig call {ast.unparse(s)}')
            sym.env[t.id] = f'a.{cn[-3]}{AXIS[rad[v.args[0].id]]}'       # a.cp, a.sy, ...
            continue
        if cn is not None and ast.unparse(v) == 'cls.__new__(cls)':
            continue
        sym.assign(t, v)
    return _mat_literal(sym, 'rot', where)


def _strip_mod360(n, where):
    while isinstance(n, ast.BinOp) and isinstance(n.op, ast.Mod):
        if not (isinstance(n.right, ast.Constant) and n.right.value == 360.0):
            raise ExtractError(f'{where}: modulus is not 360.0: {ast.unparse(n)[:60]}')
        n = n.left
    return n


def _to_angle(fn):
    where = 'MatrixBase._to_angle'
    sym = Sym({'self': 'm'}, where)
    horiz = None
    the_if = None
    for s in fn.body:
        if _is_doc(s) or isinstance(s, ast.Return):
            continue
        if isinstance(s, ast.If):
            if the_if is not None:
                raise ExtractError(f'{where}: more than one if')
            the_if = s
            continue
        if not isinstance(s, ast.Assign) or len(s.targets) != 1:
            raise ExtractError(f'{where}: unsupported statement {ast.unparse(s)[:60]}')
        if _call_name(s.value) == 'math.sqrt':
            if horiz is not None or not isinstance(s.targets[0], ast.Name):
                raise ExtractError(f'{where}: unexpected sqrt')
            horiz = (s.targets[0].id, sym.expr(s.value.args[0]))
            sym.env[horiz[0]] = 'h'
            continue
        sym.assign(s.targets[0], s.value)
    if horiz is None or the_if is None:
        raise ExtractError(f'{where}: no sqrt / no branch')
    t = the_if.test
    if not (isinstance(t, ast.Compare) and len(t.ops) == 1 and isinstance(t.ops[0], ast.Gt)
            and isinstance(t.left, ast.Name) and t.left.id == horiz[0]
            and isinstance(t.comparators[0], ast.Constant) and isinstance(t.comparators[0].value, float)):
        raise ExtractError(f'{where}: branch test is not `{horiz[0]} > <float literal>`: {ast.unparse(t)}')
    thr = Fraction(t.comparators[0].value)

    def branch(stmts, name):
        out = {}
        for s in stmts:
            if not (isinstance(s, ast.Assign) and len(s.targets) == 1 and isinstance(s.targets[0], ast.Attribute)
                    and ast.unparse(s.targets[0].value) == 'ang' and s.targets[0].attr in ('_pitch', '_yaw', '_roll')):
                raise ExtractError(f'{where}: {name} branch: unsupported statement {ast.unparse(s)[:60]}')
            v = _strip_mod360(s.value, where)
            if isinstance(v, ast.Constant) and v.value == 0:
                out[s.targets[0].attr] = None
                continue
            if not (_call_name(v) == 'math.degrees' and len(v.args) == 1 and _call_name(v.args[0]) == 'math.atan2'
                    and len(v.args[0].args) == 2):
                raise ExtractError(f'{where}: {name} branch: not degrees(atan2(y, x)): {ast.unparse(v)[:60]}')
            y, x = v.args[0].args
            out[s.targets[0].attr] = (sym.expr(y), sym.expr(x))
        if set(out) != {'_pitch', '_yaw', '_roll'}:
            raise ExtractError(f'{where}: {name} branch does not assign all of pitch/yaw/roll')
        return out
    gen, gim = branch(the_if.body, 'general'), branch(the_if.orelse, 'gimbal')
    if None in gen.values() or gim['_roll'] is not None or gim['_yaw'] is None or gim['_pitch'] is None:
        raise ExtractError(f'{where}: unexpected constant angle')
    pairs = [gen['_yaw'], gen['_pitch'], gen['_roll'], gim['_yaw'], gim['_pitch']]
    return horiz[1], thr, pairs


def _inverse_eps(fn):
    found = []
    for n in ast.walk(fn):
        if isinstance(n, ast.Compare) and len(n.ops) == 1 and isinstance(n.ops[0], ast.LtE) \
                and _call_name(n.left) == 'abs' and isinstance(n.comparators[0], ast.Constant) \
                and isinstance(n.comparators[0].value, float):
            found.append(Fraction(n.comparators[0].value))
    if len(found) != 1:
        raise ExtractError(f'MatrixBase.inverse: expected one `abs(v) <= <literal>` test, found {len(found)}')
    return found[0]


def _returns_self(fn):
    body = [b for b in fn.body if not _is_doc(b)]
    return len(body) == 1 and isinstance(body[0], ast.Return) and ast.unparse(body[0].value) == 'self'


def _fmat_product_fresh(tree, mb):
    """Does MatrixBase.__matmul__/__rmatmul__ multiply into an object that is never a frozen operand?
    Every `X._mat_mul(...)` receiver in the two methods must be a local assigned from
    `<obj>._fresh_copy()` (a helper that builds a new object with _from_raw / __new__),
    `Py_Matrix.from_angle(...)`, or `<obj>.copy()` — the last one is fresh only if no matrix class
    has a copy() that returns self."""
    def cls(name):
        c = next((n for n in tree.body if isinstance(n, ast.ClassDef) and n.name == name), None)
        if c is None:
            raise ExtractError(f'class {name} not found')
        return c
    copy_is_self = any(_returns_self(f) for c in ('FrozenMatrix', 'Matrix')
                       for f in cls(c).body if isinstance(f, ast.FunctionDef) and f.name == 'copy')
    helper_fresh = None
    hf = [n for n in mb.body if isinstance(n, ast.FunctionDef) and n.name == '_fresh_copy']
    if hf:
        src = ast.unparse(hf[-1])
        helper_fresh = ('_from_raw(' in src or '__new__(' in src) and not _returns_self(hf[-1])
    fresh = True
    for meth in ('__matmul__', '__rmatmul__'):
        fn = _method(mb, meth)
        assigns = {}
        for n in ast.walk(fn):
            if isinstance(n, ast.Assign) and len(n.targets) == 1 and isinstance(n.targets[0], ast.Name):
                assigns.setdefault(n.targets[0].id, []).append(ast.unparse(n.value))
        recv = [n.func.value for n in ast.walk(fn) if isinstance(n, ast.Call) and isinstance(n.func, ast.Attribute)
                and n.func.attr == '_mat_mul']
        if not recv:
            raise ExtractError(f'MatrixBase.{meth}: no _mat_mul call')
        for r in recv:
            if not isinstance(r, ast.Name) or r.id not in assigns:
                raise ExtractError(f'MatrixBase.{meth}: _mat_mul receiver {ast.unparse(r)} is not a local')
            for v in assigns[r.id]:
                if v.endswith('._fresh_copy()'):
                    if helper_fresh is None:
                        raise ExtractError('_fresh_copy is called but not defined in MatrixBase')
                    fresh = fresh and helper_fresh
                elif v.startswith('Py_Matrix.from_angle('):
                    pass
                elif v.endswith('.copy()'):
                    fresh = fresh and not copy_is_self
                else:
                    raise ExtractError(f'MatrixBase.{meth}: cannot classify `{r.id} = {v[:50]}`')
    return fresh


def generate(repo):
    src = (repo / 'src/srctools/math.py').read_text(encoding='utf-8')
    tree = ast.parse(src)
    mb = next((n for n in tree.body if isinstance(n, ast.ClassDef) and n.name == 'MatrixBase'), None)
    if mb is None:
        raise ExtractError('class MatrixBase not found')
    from_angle = _trig_bodies(_method(mb, 'from_angle'), 'MatrixBase.from_angle')
    rx = _trig_bodies(_method(mb, 'from_roll'), 'MatrixBase.from_roll')
    ry = _trig_bodies(_method(mb, 'from_pitch'), 'MatrixBase.from_pitch')
    rz = _trig_bodies(_method(mb, 'from_yaw'), 'MatrixBase.from_yaw')

    def straight(name, symcls, objs):
        fn = _method(mb, name)
        sym = symcls(objs, f'MatrixBase.{name}')
        for s in fn.body:
            if _is_doc(s) or isinstance(s, ast.Return):
                continue
            if isinstance(s, ast.Assign) and len(s.targets) == 1:
                if ast.unparse(s.value) in ('type(self)', 'cls.__new__(cls)'):
                    continue
                sym.assign(s.targets[0], s.value)
            else:
                raise ExtractError(f'MatrixBase.{name}: unsupported statement {ast.unparse(s)[:60]}')
        return sym
    mm = _mat_literal(straight('_mat_mul', Sym, {'self': 'm', 'other': 'o'}), 'self', '_mat_mul')
    mma = _mat_literal(straight('_mat_mul', AliasSym, {'self': 'm'}), 'self', '_mat_mul (other is self)')
    vr = straight('_vec_rot', Sym, {'self': 'm', 'vec': 'v'})
    miss = [c for c in 'xyz' if ('vec', c) not in vr.env]
    if miss:
        raise ExtractError(f'_vec_rot: components never assigned: {miss}')
    tr = _mat_literal(straight('transpose', Sym, {'self': 'm'}), 'rot', 'transpose')
    horiz, thr, pairs = _to_angle(_method(mb, '_to_angle'))
    eps = _inverse_eps(_method(mb, 'inverse'))
    fresh = _fmat_product_fresh(tree, mb)

    L = ['import Srctools.Model.C04',
         '/-! GENERATED by tools/gen_rot.py from src/srctools/math.py — do not edit. -/',
         'namespace Gen.Rot',
         'open C04',
         'variable {α : Type} [Add α] [Mul α] [Neg α] [Sub α] [Zero α] [One α]',
         '',
         '/-- MatrixBase.from_angle -/',
         f'def fromAngle (a : Ang α) : Mat α := {from_angle}',
         '/-- MatrixBase.from_roll -/',
         f'def rx (a : Ang α) : Mat α := {rx}',
         '/-- MatrixBase.from_pitch -/',
         f'def ry (a : Ang α) : Mat α := {ry}',
         '/-- MatrixBase.from_yaw -/',
         f'def rz (a : Ang α) : Mat α := {rz}',
         '/-- MatrixBase._mat_mul, `other` a different object -/',
         f'def matMul (m o : Mat α) : Mat α := {mm}',
         '/-- MatrixBase._mat_mul, `other is self` -/',
         f'def matMulAliased (m : Mat α) : Mat α := {mma}',
         '/-- MatrixBase._vec_rot -/',
         f"def vecRot (v : V3 α) (m : Mat α) : V3 α := {{ x := {vr.env[('vec', 'x')]}, y := {vr.env[('vec', 'y')]}, z := {vr.env[('vec', 'z')]} }}",
         '/-- MatrixBase.transpose -/',
         f'def transpose (m : Mat α) : Mat α := {tr}',
         '/-- MatrixBase._to_angle: the argument of sqrt (horiz_dist squared) -/',
         f'def horizSq (m : Mat α) : α := {horiz}',
         '/-- MatrixBase._to_angle: (y, x) of atan2 for general yaw, pitch, roll, gimbal yaw, pitch; gimbal roll is the constant 0 -/',
         'def atanArgs (m : Mat α) (h : α) : List (α × α) := [' + ', '.join(f'({y}, {x})' for y, x in pairs) + ']',
         f'/-- the literal of `horiz_dist > …` as the exact value of the double ({float(thr)!r}) -/',
         f'def thr : Rat := mkRat {thr.numerator} {thr.denominator}',
         f'/-- the literal of `abs(v) <= …` in inverse() as the exact value of the double ({float(eps)!r}) -/',
         f'def eps : Rat := mkRat {eps.numerator} {eps.denominator}',
         '/-- MatrixBase.__matmul__/__rmatmul__ multiply into a new object, never into a (frozen) operand -/',
         f'def fmatProductFresh : Bool := {"true" if fresh else "false"}',
         '',
         'end Gen.Rot']
    return '\n'.join(L) + '\n'
