"""Gen.Fgdw: shape of fgd.py `_write_longstring` / `_fgd_escape` / `FGD.parse_file` tokenizer options and the
index tables of _engine_db.py (VALUE_TYPE_ORDER, FILE_TYPE_ORDER, EntFlags, SHARED_STRINGS, …).

`_write_longstring` is recognised by comparing the unparsed AST of its body against a template with two
numeric holes (LIMIT, the `> 128` threshold) and two optional pieces (the escape-pair guard of the hard
cut; `""` for an empty text).  Anything else raises ExtractError."""
import ast, re
from extract import ExtractError, lean_string


def _func(tree, name):
    for n in tree.body:
        if isinstance(n, ast.FunctionDef) and n.name == name:
            return n
    raise ExtractError(f'function {name} not found')


def _body_src(fn):
    body = list(fn.body)
    if body and isinstance(body[0], ast.Expr) and isinstance(body[0].value, ast.Constant) and isinstance(body[0].value.value, str):
        body = body[1:]
    return '\n'.join(ast.unparse(s) for s in body)


_WL_TEMPLATE = r'''LIMIT = (?P<limit>\d+)
sections = \[\]
remaining = _fgd_escape\(extended, text\)
while len\(remaining\) > LIMIT:
    split_pos = remaining\.rfind\('\\\\n', 0, LIMIT\) \+ 2
    if split_pos > (?P<small>\d+):
        sections\.append\(f'"\{remaining\[:split_pos\]\}"'\)
        remaining = remaining\[split_pos:\]
        continue
    split_pos = remaining\.rfind\(' ', 0, LIMIT\) \+ 1
    if split_pos == -1 \+ 1:
        split_pos = LIMIT(?P<backoff>
        if \(split_pos - len\(remaining\[:split_pos\]\.rstrip\('\\\\'\)\)\) % 2:
            split_pos -= 1)?
    sections\.append\(f'"\{remaining\[:split_pos\]\}"'\)
    remaining = remaining\[split_pos:\]
if remaining(?P<empty> or not sections)?:
    sections\.append\(f'"\{remaining\}"'\)
file\.write\(\(' \+\\n' \+ indent\)\.join\(sections\)\)'''

_ESC_BODY = '''if extended:
    return escape_text(text)
return text.replace('\\n', '\\\\n').replace('"', "''")'''


def _enum_members(tree, cls):
    """[(name, canonical_name)] of an Enum class body: `A = B = <expr>` and `A = B` aliases resolved."""
    c = next((n for n in tree.body if isinstance(n, ast.ClassDef) and n.name == cls), None)
    if c is None:
        raise ExtractError(f'class {cls} not found')
    out, by_value, canon = [], {}, {}
    for n in c.body:
        if not isinstance(n, ast.Assign):
            continue
        names = [t.id for t in n.targets if isinstance(t, ast.Name)]
        if isinstance(n.value, ast.Name) and n.value.id in canon:      # X = EXISTING
            first = canon[n.value.id]
        elif isinstance(n.value, ast.Constant):
            key = repr(n.value.value)
            first = by_value.setdefault(key, names[0])
        else:
            raise ExtractError(f'{cls}: unrecognised member {ast.unparse(n)}')
        for nm in names:
            canon[nm] = first
            out.append((nm, first))
    return out, c


def _enum_values(tree, cls):
    """{member name: constant value} for `A = B = <const>` members of an Enum class."""
    c = next(n for n in tree.body if isinstance(n, ast.ClassDef) and n.name == cls)
    out = {}
    for n in c.body:
        if isinstance(n, ast.Assign) and isinstance(n.value, ast.Constant):
            for t in n.targets:
                if isinstance(t, ast.Name):
                    out[t.id] = n.value.value
    return out


def _io_decay(ftree, vt_names, vt_canon, vt_values):
    """VALUE_TO_IO_DECAY as {canonical member: canonical member}."""
    cls = next(n for n in ftree.body if isinstance(n, ast.ClassDef) and n.name == 'ValueTypes')
    prop = next((n for n in cls.body if isinstance(n, ast.FunctionDef) and n.name == 'valid_for_io'), None)
    if prop is None:
        raise ExtractError('ValueTypes.valid_for_io not found')
    sets = [n for n in ast.walk(prop) if isinstance(n, ast.Set)]
    src = ast.unparse(prop)
    if len(sets) != 1 or 'return self.value in' not in src:
        raise ExtractError('valid_for_io: unrecognised body')
    valid = set(ast.literal_eval(sets[0]))
    decay = None
    for n in ftree.body:
        if isinstance(n, ast.AnnAssign) and isinstance(n.target, ast.Name) and n.target.id == 'VALUE_TO_IO_DECAY':
            if ast.unparse(n.value).replace(' ', '') != '{typ:typiftyp.valid_for_ioelseValueTypes.STRINGfortypinValueTypes}':
                raise ExtractError('VALUE_TO_IO_DECAY: unrecognised construction ' + ast.unparse(n.value))
            decay = {m: (m if vt_values[m] in valid else 'STRING') for m in vt_names}
        elif isinstance(n, ast.Assign) and len(n.targets) == 1 and isinstance(n.targets[0], ast.Subscript) \
                and isinstance(n.targets[0].value, ast.Name) and n.targets[0].value.id == 'VALUE_TO_IO_DECAY':
            if decay is None:
                raise ExtractError('VALUE_TO_IO_DECAY assigned before definition')
            k, v = n.targets[0].slice, n.value
            ok = all(isinstance(x, ast.Attribute) and isinstance(x.value, ast.Name) and x.value.id == 'ValueTypes' for x in (k, v))
            if not ok or k.attr not in vt_canon or v.attr not in vt_canon:
                raise ExtractError('VALUE_TO_IO_DECAY: unrecognised override ' + ast.unparse(n))
            decay[vt_canon[k.attr]] = vt_canon[v.attr]
    if decay is None:
        raise ExtractError('VALUE_TO_IO_DECAY not found')
    return decay


def _lookup_aliases(ftree, vt_canon):
    """VALUE_TYPE_LOOKUP[...] = ValueTypes.X extra entries, after the comprehension over the members."""
    base_ok = False
    extra = []
    for n in ftree.body:
        if isinstance(n, ast.AnnAssign) and isinstance(n.target, ast.Name) and n.target.id == 'VALUE_TYPE_LOOKUP':
            if ast.unparse(n.value).replace(' ', '') != '{typ.value:typfortypinValueTypes}':
                raise ExtractError('VALUE_TYPE_LOOKUP: unrecognised construction ' + ast.unparse(n.value))
            base_ok = True
        elif isinstance(n, ast.Assign) and len(n.targets) == 1 and isinstance(n.targets[0], ast.Subscript) \
                and isinstance(n.targets[0].value, ast.Name) and n.targets[0].value.id == 'VALUE_TYPE_LOOKUP':
            k, v = n.targets[0].slice, n.value
            if not (isinstance(k, ast.Constant) and isinstance(k.value, str) and isinstance(v, ast.Attribute) and v.attr in vt_canon):
                raise ExtractError('VALUE_TYPE_LOOKUP: unrecognised extra entry ' + ast.unparse(n))
            extra.append((k.value, vt_canon[v.attr]))
    if not base_ok:
        raise ExtractError('VALUE_TYPE_LOOKUP not found')
    return extra


def _list_of_attrs(tree, name, owner):
    for n in tree.body:
        if isinstance(n, ast.Assign) and any(isinstance(t, ast.Name) and t.id == name for t in n.targets):
            if not isinstance(n.value, ast.List):
                raise ExtractError(f'{name} is not a list literal')
            res = []
            for e in n.value.elts:
                if not (isinstance(e, ast.Attribute) and isinstance(e.value, ast.Name) and e.value.id == owner):
                    raise ExtractError(f'{name}: unrecognised element {ast.unparse(e)}')
                res.append(e.attr)
            return res
    raise ExtractError(f'{name} not found')


def _const(tree, name):
    for n in tree.body:
        tgt = None
        if isinstance(n, ast.Assign) and len(n.targets) == 1 and isinstance(n.targets[0], ast.Name):
            tgt, val = n.targets[0].id, n.value
        elif isinstance(n, ast.AnnAssign) and isinstance(n.target, ast.Name):
            tgt, val = n.target.id, n.value
        if tgt == name:
            return ast.literal_eval(val)
    raise ExtractError(f'{name} not found')


def _strs(l):
    return '[' + ', '.join(lean_string(x) for x in l) + ']'


def generate(repo):
    fsrc = (repo / 'src/srctools/fgd.py').read_text(encoding='utf-8')
    ftree = ast.parse(fsrc)
    wl = _body_src(_func(ftree, '_write_longstring'))
    m = re.fullmatch(_WL_TEMPLATE, wl)
    if not m:
        raise ExtractError('_write_longstring: body no longer matches the modelled shape:\n' + wl)
    if _body_src(_func(ftree, '_fgd_escape')) != _ESC_BODY:
        raise ExtractError('_fgd_escape: body no longer matches the modelled shape:\n' + _body_src(_func(ftree, '_fgd_escape')))
    # tokenizer options of FGD.parse_file
    cls = next(n for n in ftree.body if isinstance(n, ast.ClassDef) and n.name == 'FGD')
    pf = next(n for n in cls.body if isinstance(n, ast.FunctionDef) and n.name == 'parse_file')
    calls = [c for c in ast.walk(pf) if isinstance(c, ast.Call) and isinstance(c.func, ast.Name) and c.func.id == 'Tokenizer']
    if len(calls) != 1:
        raise ExtractError('FGD.parse_file: expected one Tokenizer(...) call')
    kws = {}
    for k in calls[0].keywords:
        if k.arg in ('filename', 'error'):
            continue
        if not isinstance(k.value, ast.Constant) or not isinstance(k.value.value, bool):
            raise ExtractError('FGD.parse_file: Tokenizer option is not a literal bool: ' + str(k.arg))
        kws[k.arg] = k.value.value
    known = ['string_bracket', 'string_parens', 'allow_escapes', 'allow_star_comments', 'preserve_comments',
             'colon_operator', 'plus_operator']
    if set(kws) - set(known):
        raise ExtractError('FGD.parse_file: unknown Tokenizer options ' + str(sorted(set(kws) - set(known))))
    defaults = {'string_bracket': False, 'string_parens': True, 'allow_escapes': True, 'allow_star_comments': False,
                'preserve_comments': False, 'colon_operator': False, 'plus_operator': False}
    # defaults are those of Tokenizer.__init__
    ttree = ast.parse((repo / 'src/srctools/tokenizer.py').read_text(encoding='utf-8'))
    tcls = next(n for n in ttree.body if isinstance(n, ast.ClassDef) and n.name == 'Tokenizer')
    init = next(n for n in tcls.body if isinstance(n, ast.FunctionDef) and n.name == '__init__')
    for a, d in zip(init.args.kwonlyargs, init.args.kw_defaults):
        if a.arg in defaults:
            if not isinstance(d, ast.Constant) or not isinstance(d.value, bool):
                raise ExtractError('Tokenizer.__init__: default of ' + a.arg)
            defaults[a.arg] = d.value
    pos_names = [a.arg for a in init.args.args]
    for a, d in zip(init.args.args[len(init.args.args) - len(init.args.defaults):], init.args.defaults):
        if a.arg in defaults and isinstance(d, ast.Constant) and isinstance(d.value, bool):
            defaults[a.arg] = d.value
    opts = [kws.get(k, defaults[k]) for k in known]

    # value types
    vt_members, _ = _enum_members(ftree, 'ValueTypes')
    vt_canon = {n: c for n, c in vt_members}
    vt_names = []
    for n, c in vt_members:
        if c not in vt_names:
            vt_names.append(c)
    et_members, et_cls = _enum_members(ftree, 'EntityTypes')
    et_names = [n for n, c in et_members if n == c]

    esrc = (repo / 'src/srctools/_engine_db.py').read_text(encoding='utf-8')
    etree = ast.parse(esrc)
    vorder = _list_of_attrs(etree, 'VALUE_TYPE_ORDER', 'ValueTypes')
    for v in vorder:
        if v not in vt_canon:
            raise ExtractError(f'VALUE_TYPE_ORDER names unknown ValueTypes.{v}')
    vorder_c = [vt_canon[v] for v in vorder]
    ctree = ast.parse((repo / 'src/srctools/const.py').read_text(encoding='utf-8'))
    ft_members, _ = _enum_members(ctree, 'FileType')
    ft_canon = {n: c for n, c in ft_members}
    ft_names = []
    for n, c in ft_members:
        if c not in ft_names:
            ft_names.append(c)
    forder = _list_of_attrs(etree, 'FILE_TYPE_ORDER', 'FileType')
    for v in forder:
        if v not in ft_canon:
            raise ExtractError(f'FILE_TYPE_ORDER names unknown FileType.{v}')
    forder_c = [ft_canon[v] for v in forder]
    shared = _const(etree, 'SHARED_STRINGS')
    sep = _const(etree, 'STRING_SEP')
    version = _const(etree, 'BIN_FORMAT_VERSION')
    ef = next((n for n in etree.body if isinstance(n, ast.ClassDef) and n.name == 'EntFlags'), None)
    if ef is None:
        raise ExtractError('EntFlags not found')
    efl = []
    for n in ef.body:
        if isinstance(n, ast.Assign) and isinstance(n.value, ast.Constant) and isinstance(n.value.value, int):
            efl.append((n.targets[0].id, n.value.value))
    efd = dict(efl)
    # ENTITY_TYPE_2_FLAG = {kind: EntFlags['TYPE_' + kind.name] for kind in EntityTypes}
    m2 = re.search(r"ENTITY_TYPE_2_FLAG[^=]*=\s*\{\s*kind:\s*EntFlags\['TYPE_' \+ kind\.name\]\s*for kind in EntityTypes\s*\}", esrc)
    if not m2:
        raise ExtractError('ENTITY_TYPE_2_FLAG: unrecognised construction')
    ent_flags = []
    for nme in et_names:
        if 'TYPE_' + nme not in efd:
            raise ExtractError(f'EntFlags.TYPE_{nme} missing')
        ent_flags.append((nme, efd['TYPE_' + nme]))
    for req in ('MASK_TYPE', 'IS_ALIAS'):
        if req not in efd:
            raise ExtractError(f'EntFlags.{req} missing')

    vt_values = _enum_values(ftree, 'ValueTypes')
    for mem in vt_names:
        if not isinstance(vt_values.get(mem), str):
            raise ExtractError(f'ValueTypes.{mem}: value is not a string literal')
    decay = _io_decay(ftree, vt_names, vt_canon, vt_values)
    extra = _lookup_aliases(ftree, vt_canon)
    # python dict semantics of VALUE_TYPE_LOOKUP: later entries override earlier ones with the same key
    lookup = {}
    for mem in vt_names:
        lookup[vt_values[mem]] = vt_names.index(mem)
    for k_, mem in extra:
        lookup[k_] = vt_names.index(mem)
    io_text = ['bool' if mem == 'BOOL' else vt_values[decay[mem]] for mem in vt_names]
    for req in ('SPAWNFLAGS', 'CHOICES', 'BOOL', 'EHANDLE'):
        if req not in vt_canon:
            raise ExtractError(f'ValueTypes.{req} missing')
    from extract import lean_str_chars
    # entity syntax tables
    et_values = _enum_values(ftree, 'EntityTypes')
    kinds = []
    for nme in et_names:
        v = et_values.get(nme)
        if not isinstance(v, str):
            raise ExtractError(f'EntityTypes.{nme}: value is not a string literal')
        kinds.append((v.title().replace('class', 'Class'), v))
    if 'EXTEND' not in et_names:
        raise ExtractError('EntityTypes.EXTEND missing')
    # the export line:  file.write(f'@{self.type.value.title().replace("class", "Class")} ')
    if "self.type.value.title().replace('class', 'Class')" not in ast.unparse(ftree):
        raise ExtractError('EntityDef.export: the @Kind spelling is no longer value.title().replace("class", "Class")')
    ht_members, _ = _enum_members(ftree, 'HelperTypes')
    ht_values = _enum_values(ftree, 'HelperTypes')
    helper_types = []
    for n_, c_ in ht_members:
        if n_ == c_:
            helper_types.append(ht_values[n_])
    htree = ast.parse((repo / 'src/srctools/_fgd_helpers.py').read_text(encoding='utf-8'))
    ext_helpers = []
    for n_ in htree.body:
        if isinstance(n_, ast.ClassDef):
            is_ext, typ = False, None
            for st_ in n_.body:
                if isinstance(st_, ast.AnnAssign) and isinstance(st_.target, ast.Name):
                    if st_.target.id == 'IS_EXTENSION' and isinstance(st_.value, ast.Constant):
                        is_ext = bool(st_.value.value)
                    if st_.target.id == 'TYPE' and isinstance(st_.value, ast.Attribute):
                        typ = st_.value.attr
            if is_ext:
                if typ is None or typ not in ht_values:
                    raise ExtractError(f'{n_.name}: IS_EXTENSION helper without a HelperTypes TYPE')
                ext_helpers.append(ht_values[typ])
    rbn = None
    for n_ in ftree.body:
        if isinstance(n_, ast.Assign) and any(isinstance(t, ast.Name) and t.id == 'RESTYPE_BY_NAME' for t in n_.targets):
            rbn = n_.value
    if not isinstance(rbn, ast.Dict):
        raise ExtractError('RESTYPE_BY_NAME is not a dict literal')
    res_by_name = []
    for k_, v_ in zip(rbn.keys, rbn.values):
        if not (isinstance(k_, ast.Constant) and isinstance(k_.value, str) and isinstance(v_, ast.Attribute) and v_.attr in ft_canon):
            raise ExtractError('RESTYPE_BY_NAME: unrecognised entry')
        res_by_name.append((k_.value, ft_names.index(ft_canon[v_.attr])))
    if "RESTYPE_TO_NAME = {restype: name for name, restype in RESTYPE_BY_NAME.items()}" not in ast.unparse(ftree):
        raise ExtractError('RESTYPE_TO_NAME: unrecognised construction')
    res_names = [''] * len(ft_names)
    for k_, i_ in res_by_name:
        res_names[i_] = k_          # later names win

    L = []
    L.append('import Srctools.Model.C16')
    L.append('import Srctools.Model.C16Bin')
    L.append('import Srctools.Model.C16KV')
    L.append('import Srctools.Model.C16Ent')
    L.append('/-! GENERATED by tools/gen_fgdw.py from src/srctools/fgd.py, _engine_db.py, const.py — do not edit. -/')
    L.append('namespace Gen.Fgdw')
    L.append('')
    L.append('/-- `_write_longstring`: LIMIT, the `> n` threshold of the `\\n` rule, whether the hard cut is guarded')
    L.append('against separating an escape pair, whether an empty text is written as `""`. -/')
    L.append('def longCfg : C16.LongCfg where')
    L.append(f'  limit := {int(m.group("limit"))}')
    L.append(f'  small := {int(m.group("small"))}')
    L.append(f'  backoff := {"true" if m.group("backoff") else "false"}')
    L.append(f'  emptyQuotes := {"true" if m.group("empty") else "false"}')
    L.append('')
    L.append('/-- Options of the `Tokenizer(...)` call in `FGD.parse_file` (defaults from `Tokenizer.__init__`). -/')
    L.append('def parseOpts : Tok.Opts where')
    for k, lean in zip(known, ['stringBracket', 'stringParens', 'allowEscapes', 'allowStarComments', 'preserveComments', 'colonOperator', 'plusOperator']):
        L.append(f'  {lean} := {"true" if opts[known.index(k)] else "false"}')
    L.append('')
    L.append('/-- Canonical member names of `ValueTypes` (aliases resolved), in definition order. -/')
    L.append('def valueTypes : List String := ' + _strs(vt_names))
    L.append('/-- `VALUE_TYPE_ORDER` (canonical names). -/')
    L.append('def valueTypeOrder : List String := ' + _strs(vorder_c))
    L.append('/-- Canonical member names of `FileType`. -/')
    L.append('def fileTypes : List String := ' + _strs(ft_names))
    L.append('/-- `FILE_TYPE_ORDER` (canonical names). -/')
    L.append('def fileTypeOrder : List String := ' + _strs(forder_c))
    L.append('/-- `ENTITY_TYPE_2_FLAG` as (EntityTypes member, flag value). -/')
    L.append('def entityFlags : List (String × Nat) := [' + ', '.join(f'({lean_string(n)}, {v})' for n, v in ent_flags) + ']')
    L.append(f'def maskType : Nat := {efd["MASK_TYPE"]}')
    L.append(f'def isAlias : Nat := {efd["IS_ALIAS"]}')
    L.append(f'def sharedStrings : Nat := {int(shared)}')
    L.append(f'def stringSep : Nat := {ord(sep)}')
    L.append(f'def binFormatVersion : Nat := {int(version)}')
    L.append('')
    L.append('/-- `VALUE_TYPE_INDEX[t]`: a dict comprehension keeps the LAST position of a repeated member. -/')
    L.append('def lastIdx (l : List String) (t : String) : Option Nat :=')
    L.append('  let i := l.reverse.idxOf t')
    L.append('  if i < l.length then some (l.length - 1 - i) else none')
    L.append('')
    L.append('def typeCfg : C16.Bin.TypeCfg where')
    L.append('  choices := (lastIdx valueTypeOrder "CHOICES").getD 0')
    L.append('  spawnflags := (lastIdx valueTypeOrder "SPAWNFLAGS").getD 0')
    L.append('  nTypes := valueTypeOrder.length')
    L.append('  nFileTypes := fileTypeOrder.length')
    L.append('')
    L.append('/-- Text side of the value types: `.value` per canonical member, `VALUE_TYPE_LOOKUP`, what `IODef.export`')
    L.append('writes (`bool` for BOOL, else the value of `VALUE_TO_IO_DECAY[type]`). -/')
    L.append('def typeTab : C16.KV.TypeTab where')
    L.append('  values := [' + ', '.join(lean_str_chars(vt_values[mem]) for mem in vt_names) + ']')
    L.append('  lookup := [' + ', '.join(f'({lean_str_chars(k_)}, {v})' for k_, v in lookup.items()) + ']')
    L.append('  ioText := [' + ', '.join(lean_str_chars(t) for t in io_text) + ']')
    L.append(f'  spawnflags := {vt_names.index("SPAWNFLAGS")}')
    L.append(f'  choices := {vt_names.index("CHOICES")}')
    L.append(f'  bool := {vt_names.index("BOOL")}')
    L.append(f'  ehandle := {vt_names.index(vt_canon["EHANDLE"])}')
    L.append('')
    L.append('/-- Entity syntax: `@Kind` words, helper names, resource type names. -/')
    L.append('def entTab : C16.KV.EntTab where')
    L.append('  kinds := [' + ', '.join(f'({lean_str_chars(w)}, {lean_str_chars(v)})' for w, v in kinds) + ']')
    L.append(f'  extend := {et_names.index("EXTEND")}')
    L.append('  helperTypes := [' + ', '.join(lean_str_chars(v) for v in helper_types) + ']')
    L.append('  extHelpers := [' + ', '.join(lean_str_chars(v) for v in ext_helpers) + ']')
    L.append('  resNames := [' + ', '.join(lean_str_chars(v) for v in res_names) + ']')
    L.append('  resByName := [' + ', '.join(f'({lean_str_chars(k_)}, {i_})' for k_, i_ in res_by_name) + ']')
    L.append('')
    L.append('end Gen.Fgdw')
    return '\n'.join(L) + '\n'
