#!/bin/sh
# usage: tools/lbuild.sh <lake targets...>   — `lake build` under the same lock the checks use, with a timeout.
HERE="$(cd "$(dirname "$0")/.." && pwd)"
mkdir -p "$HERE/lean/.lake"
exec 9>"$HERE/lean/.lake/verif.lock"
flock 9
cd "$HERE/lean" && timeout "${LBUILD_TIMEOUT:-1500}" lake build "$@"
