"""Gen.Save (C12): static shape of `AtomicWriter` (src/srctools/__init__.py) and of the file-system
sites of src/srctools/bsp.py / `BSP.save`.  `ast` only; raises ExtractError when the shape of the
writer is no longer understood (the Gen file is then left untouched and the obligation counts as broken).

What is extracted
  impl.exclusive     every `open` mode used for the temp file contains 'x'
  impl.start         `itertools.count(start=K)`
  impl.closeGuard    the `temp.__exit__(…)` call of `AtomicWriter.__exit__` sits in a `try` whose handler
                     (BaseException/Exception/OSError/bare) unlinks the temp file and re-raises
  impl.replaceGuard  same for the `….replace(self.filename)` call
  impl.resetTemp     `self.temp = None` is assigned on every path through `__exit__` (before the close, or in a finally)
  impl.staleMissingOk  make_tempfile's stale clean-up `Path(self.temp.name).unlink(missing_ok=True)`
  sites              every file-system mutating call of bsp.py and every write on a file-like object in BSP.save
"""
import ast
from extract import ExtractError, lean_string

CATCH_ALL = {None, 'BaseException', 'Exception', 'OSError'}
OS_MUTATORS = {'replace', 'rename', 'renames', 'remove', 'unlink', 'rmdir', 'removedirs', 'mkdir', 'makedirs',
               'truncate', 'link', 'symlink', 'open', 'write', 'pwrite', 'ftruncate', 'mkfifo', 'mknod'}
PATH_MUTATORS = {'write_bytes', 'write_text', 'unlink', 'touch', 'rmdir', 'mkdir', 'symlink_to', 'hardlink_to',
                 'link_to'}
FILE_WRITES = {'write', 'writelines', 'seek', 'truncate'}


def _parents(tree):
    par = {}
    for n in ast.walk(tree):
        for c in ast.iter_child_nodes(n):
            par[c] = n
    return par


def _class(tree, name):
    for n in tree.body:
        if isinstance(n, ast.ClassDef) and n.name == name:
            return n
    raise ExtractError(f'class {name} not found')


def _method(cls, name):
    for n in cls.body:
        if isinstance(n, ast.FunctionDef) and n.name == name:
            return n
    raise ExtractError(f'{cls.name}.{name} not found')


def _handler_names(h):
    if h.type is None:
        return [None]
    if isinstance(h.type, ast.Tuple):
        return [ast.unparse(e) for e in h.type.elts]
    return [ast.unparse(h.type)]


def _contains_unlink(stmts, cls, depth=0):
    """An `.unlink(` call, directly or through `self.<method>()` of the same class."""
    for s in stmts:
        for n in ast.walk(s):
            if isinstance(n, ast.Call) and isinstance(n.func, ast.Attribute):
                if n.func.attr == 'unlink':
                    return True
                if depth < 2 and isinstance(n.func.value, ast.Name) and n.func.value.id == 'self':
                    for m in cls.body:
                        if isinstance(m, ast.FunctionDef) and m.name == n.func.attr and _contains_unlink(m.body, cls, depth + 1):
                            return True
    return False


def _reraises(stmts):
    return any(isinstance(n, ast.Raise) and n.exc is None for s in stmts for n in ast.walk(s))


def _guarded(node, par, cls, stop):
    """node lies in the body of a `try` (below `stop`) with a catch-all handler that unlinks and re-raises,
    or with a `finally` that unlinks."""
    child, cur = node, par.get(node)
    while cur is not None and cur is not stop:
        if isinstance(cur, ast.Try) and any(child is s for s in cur.body):
            for h in cur.handlers:
                if set(_handler_names(h)) & CATCH_ALL and _contains_unlink(h.body, cls) and _reraises(h.body):
                    return True
            if cur.finalbody and _contains_unlink(cur.finalbody, cls):
                return True
        child, cur = cur, par.get(cur)
    return False


def _stmt_child(node, par, stop):
    """The ancestors of node up to stop (list, innermost first)."""
    out, cur = [], node
    while cur is not None and cur is not stop:
        out.append(cur)
        cur = par.get(cur)
    return out


def _writer_shape(repo):
    src = (repo / 'src/srctools/__init__.py').read_text(encoding='utf-8')
    tree = ast.parse(src)
    cls = _class(tree, 'AtomicWriter')
    par = _parents(cls)
    # ---- make_tempfile
    mk = _method(cls, 'make_tempfile')
    loops = [n for n in ast.walk(mk) if isinstance(n, ast.For)]
    if len(loops) != 1:
        raise ExtractError('make_tempfile: expected exactly one for loop')
    loop = loops[0]
    it = loop.iter
    if not (isinstance(it, ast.Call) and ast.unparse(it.func) in ('_itertools.count', 'itertools.count', 'count')):
        raise ExtractError('make_tempfile: loop is not itertools.count(...): ' + ast.unparse(it))
    start = 0
    if it.args:
        start = ast.literal_eval(it.args[0])
    for kw in it.keywords:
        if kw.arg == 'start':
            start = ast.literal_eval(kw.value)
        elif kw.arg == 'step':
            raise ExtractError('make_tempfile: count(step=...) not understood')
    if not isinstance(start, int) or start < 0 or not isinstance(loop.target, ast.Name):
        raise ExtractError('make_tempfile: start/loop variable not understood')
    ivar = loop.target.id
    names = [n for n in loop.body if isinstance(n, ast.Assign) and ast.unparse(n.targets[0]) == 'self._temp_name']
    if len(names) != 1:
        raise ExtractError('make_tempfile: no single assignment to self._temp_name in the loop')
    v = names[0].value
    ok = (isinstance(v, ast.Call) and ast.unparse(v.func) == 'self.filename.with_name' and len(v.args) == 1
          and isinstance(v.args[0], ast.JoinedStr) and len(v.args[0].values) == 2
          and isinstance(v.args[0].values[0], ast.Constant) and v.args[0].values[0].value == 'tmp_'
          and isinstance(v.args[0].values[1], ast.FormattedValue) and ast.unparse(v.args[0].values[1].value) == ivar
          and v.args[0].values[1].conversion == -1 and v.args[0].values[1].format_spec is None)
    if not ok:
        raise ExtractError("make_tempfile: temp name is not self.filename.with_name(f'tmp_{i}'): " + ast.unparse(v))
    tries = [n for n in loop.body if isinstance(n, ast.Try)]
    if len(tries) != 1 or tries[0].finalbody or tries[0].orelse:
        raise ExtractError('make_tempfile: expected one try/except in the loop')
    tr = tries[0]
    modes = []
    for n in ast.walk(tr):
        if isinstance(n, ast.Call) and isinstance(n.func, ast.Attribute) and n.func.attr == 'open':
            if ast.unparse(n.func.value) != 'self._temp_name' or not n.args or not isinstance(n.args[0], ast.Constant) \
                    or not isinstance(n.args[0].value, str):
                raise ExtractError('make_tempfile: open call not understood: ' + ast.unparse(n))
            modes.append(n.args[0].value)
        elif isinstance(n, ast.Call) and ast.unparse(n.func) in ('open', 'io.open', 'os.open', 'os.fdopen'):
            raise ExtractError('make_tempfile: open call not understood: ' + ast.unparse(n))
    if not modes:
        raise ExtractError('make_tempfile: no self._temp_name.open(...) call')
    if not isinstance(tr.body[-1], ast.Break):
        raise ExtractError('make_tempfile: try body does not end in break')
    retry = []
    for h in tr.handlers:
        if not all(isinstance(s, (ast.Pass, ast.Continue)) for s in h.body):
            raise ExtractError('make_tempfile: handler body is not pass/continue')
        retry += _handler_names(h)
    if retry != ['FileExistsError']:
        raise ExtractError(f'make_tempfile: retries on {retry}, expected [FileExistsError]')
    pre = [ast.unparse(s) for s in mk.body if not isinstance(s, (ast.For, ast.Expr)) or
           (isinstance(s, ast.Expr) and not isinstance(s.value, ast.Constant))]
    mkdirs = [p for p in pre if 'mkdir' in p]
    if mkdirs != ['self.filename.parent.mkdir(parents=True, exist_ok=True)']:
        raise ExtractError(f'make_tempfile: mkdir call not understood: {mkdirs}')
    exclusive = all('x' in m for m in modes)
    # the "already open" clean-up at the top of make_tempfile
    stale = [n for n in mk.body if isinstance(n, ast.If) and ast.unparse(n.test) == 'self.temp is not None']
    if len(stale) != 1 or stale[0].orelse or mk.body.index(stale[0]) > 1:
        raise ExtractError('make_tempfile: no leading `if self.temp is not None:` clean-up block')
    calls = [ast.unparse(st) for st in stale[0].body]
    unl = [n for st in stale[0].body for n in ast.walk(st)
           if isinstance(n, ast.Call) and isinstance(n.func, ast.Attribute) and n.func.attr == 'unlink']
    if len(stale[0].body) != 2 or calls[0] != 'self.temp.close()' or len(unl) != 1 \
            or ast.unparse(unl[0].func.value) != 'Path(self.temp.name)' or unl[0].args:
        raise ExtractError(f'make_tempfile: stale clean-up not understood: {calls}')
    stale_missing_ok = False
    for kw in unl[0].keywords:
        if kw.arg == 'missing_ok' and isinstance(kw.value, ast.Constant):
            stale_missing_ok = bool(kw.value.value)
        else:
            raise ExtractError('make_tempfile: stale clean-up unlink arguments not understood')
    # nothing else may survive between uses: every `self.<attr> = …` of the class is one of the known fields
    for fn in cls.body:
        if isinstance(fn, ast.FunctionDef):
            for n in ast.walk(fn):
                if isinstance(n, ast.Attribute) and isinstance(n.ctx, ast.Store) and isinstance(n.value, ast.Name) \
                        and n.value.id == 'self' and n.attr not in ('filename', 'encoding', '_temp_name', 'is_bytes', 'temp'):
                    raise ExtractError(f'AtomicWriter.{fn.name}: assignment to unknown attribute self.{n.attr}')
    # _temp_name must be (re)assigned by the loop before anything reads it in make_tempfile
    for n in ast.walk(mk):
        if isinstance(n, ast.Attribute) and n.attr == '_temp_name' and isinstance(n.ctx, ast.Load) \
                and not any(n in set(ast.walk(st)) for st in loop.body):
            raise ExtractError('make_tempfile: self._temp_name is read outside the probing loop (carried between uses?)')
    if any(isinstance(n, ast.Return) for n in ast.walk(mk)):
        raise ExtractError('make_tempfile: early return not understood')
    # ---- __enter__
    en = _method(cls, '__enter__')
    en_src = [ast.unparse(s) for s in en.body if not (isinstance(s, ast.Expr) and isinstance(s.value, ast.Constant))]
    if not en_src or en_src[0] != 'self.make_tempfile()' or en_src[-1] != 'return self.temp.__enter__()':
        raise ExtractError('__enter__: not make_tempfile(); return self.temp.__enter__(): ' + '; '.join(en_src))
    # ---- __exit__
    ex = _method(cls, '__exit__')
    exc_name = ex.args.args[1].arg if len(ex.args.args) >= 2 else None
    closes = [n for n in ast.walk(ex) if isinstance(n, ast.Call) and isinstance(n.func, ast.Attribute) and n.func.attr in ('__exit__', 'close')]
    if len(closes) != 1:
        raise ExtractError(f'__exit__: expected exactly one close/__exit__ call on the temp file, found {len(closes)}')
    repl = [n for n in ast.walk(ex) if isinstance(n, ast.Call) and isinstance(n.func, ast.Attribute)
            and n.func.attr in ('replace', 'rename') and len(n.args) == 1]
    os_repl = [n for n in ast.walk(ex) if isinstance(n, ast.Call) and ast.unparse(n.func) in ('os.replace', 'os.rename', 'shutil.move')]
    if len(repl) != 1 or os_repl or ast.unparse(repl[0].func.value) != 'self._temp_name' or ast.unparse(repl[0].args[0]) != 'self.filename' \
            or repl[0].func.attr != 'replace':
        raise ExtractError('__exit__: commit is not a single self._temp_name.replace(self.filename)')
    # the replace must be on the `exc_type is None` side, the body-failure unlink on the other side
    def side(node):
        """'none' / 'some' / None: which side of an `exc_type is [not] None` test the node is on."""
        chain = _stmt_child(node, par, ex)
        for inner, outer in zip(chain, chain[1:]):
            if isinstance(outer, ast.If):
                t = ast.unparse(outer.test)
                inbody = any(inner is s for s in outer.body)
                if t == f'{exc_name} is not None':
                    return 'some' if inbody else 'none'
                if t == f'{exc_name} is None':
                    return 'none' if inbody else 'some'
        return None
    if side(repl[0]) != 'none':
        raise ExtractError('__exit__: replace is not under `exc_type is None`')
    if side(closes[0]) is not None:
        raise ExtractError('__exit__: the close depends on exc_type')
    # order: close before replace
    if (closes[0].lineno, closes[0].col_offset) >= (repl[0].lineno, repl[0].col_offset):
        raise ExtractError('__exit__: close does not precede replace')
    unl = [n for n in ast.walk(ex) if isinstance(n, ast.Call) and isinstance(n.func, ast.Attribute) and n.func.attr == 'unlink'
           and side(n) == 'some']
    if len(unl) != 1 or ast.unparse(unl[0].func.value) != 'self._temp_name':
        raise ExtractError('__exit__: no single self._temp_name.unlink() on the exception side')
    p = par.get(par.get(unl[0]))
    sw = []
    if isinstance(p, ast.Try) and any(par.get(unl[0]) is s for s in p.body):
        for h in p.handlers:
            sw += _handler_names(h)
    if sw != ['FileNotFoundError']:
        raise ExtractError(f'__exit__: the clean-up unlink swallows {sw}, expected [FileNotFoundError]')
    # does every path through __exit__ leave self.temp = None?
    def _resets(st):
        if not isinstance(st, ast.Assign) or len(st.targets) != 1:
            return False
        t, v = st.targets[0], st.value
        if ast.unparse(t) == 'self.temp':
            return isinstance(v, ast.Constant) and v.value is None
        if isinstance(t, ast.Tuple) and isinstance(v, ast.Tuple) and len(t.elts) == len(v.elts):
            return any(ast.unparse(a) == 'self.temp' and isinstance(b, ast.Constant) and b.value is None
                       for a, b in zip(t.elts, v.elts))
        return False
    reset = False
    chain = _stmt_child(closes[0], par, ex)
    for inner, outer in zip(chain, chain[1:] + [ex]):
        for field in ('body', 'orelse', 'finalbody'):
            block = getattr(outer, field, None)
            if isinstance(block, list) and any(inner is st for st in block):
                idx = [i for i, st in enumerate(block) if st is inner][0]
                if any(_resets(st) for st in block[:idx]) and not isinstance(outer, (ast.Try, ast.For, ast.While)):
                    reset = True
        if isinstance(outer, ast.Try) and any(inner is st for st in outer.body) and any(_resets(st) for st in outer.finalbody):
            reset = True
    close_guard = _guarded(closes[0], par, cls, ex)
    repl_guard = _guarded(repl[0], par, cls, ex)
    return {'exclusive': exclusive, 'start': start, 'closeGuard': close_guard, 'replaceGuard': repl_guard,
            'modes': modes, 'resetTemp': reset, 'staleMissingOk': stale_missing_ok}


def _mode_of(call, pos):
    m = None
    if len(call.args) > pos:
        m = call.args[pos]
    for kw in call.keywords:
        if kw.arg == 'mode':
            m = kw.value
    if m is None:
        return 'r'
    if isinstance(m, ast.Constant) and isinstance(m.value, str):
        return m.value
    return None


def _is_bytesio(expr, local_bytesio):
    if isinstance(expr, ast.Call) and ast.unparse(expr.func) in ('BytesIO', 'io.BytesIO'):
        return True
    return isinstance(expr, ast.Name) and expr.id in local_bytesio


def _bsp_sites(repo):
    src = (repo / 'src/srctools/bsp.py').read_text(encoding='utf-8')
    tree = ast.parse(src)
    par = _parents(tree)
    cls = _class(tree, 'BSP')
    save = _method(cls, 'save')

    def in_save(n):
        cur = n
        while cur is not None:
            if cur is save:
                return True
            cur = par.get(cur)
        return False

    def func_of(n):
        cur = par.get(n)
        while cur is not None and not isinstance(cur, (ast.FunctionDef, ast.AsyncFunctionDef, ast.Lambda)):
            cur = par.get(cur)
        return cur

    sites = []

    def add(kind, node, in_writer=False, what=None):
        sites.append((kind, in_save(node), in_writer, node.lineno, what or ast.unparse(node)[:70]))

    # the `with AtomicWriter(...) as f` of save
    withs = []
    for n in ast.walk(save):
        if isinstance(n, ast.With):
            for item in n.items:
                ce = item.context_expr
                if isinstance(ce, ast.Call) and ast.unparse(ce.func) in ('AtomicWriter', 'srctools.AtomicWriter'):
                    withs.append((n, item))
    target_ok = False
    wvar, wnode, defer_vars = None, None, set()
    if len(withs) == 1:
        wnode, item = withs[0]
        ce = item.context_expr
        if ce.args and ast.unparse(ce.args[0]) == 'filename or self.filename' and len(wnode.items) == 1:
            target_ok = True
        if isinstance(item.optional_vars, ast.Name):
            wvar = item.optional_vars.id

    def inside_with(n):
        cur = n
        while cur is not None and cur is not save:
            p = par.get(cur)
            if p is wnode and any(cur is s for s in wnode.body):
                return True
            cur = p
        return False

    # local BytesIO names per function; DeferredWrites(f) names in save
    bytesio = {}
    for n in ast.walk(tree):
        if isinstance(n, (ast.Assign, ast.AnnAssign)) and n.value is not None:
            tg = n.targets if isinstance(n, ast.Assign) else [n.target]
            names = []
            for t in tg:
                if isinstance(t, ast.Name):
                    names.append(t.id)
                elif isinstance(t, ast.Tuple) and all(isinstance(e, ast.Name) for e in t.elts):
                    names += [e.id for e in t.elts]
            f = func_of(n)
            vals = [n.value]
            if isinstance(n.value, ast.Tuple):
                vals = list(n.value.elts)
            if names and all(isinstance(v, ast.Call) and ast.unparse(v.func) in ('BytesIO', 'io.BytesIO') for v in vals):
                bytesio.setdefault(f, set()).update(names)
            if wvar and in_save(n) and isinstance(n.value, ast.Call) and ast.unparse(n.value.func) == 'DeferredWrites' \
                    and len(n.value.args) == 1 and isinstance(n.value.args[0], ast.Name) and n.value.args[0].id == wvar \
                    and len(names) == 1 and inside_with(n):
                defer_vars.add(names[0])

    for n in ast.walk(tree):
        if not isinstance(n, ast.Call):
            continue
        fn = ast.unparse(n.func)
        if fn in ('open', 'io.open', 'builtins.open'):
            mode = _mode_of(n, 1)
            add('openRead' if mode is not None and not (set(mode) & set('wax+')) else 'openWrite', n)
        elif isinstance(n.func, ast.Attribute) and n.func.attr == 'open' and fn not in ('os.open',):
            # Path.open / ZipFile.open / filesystem File.open: mode is the first argument
            mode = _mode_of(n, 0)
            add('openRead' if mode is not None and not (set(mode) & set('wax+')) else 'openWrite', n)
        elif fn.startswith('os.') and fn[3:] in OS_MUTATORS or fn.startswith('shutil.'):
            add('osMutate', n)
        elif isinstance(n.func, ast.Attribute) and n.func.attr in PATH_MUTATORS:
            add('pathMutate', n)
        elif isinstance(n.func, ast.Attribute) and n.func.attr in ('replace', 'rename') and len(n.args) == 1 and not n.keywords:
            add('pathMutate', n)       # str.replace takes two arguments
        elif fn in ('ZipFile', 'zipfile.ZipFile'):
            first = n.args[0] if n.args else None
            if first is None or not _is_bytesio(first, bytesio.get(func_of(n), set())):
                add('zipOnPath', n)
        elif fn in ('AtomicWriter', 'srctools.AtomicWriter'):
            is_item = any(n is it.context_expr for w in ast.walk(tree) if isinstance(w, ast.With) for it in w.items)
            add('atomicWriter', n, in_writer=is_item)
        elif in_save(n) and isinstance(n.func, ast.Attribute) and n.func.attr in FILE_WRITES:
            recv = n.func.value
            if isinstance(recv, ast.Name) and wvar and recv.id == wvar:
                add('fileWrite', n, in_writer=inside_with(n))
            elif isinstance(recv, ast.Name) and recv.id in defer_vars:
                add('fileWrite', n, in_writer=inside_with(n))
            elif isinstance(recv, ast.Name) and recv.id in bytesio.get(save, set()):
                add('memoryWrite', n)
            else:
                add('unknown', n)
        elif in_save(n) and wvar:
            # the file object handed to something else than DeferredWrites / or used outside the with
            for a in list(n.args) + [k.value for k in n.keywords]:
                if isinstance(a, ast.Name) and a.id == wvar and fn != 'DeferredWrites':
                    add('escape', n)
    # any use of the file variable or the deferred writer outside the with body
    if wvar:
        for n in ast.walk(save):
            if isinstance(n, ast.Name) and n.id in ({wvar} | defer_vars) and isinstance(n.ctx, ast.Load) and not inside_with(n):
                add('escape', n, what=f'{n.id} used outside the with body')
    # defer(..., write=True) / defer.write() are covered by FILE_WRITES ('write'); `defer.defer(…)` writes too
    for n in ast.walk(save):
        if isinstance(n, ast.Call) and isinstance(n.func, ast.Attribute) and n.func.attr == 'defer' \
                and isinstance(n.func.value, ast.Name):
            if n.func.value.id in defer_vars:
                add('fileWrite', n, in_writer=inside_with(n))
            else:
                add('unknown', n)
    sites.sort(key=lambda s: (s[3], s[0]))
    return sites, target_ok


def generate(repo):
    shape = _writer_shape(repo)
    sites, target_ok = _bsp_sites(repo)
    b = lambda x: 'true' if x else 'false'
    L = ['import Srctools.Model.C12',
         '/-! GENERATED by tools/gen_save.py from src/srctools/__init__.py (AtomicWriter) and src/srctools/bsp.py — do not edit. -/',
         'namespace Gen.Save',
         '',
         '/-- Shape of `AtomicWriter` as it is in the source now. -/',
         'def impl : C12.Impl :=',
         f"  {{ exclusive := {b(shape['exclusive'])}, closeGuard := {b(shape['closeGuard'])}, "
         f"replaceGuard := {b(shape['replaceGuard'])}, start := {shape['start']},",
         f"    resetTemp := {b(shape['resetTemp'])}, staleMissingOk := {b(shape['staleMissingOk'])} }}",
         '',
         '/-- Modes the temp file is opened with. -/',
         'def openModes : List String := [' + ', '.join(lean_string(m) for m in shape['modes']) + ']',
         '',
         '/-- `with AtomicWriter(filename or self.filename, …)` is the only writer of `BSP.save`. -/',
         f'def targetIsFilename : Bool := {b(target_ok)}',
         '',
         '/-- File-system sites of bsp.py and writes on file-like objects inside `BSP.save`. -/',
         'def sites : List C12.Site := [']
    rows = [f'  ⟨.{k}, {b(s)}, {b(w)}, {ln}, {lean_string(what)}⟩' for (k, s, w, ln, what) in sites]
    L.append(',\n'.join(rows))
    L += [']', '', 'end Gen.Save']
    return '\n'.join(L) + '\n'
