"""Gen.Fsys (C18): shape of RawFileSystem's containment test and which OS calls are guarded by it.

Extracted from src/srctools/filesys.py with `ast` only:
  * `RawFileSystem.__init__` stores `os.path.abspath(path)` as the root;
  * `_resolve_path` is `abs_path = os.path.abspath(os.path.join(self.path, path))`, one `if <test>: raise
    RootEscapeError(...)`, `return abs_path`; `<test>` is classified as one of the ContainKind
    constructors of Model/C18.lean (anything else -> ExtractError);
  * every call that touches the OS inside the other methods of RawFileSystem (open, os.walk, os.stat,
    os.path.isfile, ...) and whether its first argument is the result of `self._resolve_path(...)`.
"""
import ast
from extract import ExtractError, lean_string

PURE = {'os.path.join', 'os.path.relpath', 'os.path.abspath', 'os.path.normpath', 'os.fspath',
        'os.path.basename', 'os.path.dirname', 'os.path.splitext', 'os.path.split', 'os.path.normcase'}

TESTS = {
    # as first released
    'self.constrain_path and (not abs_path.startswith(self.path))': 'stringPrefix',
    # separator-terminated comparison
    "self.constrain_path and abs_path != self.path and (not abs_path.startswith(os.path.join(self.path, '')))": 'sepTerminated',
    "self.constrain_path and (not (abs_path == self.path or abs_path.startswith(os.path.join(self.path, ''))))": 'sepTerminated',
}


def _dotted(node):
    parts = []
    while isinstance(node, ast.Attribute):
        parts.append(node.attr)
        node = node.value
    if isinstance(node, ast.Name):
        parts.append(node.id)
        return '.'.join(reversed(parts))
    return None


def _body(fn):
    return [s for s in fn.body if not (isinstance(s, ast.Expr) and isinstance(s.value, ast.Constant))]


def _is_resolve_call(node):
    return (isinstance(node, ast.Call) and _dotted(node.func) == 'self._resolve_path')


def generate(repo):
    src = (repo / 'src/srctools/filesys.py').read_text(encoding='utf-8')
    tree = ast.parse(src)
    cls = next((n for n in tree.body if isinstance(n, ast.ClassDef) and n.name == 'RawFileSystem'), None)
    if cls is None:
        raise ExtractError('class RawFileSystem not found')
    meths = {n.name: n for n in cls.body if isinstance(n, ast.FunctionDef)}
    for need in ('__init__', '_resolve_path'):
        if need not in meths:
            raise ExtractError(f'RawFileSystem.{need} not found')
    # __init__: super().__init__(os.path.abspath(path)); self.constrain_path = constrain_path
    init_src = [ast.unparse(s) for s in _body(meths['__init__'])]
    root_abs = 'super().__init__(os.path.abspath(path))' in init_src
    if 'self.constrain_path = constrain_path' not in init_src:
        raise ExtractError('RawFileSystem.__init__: constrain_path not stored as given: ' + '; '.join(init_src))
    args = meths['__init__'].args
    defaults = [ast.unparse(d) for d in args.defaults]
    if [a.arg for a in args.args] != ['self', 'path', 'constrain_path'] or defaults != ['True']:
        raise ExtractError('RawFileSystem.__init__: unexpected signature')
    # _resolve_path
    body = _body(meths['_resolve_path'])
    if len(body) != 3:
        raise ExtractError('_resolve_path: expected 3 statements, got: ' + ast.unparse(meths['_resolve_path']))
    first = ast.unparse(body[0])
    if first == 'abs_path = os.path.abspath(os.path.join(self.path, path))':
        fold_slash = False
    elif first == "abs_path = os.path.abspath(os.path.join(self.path, path.replace('\\\\', '/')))":
        fold_slash = True
    else:
        raise ExtractError('_resolve_path: unrecognised first statement: ' + first)
    if not (isinstance(body[1], ast.If) and not body[1].orelse and len(body[1].body) == 1
            and ast.unparse(body[1].body[0]) == 'raise RootEscapeError(self.path, path)'):
        raise ExtractError('_resolve_path: unrecognised check: ' + ast.unparse(body[1]))
    if ast.unparse(body[2]) != 'return abs_path':
        raise ExtractError('_resolve_path: unrecognised return: ' + ast.unparse(body[2]))
    test = ast.unparse(body[1].test)
    if test not in TESTS:
        raise ExtractError('_resolve_path: containment test not understood: ' + test)
    kind = TESTS[test]
    # RootEscapeError must not be a FileNotFoundError (the chain would swallow it and go on)
    err = next((n for n in tree.body if isinstance(n, ast.ClassDef) and n.name == 'RootEscapeError'), None)
    if err is None:
        raise ExtractError('class RootEscapeError not found')
    err_bases = [ast.unparse(b) for b in err.bases]
    # OS calls of the other methods
    calls = []
    for name, fn in meths.items():
        if name in ('__init__', '_resolve_path', '__repr__'):
            continue
        guarded_names = set()
        for n in ast.walk(fn):
            if isinstance(n, ast.Assign) and _is_resolve_call(n.value):
                for t in n.targets:
                    if isinstance(t, ast.Name):
                        guarded_names.add(t.id)
        # a name assigned from anything else as well is not guarded
        for n in ast.walk(fn):
            if isinstance(n, ast.Assign) and not _is_resolve_call(n.value):
                for t in n.targets:
                    if isinstance(t, ast.Name):
                        guarded_names.discard(t.id)
        for n in ast.walk(fn):
            if not isinstance(n, ast.Call):
                continue
            d = _dotted(n.func)
            if d is None:
                continue
            touches = d == 'open' or ((d.startswith('os.') or d.startswith('shutil.') or d.startswith('io.open')
                                       or d.startswith('pathlib.') or d == 'Path') and d not in PURE)
            if not touches:
                continue
            a0 = n.args[0] if n.args else None
            ok = a0 is not None and (_is_resolve_call(a0) or (isinstance(a0, ast.Name) and a0.id in guarded_names))
            calls.append((name, d, ok))
    # FileSystemChain.walk_folder_repeat: relpath(file.path, prefix) or relpath(file.path, prefix.replace('\\', '/'))
    chain = next((n for n in tree.body if isinstance(n, ast.ClassDef) and n.name == 'FileSystemChain'), None)
    wrep = next((n for n in (chain.body if chain else []) if isinstance(n, ast.FunctionDef) and n.name == 'walk_folder_repeat'), None)
    if wrep is None:
        raise ExtractError('FileSystemChain.walk_folder_repeat not found')
    wsrc = ast.unparse(wrep)
    if "os.path.relpath(file.path, prefix.replace('\\\\', '/')).replace('\\\\', '/')" in wsrc:
        chain_rel_slash = True
    elif "os.path.relpath(file.path, prefix).replace('\\\\', '/')" in wsrc:
        chain_rel_slash = False
    else:
        raise ExtractError('FileSystemChain.walk_folder_repeat: relpath call not recognised')
    out = []
    out.append('import Srctools.Model.C18')
    out.append('/-! GENERATED by tools/gen_fsys.py from src/srctools/filesys.py — do not edit. -/')
    out.append('namespace Gen.Fsys')
    out.append('')
    out.append(f'/-- the test guarding `raise RootEscapeError` in `RawFileSystem._resolve_path`: `{test}` -/')
    out.append(f'def containKind : C18.ContainKind := .{kind}')
    out.append('')
    out.append(f'/-- first statement of `_resolve_path`: `{first}` -/')
    out.append(f'def foldSlash : Bool := {"true" if fold_slash else "false"}')
    out.append('')
    out.append('/-- `FileSystemChain.walk_folder_repeat` replaces backslashes of the member prefix before `os.path.relpath`. -/')
    out.append(f'def chainRelSlash : Bool := {"true" if chain_rel_slash else "false"}')
    out.append('')
    out.append('def cfg : C18.Cfg := ⟨containKind, foldSlash, chainRelSlash⟩')
    out.append('')
    out.append('/-- `RawFileSystem.__init__` stores `os.path.abspath(path)`. -/')
    out.append(f'def rootIsAbspath : Bool := {"true" if root_abs else "false"}')
    out.append('')
    out.append('/-- base classes of `RootEscapeError`. -/')
    out.append('def escapeErrorBases : List String := [' + ', '.join(lean_string(b) for b in err_bases) + ']')
    out.append('')
    out.append('/-- (method, OS-touching callee, first argument is a `self._resolve_path(...)` result). -/')
    out.append('def osCalls : List (String × String × Bool) := [' +
               ', '.join(f'({lean_string(m)}, {lean_string(d)}, {"true" if ok else "false"})' for m, d, ok in calls) + ']')
    out.append('')
    out.append('end Gen.Fsys')
    return '\n'.join(out) + '\n'
