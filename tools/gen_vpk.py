"""Gen.Vpk: constants and struct layouts of srctools/vpk.py (+ EMPTY_CHECKSUM of binformat.py) that the
model lean/Srctools/Model/C13.lean hard-codes.  Props/C13.lean compares them with the model (`decide`)."""
import ast
from extract import ExtractError, lean_string


def _const_assign(tree, name):
    for n in tree.body:
        tgt = None
        if isinstance(n, ast.Assign) and len(n.targets) == 1 and isinstance(n.targets[0], ast.Name):
            tgt, val = n.targets[0].id, n.value
        elif isinstance(n, ast.AnnAssign) and isinstance(n.target, ast.Name):
            tgt, val = n.target.id, n.value
        if tgt == name:
            return val
    raise ExtractError(f'no top-level assignment to {name}')


def _int_const(tree, name):
    v = _const_assign(tree, name)
    if not (isinstance(v, ast.Constant) and isinstance(v.value, int)):
        raise ExtractError(f'{name} is not an integer literal')
    return v.value


def _func(node, name):
    for n in ast.walk(node):
        if isinstance(n, (ast.FunctionDef,)) and n.name == name:
            return n
    raise ExtractError(f'function {name} not found')


def _cls(tree, name):
    for n in tree.body:
        if isinstance(n, ast.ClassDef) and n.name == name:
            return n
    raise ExtractError(f'class {name} not found')


def _calls(node, dotted):
    out = []
    for n in ast.walk(node):
        if isinstance(n, ast.Call) and ast.unparse(n.func) == dotted:
            out.append(n)
    return out


def _strs(xs):
    return '[' + ', '.join(lean_string(x) for x in xs) + ']'


def generate(repo):
    src = (repo / 'src/srctools/vpk.py').read_text(encoding='utf-8')
    tree = ast.parse(src)
    sig = _int_const(tree, 'VPK_SIG')
    dir_idx = _int_const(tree, 'DIR_ARCH_INDEX')
    max_dir = _int_const(tree, 'MAX_DIR_DATA')

    vpk = _cls(tree, 'VPK')
    load = _func(vpk, 'load_dirfile')
    wr = _func(vpk, 'write_dirfile')
    # --- load_dirfile
    hdr_r = [c for c in _calls(load, 'struct_read') if isinstance(c.args[0], ast.Constant)]
    if not hdr_r:
        raise ExtractError('load_dirfile: no struct_read(<literal>, …)')
    hdr_read_fmt = hdr_r[0].args[0].value
    ent = _calls(load, 'struct.Struct')
    if len(ent) != 1 or not isinstance(ent[0].args[0], ast.Constant):
        raise ExtractError('load_dirfile: entry struct.Struct(<literal>) not found')
    ent_read_fmt = ent[0].args[0].value
    fields_r = None
    for n in ast.walk(load):
        if isinstance(n, ast.Assign) and isinstance(n.targets[0], ast.Tuple) and isinstance(n.value, ast.Call) \
                and ast.unparse(n.value.func).endswith('.unpack'):
            fields_r = [ast.unparse(e) for e in n.targets[0].elts]
    if fields_r is None:
        raise ExtractError('load_dirfile: entry.unpack target tuple not found')
    term_r = None
    idx_r = None
    zero_off = False
    for n in ast.walk(load):
        if isinstance(n, ast.Compare) and len(n.ops) == 1 and isinstance(n.left, ast.Name):
            rhs = n.comparators[0]
            if n.left.id == 'end' and isinstance(n.ops[0], ast.NotEq) and isinstance(rhs, ast.Constant):
                term_r = rhs.value
            if n.left.id == 'arch_ind' and isinstance(n.ops[0], ast.Eq):
                idx_r = ast.unparse(rhs)
        if isinstance(n, ast.If) and ast.unparse(n.test) == 'arch_len == 0' and ast.unparse(n.body[0]) == 'offset = 0':
            zero_off = True
    if term_r is None or idx_r != 'DIR_ARCH_INDEX':
        raise ExtractError('load_dirfile: terminator / DIR_ARCH_INDEX comparison not recognised')
    early = any(isinstance(n, ast.Compare) and ast.unparse(n) == 'dirfile.tell() + 1 == header_len' for n in ast.walk(load))
    # --- write_dirfile
    packs = _calls(wr, 'struct.pack')
    fmts = [(p.args[0].value, [ast.unparse(a) for a in p.args[1:]]) for p in packs if isinstance(p.args[0], ast.Constant)]
    hdr_w = [f for f in fmts if len(f[1]) == 3]
    ent_w = [f for f in fmts if len(f[1]) == 6]
    len_w = [f for f in fmts if len(f[1]) == 1]
    if len(hdr_w) != 1 or len(ent_w) != 1 or len(len_w) != 1:
        raise ExtractError(f'write_dirfile: struct.pack calls not recognised: {fmts}')
    skip = _calls(wr, 'struct.calcsize')
    skip_fmt = skip[0].args[0].value if skip and isinstance(skip[0].args[0], ast.Constant) else '?'
    sorted_levels = len(_calls(wr, 'sorted'))
    # --- nullstrings
    wn = _func(tree, '_write_nullstring')
    consts = [n.value for n in ast.walk(wn) if isinstance(n, ast.Constant) and isinstance(n.value, bytes)]
    it = _func(tree, 'iter_nullstr')
    blank_read = [n.comparators[0].value for n in ast.walk(it)
                  if isinstance(n, ast.Compare) and ast.unparse(n.left) == 'string' and isinstance(n.comparators[0], ast.Constant)]
    # --- modes
    om = _cls(tree, 'OpenModes')
    modes = [(n.targets[0].id, n.value.value) for n in om.body
             if isinstance(n, ast.Assign) and isinstance(n.value, ast.Constant) and isinstance(n.value.value, str)]
    wfn = _func(om, 'writable')
    wr_modes = None
    for n in ast.walk(wfn):
        if isinstance(n, ast.Compare) and isinstance(n.ops[0], ast.In) and isinstance(n.comparators[0], ast.Constant):
            wr_modes = n.comparators[0].value
    if wr_modes is None:
        raise ExtractError('OpenModes.writable not recognised')
    # --- default limit
    init = _func(vpk, '__init__')
    dflt = None
    for a, d in zip(init.args.kwonlyargs, init.args.kw_defaults):
        if a.arg == 'dir_data_limit' and isinstance(d, ast.Constant):
            dflt = d.value
    # --- FileInfo.write: the slices and the clamp
    fw = _func(_cls(tree, 'FileInfo'), 'write')
    fw_src = ast.unparse(fw)
    write_shape = [s for s in ['data[:dir_limit]', 'data[dir_limit:]', 'dir_limit > MAX_DIR_DATA', 'dir_limit = MAX_DIR_DATA',
                               'dir_limit = arch_index = None', 'self.offset = len(self.vpk.footer_data)',
                               'self.vpk.footer_data += arch_data', 'data == self.read()', 'len(data) == self.size',
                               "self.offset = file.seek(0, os.SEEK_END)"] if s in fw_src]
    # --- EMPTY_CHECKSUM
    bf = ast.parse((repo / 'src/srctools/binformat.py').read_text(encoding='utf-8'))
    ec = ast.unparse(_const_assign(bf, 'EMPTY_CHECKSUM'))
    ck = _func(bf, 'checksum')
    ck_body = [ast.unparse(s) for s in ck.body if not (isinstance(s, ast.Expr) and isinstance(s.value, ast.Constant))]

    L = ['/-! GENERATED by tools/gen_vpk.py from src/srctools/vpk.py and binformat.py — do not edit. -/',
         'namespace Gen.Vpk', '',
         f'def sig : Nat := {sig}',
         f'def dirArchIndex : Nat := {dir_idx}',
         f'def maxDirData : Nat := {max_dir}',
         f'def headerFmtRead : String := {lean_string(hdr_read_fmt)}',
         f'def headerFmtWrite : String := {lean_string(hdr_w[0][0])}',
         f'def headerArgsWrite : List String := {_strs(hdr_w[0][1])}',
         f'def treeLenFmtWrite : String := {lean_string(len_w[0][0])}',
         f'def treeLenSkipFmt : String := {lean_string(skip_fmt)}',
         f'def entryFmtRead : String := {lean_string(ent_read_fmt)}',
         f'def entryFmtWrite : String := {lean_string(ent_w[0][0])}',
         f'def entryFieldsRead : List String := {_strs(fields_r)}',
         f'def entryArgsWrite : List String := {_strs(ent_w[0][1])}',
         f'def terminatorRead : Nat := {term_r}',
         f'def zeroOffsetWhenNoArchData : Bool := {"true" if zero_off else "false"}',
         f'def earlyExitOnHeaderLen : Bool := {"true" if early else "false"}',
         f'def sortedLevelsWrite : Nat := {sorted_levels}',
         f'def nullstringConstants : List (List Nat) := [{", ".join("[" + ", ".join(str(b) for b in c) + "]" for c in consts)}]',
         f'def blankComparisonsRead : List String := {_strs(blank_read)}',
         f'def modes : List (String × String) := [{", ".join("(" + lean_string(a) + ", " + lean_string(b) + ")" for a, b in modes)}]',
         f'def writableModes : String := {lean_string(wr_modes)}',
         f'def defaultDirLimit : Option Nat := {"none" if dflt is None else "some " + str(dflt)}',
         f'def fileInfoWriteShape : List String := {_strs(write_shape)}',
         f'def emptyChecksumExpr : String := {lean_string(ec)}',
         f'def checksumBody : List String := {_strs(ck_body)}',
         '', 'end Gen.Vpk']
    return '\n'.join(L) + '\n'
