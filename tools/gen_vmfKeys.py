"""Gen.VmfKeys: for every VMF class, the key / block-header literals its `export` writes and the
literals its `parse` looks up or compares against, taken from the CURRENT src/srctools/vmf.py by
`ast` only.  The obligation (Props/C06.lean) is `written ⊆ read` case-insensitively, minus an
explicit allow-list of block headers that are consumed by the parent's parser.

Deliberately dumb: string literals only.
  written key     : `"name" "`   inside a string constant or an f-string
  written prefix  : `"name{expr}" "`   (e.g. "row{y}", "replace{id:02}")
  written block   : a line consisting of a bare name (`\tname\n`), a quoted name (`"name"\n`) or an
                    f-string line `name{expr}\n` (recorded as a prefix, e.g. multiblend_color_)
  read key        : constant compared with ==/!=/in, constant subscript (also first element of a
                    tuple subscript), constant argument of the Keyvalues accessor methods
  read prefix     : constant argument of .startswith(), constant head of an f-string in a listed
                    module-level assignment
"""
import ast, re
from extract import ExtractError, lean_string

# (table name, writers, readers); a writer/reader is (class or None, function or module-level name)
PAIRS = [
    ('VMF', [('VMF', 'export')], [('VMF', 'parse'), (None, '_parse_strata_viewport')]),
    ('Strata2DViewport', [('Strata2DViewport', 'export')], [(None, '_parse_strata_viewport')]),
    ('Strata3DViewport', [('Strata3DViewport', 'export')], [(None, '_parse_strata_viewport')]),
    ('Entity', [('Entity', 'export'), ('EntityFixup', 'export')], [('Entity', 'parse')]),
    ('Solid', [('Solid', 'export')], [('Solid', 'parse')]),
    ('Side', [('Side', 'export'), ('Side', '_export_displacement'), ('Side', '_export_disp_rowset')],
     [('Side', 'parse'), ('Side', '_parse_displacement_data'), ('Side', '_parse_strata_points'),
      ('Side', '_iter_disp_row'), ('Side', '_parse_disp_vecrow'), (None, '_disprow_multiblend')]),
    ('VisGroup', [('VisGroup', 'export')], [('VisGroup', 'parse')]),
    ('EntityGroup', [('EntityGroup', 'export')], [('EntityGroup', 'parse')]),
    ('Camera', [('Camera', 'export')], [('Camera', 'parse')]),
    ('Cordon', [('Cordon', 'export')], [('Cordon', 'parse')]),
]

ACCESSORS = {'int', 'float', 'bool', 'vec', 'find_key', 'find_block', 'find_all', 'find_children',
             '_parse_disp_vecrow', '_iter_disp_row', '_get_value'}

WRITER_CALLS = {'_export_disp_rowset': 0}

PH = '\x00'
KEY_RE = re.compile(r'"([A-Za-z0-9_]+)" "')
KEYPREFIX_RE = re.compile(r'"([A-Za-z_][A-Za-z0-9_]*)' + PH + r'" "')
BLOCK_RE = re.compile(r'(?:^|[\t\n' + PH + r'])([A-Za-z_][A-Za-z0-9_]*)\n')
QBLOCK_RE = re.compile(r'"([A-Za-z_][A-Za-z0-9_]*)"\n')
BLOCKPREFIX_RE = re.compile(r'(?:^|[\t\n' + PH + r'])([A-Za-z_][A-Za-z0-9_]*_)' + PH + r'\n')


def _variants(js: ast.JoinedStr):
    """Texts of an f-string with every formatted value replaced by a placeholder; an
    `{"a" if c else "b"}` value is expanded into both constants."""
    outs = ['']
    for p in js.values:
        if isinstance(p, ast.Constant) and isinstance(p.value, str):
            outs = [o + p.value for o in outs]
        elif (isinstance(p, ast.FormattedValue) and isinstance(p.value, ast.IfExp)
              and all(isinstance(b, ast.Constant) and isinstance(b.value, str) for b in (p.value.body, p.value.orelse))):
            outs = [o + b.value for o in outs for b in (p.value.body, p.value.orelse)]
        else:
            outs = [o + PH for o in outs]
    return outs


def _texts(fn):
    """All literal texts written by a function: f-strings (with placeholders), `a + 'lit'` chains,
    and plain constants that are not part of an f-string."""
    inside = set()
    texts = []
    for n in ast.walk(fn):
        if isinstance(n, ast.JoinedStr):
            texts += _variants(n)
            for p in ast.walk(n):
                if p is not n:
                    inside.add(id(p))
    for n in ast.walk(fn):
        if isinstance(n, ast.Constant) and isinstance(n.value, str) and id(n) not in inside:
            texts.append(n.value)
        # `ind + 'camera\n'` : the name line starts right after a non-literal
        if isinstance(n, ast.BinOp) and isinstance(n.op, ast.Add) and isinstance(n.right, ast.Constant) \
                and isinstance(n.right.value, str) and not isinstance(n.left, ast.Constant):
            texts.append(PH + n.right.value)
    return texts


def written(fn):
    keys, prefixes, blocks, bprefixes = [], [], [], []
    doc = ast.get_docstring(fn, clean=False)
    for t in _texts(fn):
        if doc is not None and t == doc:
            continue
        keys += KEY_RE.findall(t)
        prefixes += KEYPREFIX_RE.findall(t)
        blocks += BLOCK_RE.findall(t) + QBLOCK_RE.findall(t)
        bprefixes += BLOCKPREFIX_RE.findall(t)
    for n in ast.walk(fn):
        if isinstance(n, ast.Call):
            f = n.func
            fname = f.attr if isinstance(f, ast.Attribute) else getattr(f, 'id', None)
            # self._export_disp_rowset('normals', ...) : the block name is the first argument
            if fname in WRITER_CALLS and len(n.args) > WRITER_CALLS[fname] and _const(n.args[WRITER_CALLS[fname]]) is not None:
                blocks.append(_const(n.args[WRITER_CALLS[fname]]))
            # zip(('v0', 'v1', ...), objects) : block titles handed to the children's export
            if fname == 'zip':
                for a in n.args:
                    if isinstance(a, (ast.Tuple, ast.List)) and a.elts and all(_const(e) is not None for e in a.elts):
                        blocks += [_const(e) for e in a.elts]
    return keys, prefixes, blocks, bprefixes


def _const(n):
    return n.value if isinstance(n, ast.Constant) and isinstance(n.value, str) else None


def read(node):
    keys, prefixes = [], []
    for n in ast.walk(node):
        if isinstance(n, ast.Compare):
            for c in [n.left] + list(n.comparators):
                if _const(c) is not None:
                    keys.append(_const(c))
        elif isinstance(n, ast.Subscript):
            sl = n.slice
            if _const(sl) is not None:
                keys.append(_const(sl))
            elif isinstance(sl, ast.Tuple) and sl.elts and _const(sl.elts[0]) is not None:
                keys.append(_const(sl.elts[0]))
        elif isinstance(n, ast.Call) and isinstance(n.func, ast.Attribute):
            if n.func.attr in ACCESSORS:
                keys += [_const(a) for a in n.args if _const(a) is not None]
            elif n.func.attr == 'startswith':
                prefixes += [_const(a) for a in n.args if _const(a) is not None]
        elif isinstance(n, (ast.Tuple, ast.List)) and n.elts and _const(n.elts[0]) is not None and len(n.elts) == 2:
            # ('v0', 'x') rows of a literal lookup table iterated by the reader
            keys.append(_const(n.elts[0]))
        elif isinstance(n, ast.JoinedStr) and len(n.values) >= 2 and _const(n.values[0]) is not None \
                and isinstance(n.values[1], ast.FormattedValue):
            head = _const(n.values[0])
            if re.fullmatch(r'[A-Za-z_][A-Za-z0-9_]*', head):
                prefixes.append(head)
    return keys, prefixes


def defaults(node):
    """Literal defaults of the Keyvalues accessors used by a reader:
    `.int('k', 16)`, `.float('k')`, `.bool('k', True)`, `.vec('k', 0, 0, 0)`, `tree['k', 'text']`.
    An accessor called without a default gets the accessor's own (`0`, `0.0`, `False`, `0 0 0`)."""
    out = []
    implicit = {'int': '0', 'float': '0.0', 'bool': 'False', 'vec': '0.0 0.0 0.0'}
    for n in ast.walk(node):
        if isinstance(n, ast.Call) and isinstance(n.func, ast.Attribute) and n.func.attr in implicit \
                and n.args and _const(n.args[0]) is not None:
            key = _const(n.args[0])
            rest = n.args[1:]
            if not rest:
                d = implicit[n.func.attr]
            else:
                try:
                    d = ' '.join(repr(ast.literal_eval(a)) for a in rest)
                except Exception:
                    d = 'expr:' + ' '.join(ast.unparse(a) for a in rest)
            out.append((n.func.attr, key, d))
        elif isinstance(n, ast.Subscript) and isinstance(n.slice, ast.Tuple) and len(n.slice.elts) == 2 \
                and _const(n.slice.elts[0]) is not None:
            key = _const(n.slice.elts[0])
            try:
                d = repr(ast.literal_eval(n.slice.elts[1]))
            except Exception:
                d = 'expr:' + ast.unparse(n.slice.elts[1])
            out.append(('str', key, d))
    # `if v.name == "key": x = conv_bool(v.value, default=True)` / `Vec.from_str(v.value, 255, 255, 255)`
    for n in ast.walk(node):
        if isinstance(n, ast.If) and isinstance(n.test, ast.Compare) and len(n.test.comparators) == 1 \
                and _const(n.test.comparators[0]) is not None:
            key = _const(n.test.comparators[0])
            for st in n.body:
                for c in ast.walk(st):
                    if isinstance(c, ast.Call) and isinstance(c.func, ast.Attribute) and c.func.attr in ('conv_bool', 'from_str'):
                        extra = list(c.args[1:]) + [k.value for k in c.keywords]
                        try:
                            d = ' '.join(repr(ast.literal_eval(a)) for a in extra)
                        except Exception:
                            d = 'expr:' + ' '.join(ast.unparse(a) for a in extra)
                        out.append((c.func.attr, key, d))
    return out


def _uniq(xs):
    out = []
    for x in xs:
        if x not in out:
            out.append(x)
    return out


def generate(repo):
    src = (repo / 'src/srctools/vmf.py').read_text(encoding='utf-8')
    tree = ast.parse(src)
    classes = {n.name: n for n in tree.body if isinstance(n, ast.ClassDef)}
    top = {}
    for n in tree.body:
        if isinstance(n, ast.FunctionDef):
            top[n.name] = n
        elif isinstance(n, ast.Assign) and len(n.targets) == 1 and isinstance(n.targets[0], ast.Name):
            top[n.targets[0].id] = n
        elif isinstance(n, ast.AnnAssign) and isinstance(n.target, ast.Name) and n.value is not None:
            top[n.target.id] = n

    def find(cls, name):
        if cls is None:
            if name not in top:
                raise ExtractError(f'module-level {name} not found in vmf.py')
            return top[name]
        if cls not in classes:
            raise ExtractError(f'class {cls} not found in vmf.py')
        # the last definition wins (overloads come first)
        fns = [n for n in classes[cls].body if isinstance(n, ast.FunctionDef) and n.name == name]
        if not fns:
            raise ExtractError(f'{cls}.{name} not found in vmf.py')
        return fns[-1]

    rows = []
    dflts = []
    for tname, writers, readers in PAIRS:
        for c, f in readers:
            if tname in ('Strata2DViewport', 'Strata3DViewport'):
                continue        # the viewport reader is listed under VMF
            for kind, key, d in defaults(find(c, f)):
                if d.startswith('expr:') and d[5:] in top and isinstance(top[d[5:]], ast.Assign):
                    try:
                        d = repr(ast.literal_eval(top[d[5:]].value))      # module constant (CURRENT_HAMMER_VERSION …)
                    except Exception:
                        pass
                if (tname, kind, key, d) not in dflts:
                    dflts.append((tname, kind, key, d))
        wk, wp, wb, wbp, rk, rp = [], [], [], [], [], []
        for c, f in writers:
            k, p, b, bp = written(find(c, f))
            wk += k; wp += p; wb += b; wbp += bp
        for c, f in readers:
            k, p = read(find(c, f))
            rk += k; rp += p
        if not (wk or wb):
            raise ExtractError(f'{tname}: no written key found (export no longer writes string literals?)')
        if not rk:
            raise ExtractError(f'{tname}: no read key found (parse no longer uses string literals?)')
        rows.append((tname, _uniq(wk), _uniq(wp), _uniq(wb), _uniq(wbp), _uniq(rk), _uniq(rp)))

    def lst(xs):
        return '[' + ', '.join(lean_string(x) for x in xs) + ']'

    L = ['/-! GENERATED by tools/gen_vmfKeys.py from src/srctools/vmf.py — do not edit. -/',
         'namespace Gen.VmfKeys', '',
         'structure Cls where',
         '  name : String',
         '  writtenKeys : List String',
         '  writtenKeyPrefixes : List String',
         '  writtenBlocks : List String',
         '  writtenBlockPrefixes : List String',
         '  readKeys : List String',
         '  readPrefixes : List String',
         '', 'def table : List Cls := [']
    for i, (n, wk, wp, wb, wbp, rk, rp) in enumerate(rows):
        L.append(f'  {{ name := {lean_string(n)},')
        L.append(f'    writtenKeys := {lst(wk)},')
        L.append(f'    writtenKeyPrefixes := {lst(wp)},')
        L.append(f'    writtenBlocks := {lst(wb)},')
        L.append(f'    writtenBlockPrefixes := {lst(wbp)},')
        L.append(f'    readKeys := {lst(rk)},')
        L.append(f'    readPrefixes := {lst(rp)} }}' + (',' if i + 1 < len(rows) else ''))
    L += [']', '', '/-- literal defaults of the readers: (class, accessor, key, default) -/',
          'def defaults : List (String × String × String × String) := [']
    for i, (t, kind, key, d) in enumerate(dflts):
        L.append(f'  ({lean_string(t)}, {lean_string(kind)}, {lean_string(key)}, {lean_string(d)})' + (',' if i + 1 < len(dflts) else ''))
    L += [']', '', 'end Gen.VmfKeys']
    return '\n'.join(L) + '\n'
