#!/usr/bin/env python3
"""Translator: regenerate lean/Srctools/Gen/<Name>.lean from /repo's *current* source.

usage: extract.py [--repo DIR] [--check] name...      (names: the gen_<name>.py modules here)

Each gen_<name>.py exposes  generate(repo: pathlib.Path) -> str  (the full Lean file text) and
parses the source with `ast` / regular expressions only (it never imports the code).
A file is rewritten only when its text changes, so `lake build` is a no-op on an unchanged tree.
When a generator cannot understand the source any more (refactor) it raises ExtractError; the
Gen file is then left as it is and the caller treats the obligation as broken.
"""
import sys, os, importlib, pathlib, argparse, json

HERE = pathlib.Path(__file__).resolve().parent
VERIF = HERE.parent
sys.path.insert(0, str(HERE))

class ExtractError(Exception):
    pass

def lean_char(c: str) -> str:
    return f"Char.ofNat {ord(c)}"

def lean_str_chars(s: str) -> str:
    return "[" + ", ".join(lean_char(c) for c in s) + "]"

def lean_string(s: str) -> str:
    out = []
    for c in s:
        if c == '"': out.append('\\"')
        elif c == '\\': out.append('\\\\')
        elif c == '\n': out.append('\\n')
        elif c == '\t': out.append('\\t')
        elif c == '\r': out.append('\\r')
        elif 32 <= ord(c) < 127: out.append(c)
        else: out.append('\\u{%x}' % ord(c))
    return '"' + ''.join(out) + '"'

def module_name(name: str) -> str:
    return name[0].upper() + name[1:]

def run(names, repo, check=False):
    results = {}
    for name in names:
        mod = importlib.import_module('gen_' + name)
        target = VERIF / 'lean' / 'Srctools' / 'Gen' / (module_name(name) + '.lean')
        try:
            text = mod.generate(pathlib.Path(repo))
        except Exception as exc:  # ExtractError or a parse failure
            results[name] = {'ok': False, 'error': f'{type(exc).__name__}: {exc}', 'changed': False}
            continue
        old = target.read_text(encoding='utf-8') if target.exists() else None
        changed = old != text
        if changed and not check:
            target.parent.mkdir(parents=True, exist_ok=True)
            tmp = target.with_suffix('.lean.tmp%d' % os.getpid())
            tmp.write_text(text, encoding='utf-8')
            os.replace(tmp, target)
        results[name] = {'ok': True, 'changed': changed, 'path': str(target)}
    return results

if __name__ == '__main__':
    ap = argparse.ArgumentParser()
    ap.add_argument('--repo', default=os.environ.get('VERIF_REPO', '/repo'))
    ap.add_argument('--check', action='store_true')
    ap.add_argument('names', nargs='+')
    a = ap.parse_args()
    res = run(a.names, a.repo, a.check)
    print(json.dumps(res, indent=1))
    sys.exit(0 if all(r['ok'] for r in res.values()) else 3)
