"""Gen.Frozen: every store into a private slot of the Vec / Angle / Matrix classes of srctools/math.py, with the
syntactic *origin* of the object written to, every call of an in-place helper (a function that writes through a
parameter, or through `self` of a *base* class) with the origin of the object passed, the origin of every
returned object (to recognise factories and what `copy()` returns), and per-class facts (bases, `__slots__`,
property setters, method names).

The translator only reports syntax; which origins are acceptable is decided in `Props/C05.lean`.
Template methods built with `exec(TEMPLATE.format(...))` inside a class body are expanded and analysed as
methods of that class.
"""
import ast
from extract import ExtractError, lean_string

CLASSES = {
    'VecBase': 'base', 'FrozenVec': 'frozen', 'Vec': 'mutable',
    'MatrixBase': 'base', 'FrozenMatrix': 'frozen', 'Matrix': 'mutable',
    'AngleBase': 'base', 'FrozenAngle': 'frozen', 'Angle': 'mutable',
}
SLOTS = {'_x', '_y', '_z', '_pitch', '_yaw', '_roll',
         '_aa', '_ab', '_ac', '_ba', '_bb', '_bc', '_ca', '_cb', '_cc'}
PUBLIC = {'x', 'y', 'z', 'pitch', 'yaw', 'roll'}
FLOAT_FUNCS = {'float', 'round', 'abs', 'min', 'max', '_coerce_float', 'divmod'}


def _alias(name):
    """Py_Vec / Cy_Vec / Vec -> Vec (the module binds all three to the same class when Cython is absent)."""
    for p in ('Py_', 'Cy_'):
        if name.startswith(p) and name[len(p):] in CLASSES:
            return name[len(p):]
    return name if name in CLASSES else None


def _is_float_expr(e):
    if isinstance(e, ast.Constant):
        return type(e.value) in (int, float)
    if isinstance(e, ast.Attribute):
        return e.attr in SLOTS or e.attr in PUBLIC
    if isinstance(e, ast.UnaryOp):
        return _is_float_expr(e.operand)
    if isinstance(e, ast.BinOp):
        return _is_float_expr(e.left) and _is_float_expr(e.right)
    if isinstance(e, ast.Call):
        f = e.func
        if isinstance(f, ast.Name) and f.id in FLOAT_FUNCS:
            return True
        if isinstance(f, ast.Attribute) and isinstance(f.value, ast.Name) and f.value.id == 'math':
            return True
    return False


class Fn:
    def __init__(self, cls, node, kind):
        self.cls, self.node, self.name = cls, node, node.name
        a = node.args
        self.params = [x.arg for x in a.posonlyargs + a.args] + [x.arg for x in a.kwonlyargs]
        if a.vararg: self.params.append(a.vararg.arg)
        if a.kwarg: self.params.append(a.kwarg.arg)
        self.kind = kind      # 'method' | 'classmethod' | 'staticmethod' | 'function'
        self.self_name = self.params[0] if kind == 'method' and self.params and node.name != '__new__' else None
        self.cls_name = self.params[0] if (kind == 'classmethod' or node.name == '__new__') and self.params else None
        self.locals = {}      # name -> [value expr | None]
        for n in ast.walk(node):
            if isinstance(n, ast.Assign):
                for t in n.targets:
                    self._bind(t, n.value)
            elif isinstance(n, ast.AnnAssign) and n.value is not None:
                self._bind(n.target, n.value)
            elif isinstance(n, ast.AugAssign):
                # `name @= x` keeps the object (in-place operator) or rebinds the name to the operator's new
                # result: no further origin is recorded for a plain name
                if not isinstance(n.target, ast.Name):
                    self._bind(n.target, None)
            elif isinstance(n, (ast.For, ast.AsyncFor)):
                self._bind(n.target, None)
            elif isinstance(n, ast.withitem) and n.optional_vars is not None:
                self._bind(n.optional_vars, None)
            elif isinstance(n, ast.NamedExpr):
                self._bind(n.target, n.value)
            elif isinstance(n, ast.comprehension):
                self._bind(n.target, None)

    def _bind(self, target, value):
        if isinstance(target, ast.Name):
            self.locals.setdefault(target.id, []).append(value)
        elif isinstance(target, (ast.Tuple, ast.List)):
            for e in target.elts:
                self._bind(e.value if isinstance(e, ast.Starred) else e, None)

    # ---- origins
    def origin_expr(self, e, depth=0):
        """list of origins (Lean terms) of the object denoted by expression e"""
        if isinstance(e, ast.Name):
            return self.origin_name(e.id, depth)
        if isinstance(e, ast.Call):
            f = e.func
            nargs = len(e.args) + len(e.keywords)
            if isinstance(f, ast.Attribute) and f.attr == '__new__':
                if nargs == 1 and not e.keywords:
                    return ['.alloc']
                return [f'.other {lean_string("__new__ with arguments: " + ast.unparse(e)[:60])}']
            floats = all(_is_float_expr(a) for a in e.args) and all(_is_float_expr(k.value) for k in e.keywords)
            fl = 'true' if floats else 'false'
            if isinstance(f, ast.Name):
                c = _alias(f.id)
                if c is not None:
                    return [f'.ctor {lean_string(c)} false {fl}']
                if self.cls_name is not None and f.id == self.cls_name and self.cls:
                    return [f'.ctor {lean_string(self.cls)} true {fl}']
                if f.id in self.locals or f.id in self.params:
                    # e.g. `cls = type(self); cls(...)`
                    vals = self.locals.get(f.id, [])
                    if vals and all(v is not None and ast.unparse(v) == f'type({self.self_name})' for v in vals) and self.cls:
                        return [f'.ctor {lean_string(self.cls)} true {fl}']
                    return [f'.other {lean_string("call of local " + f.id)}']
                return [f'.call {lean_string(f.id)}']
            if isinstance(f, ast.Call) and ast.unparse(f) == f'type({self.self_name})' and self.cls:
                return [f'.ctor {lean_string(self.cls)} true {fl}']
            if isinstance(f, ast.Attribute):
                if f.attr == 'copy' and nargs == 0 and isinstance(f.value, ast.Name):
                    n = f.value.id
                    if n == self.self_name:
                        return ['.copyOf "self"']
                    if n in self.params and n not in self.locals:
                        return [f'.copyOf {lean_string(n)}']
                    return [f'.other {lean_string("copy of local " + n)}']
                return [f'.call {lean_string(f.attr)}']
        return [f'.other {lean_string(ast.unparse(e)[:60])}']

    def origin_name(self, name, depth=0):
        outs = []
        if name == self.self_name and name not in self.locals:
            return ['.selfRecv']
        if name in self.params:
            outs.append(f'.param {lean_string(name)}')
            if name == self.self_name:
                outs = ['.selfRecv']
        if name in self.locals:
            if depth > 3:
                return [f'.other {lean_string("alias chain: " + name)}']
            for v in self.locals[name]:
                if v is None:
                    outs.append(f'.other {lean_string("bound by unpacking/loop: " + name)}')
                else:
                    outs += self.origin_expr(v, depth + 1)
        if not outs:
            outs = [f'.other {lean_string("global or unbound name: " + name)}']
        seen = []
        for o in outs:
            if o not in seen:
                seen.append(o)
        return seen


def _decor_kind(node):
    names = {ast.unparse(d) for d in node.decorator_list}
    if 'classmethod' in names: return 'classmethod'
    if 'staticmethod' in names: return 'staticmethod'
    return 'method'


def _is_stub(node):
    """typing overload stubs / TYPE_CHECKING declarations: body is `...` only."""
    body = [s for s in node.body if not (isinstance(s, ast.Expr) and isinstance(s.value, ast.Constant) and isinstance(s.value.value, str))]
    return all(isinstance(s, ast.Expr) and isinstance(s.value, ast.Constant) and s.value.value is Ellipsis for s in body) and body != [] \
        or any(ast.unparse(d).endswith('overload') for d in node.decorator_list)


def collect(tree):
    """-> (classinfo dict, [Fn])"""
    templates = {}
    for n in tree.body:
        if isinstance(n, ast.Assign) and len(n.targets) == 1 and isinstance(n.targets[0], ast.Name) \
                and isinstance(n.value, ast.Constant) and isinstance(n.value.value, str) and n.targets[0].id.endswith('_TEMP'):
            templates[n.targets[0].id] = (n.value.value, n.lineno)
    info, fns = {}, []
    found = [n.name for n in tree.body if isinstance(n, ast.ClassDef) and (n.name in CLASSES or
             any(ast.unparse(b) in CLASSES for b in n.bases))]
    if sorted(found) != sorted(CLASSES):
        raise ExtractError(f'vector/angle/matrix class set changed: {sorted(found)}')
    for n in tree.body:
        if isinstance(n, ast.FunctionDef):
            fns.append(Fn('', n, 'function'))
        if not (isinstance(n, ast.ClassDef) and n.name in CLASSES):
            continue
        ci = {'bases': [ast.unparse(b) for b in n.bases], 'slots': None, 'setters': [], 'methods': []}
        info[n.name] = ci

        def visit_body(body):
            for s in body:
                if isinstance(s, ast.FunctionDef):
                    if _is_stub(s):
                        continue
                    setter = [d for d in s.decorator_list if isinstance(d, ast.Attribute) and d.attr in ('setter', 'deleter')]
                    if setter:
                        ci['setters'].append(s.name)
                    if s.name not in ci['methods']:
                        ci['methods'].append(s.name)
                    fns.append(Fn(n.name, s, _decor_kind(s)))
                elif isinstance(s, ast.Assign):
                    tnames = [t.id for t in s.targets if isinstance(t, ast.Name)]
                    if '__slots__' in tnames:
                        try:
                            ci['slots'] = list(ast.literal_eval(s.value))
                        except Exception:
                            raise ExtractError(f'{n.name}.__slots__ is not a literal')
                    elif isinstance(s.value, ast.Name) and s.value.id in ci['methods']:
                        # alias:  __copy__ = copy
                        src = next(f for f in fns if f.cls == n.name and f.name == s.value.id)
                        for t in tnames:
                            ci['methods'].append(t)
                            node2 = ast.parse(ast.unparse(src.node)).body[0]
                            node2.name = t
                            ast.copy_location(node2, src.node)
                            for sub in ast.walk(node2):
                                if hasattr(sub, 'lineno'):
                                    sub.lineno = sub.lineno + src.node.lineno - 1
                            fns.append(Fn(n.name, node2, src.kind))
                elif isinstance(s, ast.If):
                    if ast.unparse(s.test) == 'TYPE_CHECKING':
                        visit_body(s.orelse)
                    else:
                        visit_body(s.body); visit_body(s.orelse)
                elif isinstance(s, ast.For):
                    # for _funcname, _op[, _pretty] in (...): exec(TEMPLATE.format(...), globals(), locals())
                    for sub in ast.walk(s):
                        if isinstance(sub, ast.Call) and isinstance(sub.func, ast.Name) and sub.func.id == 'exec':
                            arg = sub.args[0] if sub.args else None
                            if not (isinstance(arg, ast.Call) and isinstance(arg.func, ast.Attribute) and arg.func.attr == 'format'
                                    and isinstance(arg.func.value, ast.Name) and arg.func.value.id in templates):
                                raise ExtractError(f'{n.name}: exec() of something that is not a known template')
                            text, line0 = templates[arg.func.value.id]
                            try:
                                rows = ast.literal_eval(s.iter)
                            except Exception:
                                raise ExtractError(f'{n.name}: template loop is not over a literal')
                            for row in rows:
                                kw = {'func': row[0], 'op': row[1], 'pretty': row[2] if len(row) > 2 else ''}
                                mod = ast.parse(text.format(**kw))
                                for d in mod.body:
                                    if isinstance(d, ast.FunctionDef):
                                        for sub2 in ast.walk(d):
                                            if hasattr(sub2, 'lineno'):
                                                sub2.lineno += line0 - 1
                                        if d.name not in ci['methods']:
                                            ci['methods'].append(d.name)
                                        fns.append(Fn(n.name, d, 'method'))
                elif isinstance(s, (ast.With, ast.Try, ast.While)):
                    raise ExtractError(f'{n.name}: unexpected compound statement in class body')
        visit_body(n.body)
    # exec() anywhere else would define code we do not see
    n_exec = sum(1 for x in ast.walk(tree) if isinstance(x, ast.Call) and isinstance(x.func, ast.Name) and x.func.id in ('exec', 'eval'))
    n_seen = sum(1 for c in tree.body if isinstance(c, ast.ClassDef) and c.name in CLASSES for x in ast.walk(c)
                 if isinstance(x, ast.Call) and isinstance(x.func, ast.Name) and x.func.id == 'exec')
    if n_exec != n_seen:
        raise ExtractError('exec/eval outside the vector class bodies')
    return info, fns


def analyse(fns):
    stores, rets = [], []
    for fn in fns:
        for node in ast.walk(fn.node):
            if isinstance(node, ast.Attribute) and node.attr in SLOTS and isinstance(node.ctx, (ast.Store, ast.Del)):
                slot = node.attr if isinstance(node.ctx, ast.Store) else 'del ' + node.attr
                if isinstance(node.value, ast.Name):
                    origins = fn.origin_name(node.value.id)
                else:
                    origins = [f'.other {lean_string(ast.unparse(node.value)[:60])}']
                for o in origins:
                    stores.append((fn.cls, fn.name, node.lineno, slot, o))
            if isinstance(node, ast.Call):
                f = node.func
                fname = f.id if isinstance(f, ast.Name) else f.attr if isinstance(f, ast.Attribute) else ''
                if fname in ('setattr', '__setattr__', 'delattr', '__delattr__', '__setstate__') or \
                        (isinstance(f, ast.Attribute) and f.attr == 'update' and ast.unparse(f.value).endswith('__dict__')):
                    tgt = node.args[0] if node.args else None
                    origins = fn.origin_expr(tgt) if tgt is not None else ['.other "setattr without target"']
                    for o in origins:
                        stores.append((fn.cls, fn.name, node.lineno, fname, o))
            if isinstance(node, ast.Return) and node.value is not None:
                v = node.value
                if isinstance(v, ast.Constant) or (isinstance(v, ast.Name) and v.id == 'NotImplemented'):
                    continue
                vals = v.elts if isinstance(v, ast.Tuple) else [v]
                for x in vals:
                    if isinstance(x, (ast.Name, ast.Call)):
                        for o in fn.origin_expr(x):
                            rets.append((fn.cls, fn.name, node.lineno, o))
                    elif isinstance(x, ast.IfExp):
                        for y in (x.body, x.orelse):
                            for o in fn.origin_expr(y):
                                rets.append((fn.cls, fn.name, node.lineno, o))
            if isinstance(node, (ast.Yield, ast.YieldFrom)) and node.value is not None and isinstance(node.value, (ast.Name, ast.Call)):
                # generators / context managers hand the object out as well
                for o in fn.origin_expr(node.value):
                    rets.append((fn.cls, fn.name, node.lineno, o))
    # helpers: functions that write through a parameter, or through `self` of a base class
    helpers = {}   # name -> set of positions ('self' or parameter name)
    for (cls, name, line, slot, o) in stores:
        if o == '.selfRecv' and CLASSES.get(cls) == 'base':
            helpers.setdefault(name, set()).add('self')
        if o.startswith('.param '):
            helpers.setdefault(name, set()).add(o[len('.param '):].strip('"'))
    calls = []
    by_name = {}
    for fn in fns:
        by_name.setdefault(fn.name, []).append(fn)
    for fn in fns:
        for node in ast.walk(fn.node):
            if isinstance(node, ast.Attribute) and node.attr in helpers and isinstance(node.ctx, ast.Load):
                # must be the function of a direct call
                pass
        direct = set()
        for node in ast.walk(fn.node):
            if isinstance(node, ast.Call) and isinstance(node.func, ast.Attribute) and node.func.attr in helpers:
                direct.add(node.func)
                h = node.func.attr
                for pos in sorted(helpers[h]):
                    if pos == 'self':
                        origins = fn.origin_expr(node.func.value)
                    else:
                        origins = None
                        for target in by_name.get(h, []):
                            ps = target.params[1:] if target.kind in ('method', 'classmethod') else target.params
                            if pos in ps:
                                i = ps.index(pos)
                                arg = node.args[i] if i < len(node.args) else next((k.value for k in node.keywords if k.arg == pos), None)
                                origins = fn.origin_expr(arg) if arg is not None else ['.other "argument not found"']
                        if origins is None:
                            origins = ['.other "helper parameter not found"']
                    for o in origins:
                        calls.append((fn.cls, fn.name, node.lineno, h, pos, o))
            elif isinstance(node, ast.Call) and isinstance(node.func, ast.Name) and node.func.id in helpers:
                calls.append((fn.cls, fn.name, node.lineno, node.func.id, 'self', '.other "helper called as a plain function"'))
        for node in ast.walk(fn.node):
            if isinstance(node, ast.Attribute) and node.attr in helpers and isinstance(node.ctx, ast.Load) and node not in direct:
                calls.append((fn.cls, fn.name, node.lineno, node.attr, 'self', '.other "helper referenced without a direct call"'))
    for h in helpers:
        if h.startswith('__') and h.endswith('__') and h not in ('__new__', '__init__'):
            calls.append(('', '', 0, h, 'self', '.other "helper is an operator method: call sites are implicit"'))
    return stores, rets, calls, helpers


def generate(repo):
    src = (repo / 'src/srctools/math.py').read_text(encoding='utf-8')
    tree = ast.parse(src)
    info, fns = collect(tree)
    stores, rets, calls, helpers = analyse(fns)
    if not stores:
        raise ExtractError('no slot store found')
    key = lambda t: (t[2], t[0], t[1], str(t[3:]))
    stores.sort(key=key); rets.sort(key=key); calls.sort(key=key)
    L = ['import Srctools.Model.C05Sites',
         '/-! GENERATED by tools/gen_frozen.py from src/srctools/math.py — do not edit. -/',
         'namespace Gen.Frozen', 'open C05', '']
    L.append('def classes : List ClassInfo := [')
    names = list(CLASSES)
    for i, c in enumerate(names):
        ci = info[c]
        sl = 'none' if ci['slots'] is None else 'some [' + ', '.join(lean_string(s) for s in ci['slots']) + ']'
        L.append(f'  {{ name := {lean_string(c)}, bases := [' + ', '.join(lean_string(b) for b in ci['bases']) + f'], role := .{CLASSES[c]},')
        L.append(f'    slots := {sl}, setters := [' + ', '.join(lean_string(s) for s in ci['setters']) + '],')
        L.append('    methods := [' + ', '.join(lean_string(m) for m in ci['methods']) + '] }' + (',' if i + 1 < len(names) else ''))
    L.append(']')
    L.append('')
    L.append('/-- every store into a private slot (class, function, line, slot, origin of the object written to). -/')
    L.append('def stores : List Store := [')
    for i, (cls, fn, line, slot, o) in enumerate(stores):
        L.append(f'  ⟨{lean_string(cls)}, {lean_string(fn)}, {line}, {lean_string(slot)}, {o}⟩' + (',' if i + 1 < len(stores) else ''))
    L.append(']')
    L.append('')
    L.append('/-- in-place helpers found: ' + ', '.join(f'{h}({"/".join(sorted(p))})' for h, p in sorted(helpers.items())) + ' -/')
    L.append('def helperCalls : List HelperCall := [')
    for i, (cls, fn, line, h, pos, o) in enumerate(calls):
        L.append(f'  ⟨{lean_string(cls)}, {lean_string(fn)}, {line}, {lean_string(h)}, {lean_string(pos)}, {o}⟩' + (',' if i + 1 < len(calls) else ''))
    L.append(']')
    L.append('')
    L.append('/-- origin of every returned / yielded object. -/')
    L.append('def returns : List Return := [')
    for i, (cls, fn, line, o) in enumerate(rets):
        L.append(f'  ⟨{lean_string(cls)}, {lean_string(fn)}, {line}, {o}⟩' + (',' if i + 1 < len(rets) else ''))
    L.append(']')
    L.append('')
    L.append('end Gen.Frozen')
    return '\n'.join(L) + '\n'
