import Srctools.Wire
import Srctools.Model.C20
import Srctools.Gen.Tok
import Srctools.Gen.C20
/-! Driver for the C20 models. Byte strings travel as hex strings, text as code-point arrays,
big integers as decimal strings.
  {"op":"pad","s":hex,"n":N}            → {"r":hex|null}
  {"op":"strip","s":hex}                → {"r":hex|null}
  {"op":"cmd_write","seqs":[[hex,[cmd…]]…]} → {"r":hex|null}
        cmd = {"exe":["str",hex]|["special",N],"args":hex,"enabled":b,"ensure":hex|null,"upw":b,"nowait":b}
  {"op":"cmd_parse","b":hex}            → {"r":null|[[hex,[cmd…]]…]}
  {"op":"img_build","version":N,"entries":[{"crc","dur","last","sounds":[hex],"strs":[hex],"raw":hex,"comp":hex}…]} → {"r":hex}
  {"op":"img_parse","b":hex}            → {"r":null|[version,[[crc,dur,last,[hex…],hex]…]]}
  {"op":"bsearch","keys":[N…],"k":N}    → {"r":null|index}
  {"op":"round","num":"…","den":"…"}    → {"r":"…"}
  {"op":"encq","hi":N,"num":"…","den":"…"} → {"r":N}
  {"op":"sorted_set","l":[hex…]}        → {"r":[hex…]}
  {"op":"snd_quote","s":[cp…]}          → {"r":[cp…]}
  {"op":"vmt_quote","s":[cp…]}          → {"r":[cp…]}
-/
open Lean C20

def hexDigit (c : Char) : Option Nat :=
  if '0' ≤ c ∧ c ≤ '9' then some (c.toNat - 48)
  else if 'a' ≤ c ∧ c ≤ 'f' then some (c.toNat - 87)
  else if 'A' ≤ c ∧ c ≤ 'F' then some (c.toNat - 55)
  else none

def unhexAux : List Char → List UInt8 → Except String (List UInt8)
  | [], acc => pure acc.reverse
  | [_], _ => throw "odd hex length"
  | a :: b :: rest, acc =>
    match hexDigit a, hexDigit b with
    | some x, some y => unhexAux rest (UInt8.ofNat (16 * x + y) :: acc)
    | _, _ => throw "bad hex digit"

def unhex (j : Json) : Except String Bytes := do
  let s ← j.getStr?
  unhexAux s.toList []

def hexChar (n : Nat) : Char := if n < 10 then Char.ofNat (48 + n) else Char.ofNat (87 + n)

def hex (b : Bytes) : Json :=
  Json.str (String.ofList (b.flatMap fun x => [hexChar (x.toNat / 16), hexChar (x.toNat % 16)]))

def hexOpt : Option Bytes → Json
  | some b => hex b
  | none => Json.null

def cmdOf (j : Json) : Except String Cmd := do
  let e ← j.getObjVal? "exe"
  let ea ← e.getArr?
  let kind ← (ea[0]!).getStr?
  let exe ← if kind == "str" then (unhex ea[1]!).map Exe.str else (ea[1]!).getNat? |>.map Exe.special
  let ens ← j.getObjVal? "ensure"
  let ensure ← if ens.isNull then pure none else (unhex ens).map some
  pure { exe, args := ← unhex (← j.getObjVal? "args"), enabled := ← j.getObjValAs? Bool "enabled",
         ensure, useProcWin := ← j.getObjValAs? Bool "upw", noWait := ← j.getObjValAs? Bool "nowait" }

def cmdJson (c : Cmd) : Json :=
  Json.mkObj [
    ("exe", match c.exe with
      | .str s => Json.arr #[Json.str "str", hex s]
      | .special k => Json.arr #[Json.str "special", Json.num (JsonNumber.fromNat k)]),
    ("args", hex c.args), ("enabled", Json.bool c.enabled), ("ensure", hexOpt c.ensure),
    ("upw", Json.bool c.useProcWin), ("nowait", Json.bool c.noWait)]

def fileOf (j : Json) : Except String CmdFile := do
  let a ← j.getArr?
  a.toList.mapM fun p => do
    let q ← p.getArr?
    let cmds ← (← (q[1]!).getArr?).toList.mapM cmdOf
    pure (← unhex q[0]!, cmds)

def fileJson (f : CmdFile) : Json :=
  Json.arr (f.map fun (n, cs) => Json.arr #[hex n, Json.arr (cs.map cmdJson).toArray]).toArray

def hexList (j : Json) : Except String (List Bytes) := do
  (← j.getArr?).toList.mapM unhex

def entryOf (j : Json) : Except String Entry := do
  pure { crc := ← j.getObjValAs? Nat "crc", durMs := ← j.getObjValAs? Nat "dur",
         lastMs := ← j.getObjValAs? Nat "last", sounds := ← hexList (← j.getObjVal? "sounds"),
         strs := ← hexList (← j.getObjVal? "strs"), raw := ← unhex (← j.getObjVal? "raw"),
         comp := ← unhex (← j.getObjVal? "comp") }

def nat (n : Nat) : Json := Json.num (JsonNumber.fromNat n)

def intOfStr (j : Json) : Except String Int := do
  let s ← j.getStr?
  match s.toInt? with
  | some i => pure i
  | none => throw s!"bad integer {s}"

def handle (j : Json) : Except String Json := do
  let op ← j.getObjValAs? String "op"
  let r (x : Json) := Json.mkObj [("r", x)]
  match op with
  | "pad" => pure (r (hexOpt (pad (← unhex (← j.getObjVal? "s")) (← j.getObjValAs? Nat "n"))))
  | "strip" => pure (r (hexOpt (strip (← unhex (← j.getObjVal? "s")))))
  | "cmd_write" =>
    pure (r (hexOpt (write Gen.C20.cmdTables (← fileOf (← j.getObjVal? "seqs")))))
  | "cmd_parse" =>
    pure (r (match parse Gen.C20.cmdTables (← unhex (← j.getObjVal? "b")) with
      | some f => fileJson f
      | none => Json.null))
  | "img_build" =>
    let es ← (← (← j.getObjVal? "entries").getArr?).toList.mapM entryOf
    pure (r (hex (buildImage (← j.getObjValAs? Nat "version") es)))
  | "img_parse" =>
    pure (r (match parseImage (← unhex (← j.getObjVal? "b")) with
      | none => Json.null
      | some (v, es) => Json.arr #[nat v, Json.arr (es.map fun e =>
          Json.arr #[nat e.crc, nat e.durMs, nat e.lastMs, Json.arr (e.sounds.map hex).toArray,
                     hex e.data]).toArray]))
  | "bsearch" =>
    let keys ← Wire.natList (← j.getObjVal? "keys")
    pure (r (match bsearch keys (← j.getObjValAs? Nat "k") with
      | some i => nat i
      | none => Json.null))
  | "round" =>
    let num ← intOfStr (← j.getObjVal? "num")
    let den ← intOfStr (← j.getObjVal? "den")
    pure (r (Json.str (toString (roundHE num den.toNat))))
  | "encq" =>
    let num ← intOfStr (← j.getObjVal? "num")
    let den ← intOfStr (← j.getObjVal? "den")
    pure (r (nat (encQ (← j.getObjValAs? Nat "hi") num den.toNat)))
  | "sorted_set" =>
    pure (r (Json.arr ((sortedSet (← hexList (← j.getObjVal? "l"))).map hex).toArray))
  | "snd_quote" =>
    pure (r (Wire.codesOfStr (sndQuote Gen.Tok.tables (← Wire.strOfCodes (← j.getObjVal? "s")))))
  | "vmt_quote" =>
    pure (r (Wire.codesOfStr (vmtQuote Gen.Tok.tables Gen.C20.vmtLead
      (← Wire.strOfCodes (← j.getObjVal? "s")))))
  | _ => throw s!"unknown op {op}"

def main : IO Unit := Wire.main handle
