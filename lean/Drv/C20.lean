import Srctools.Wire
import Srctools.Model.C20
import Srctools.Model.C20Bvcd
import Srctools.Model.C20Snd
import Srctools.Model.C20Vmt
import Srctools.Model.C20Smd
import Srctools.Gen.Kvser
import Srctools.Gen.Tok
import Srctools.Gen.C20
/-! Driver for the C20 models. Byte strings travel as hex strings, text as code-point arrays,
big integers as decimal strings.
  {"op":"pad","s":hex,"n":N}            → {"r":hex|null}
  {"op":"strip","s":hex}                → {"r":hex|null}
  {"op":"cmd_write","seqs":[[hex,[cmd…]]…]} → {"r":hex|null}
        cmd = {"exe":["str",hex]|["special",N],"args":hex,"enabled":b,"ensure":hex|null,"upw":b,"nowait":b}
  {"op":"cmd_parse","b":hex}            → {"r":null|[[hex,[cmd…]]…]}
  {"op":"img_build","version":N,"entries":[{"crc","dur","last","sounds":[hex],"strs":[hex],"raw":hex,"comp":hex}…]} → {"r":hex}
  {"op":"img_parse","b":hex}            → {"r":null|[version,[[crc,dur,last,[hex…],hex]…]]}
  {"op":"bsearch","keys":[N…],"k":N}    → {"r":null|index}
  {"op":"round","num":"…","den":"…"}    → {"r":"…"}
  {"op":"encq","hi":N,"num":"…","den":"…"} → {"r":N}
  {"op":"sorted_set","l":[hex…]}        → {"r":[hex…]}
  {"op":"snd_quote","s":[cp…]}          → {"r":[cp…]}
  {"op":"vmt_quote","s":[cp…]}          → {"r":[cp…]}
  {"op":"bvcd_enc","scene":S,"pool0":[hex…]} → {"r":hex,"pool":[hex…],"strs":[hex…]}   (pool = pool0 + strings in call order)
  {"op":"bvcd_dec","b":hex,"pool":[hex…]}    → {"r":null|S}
  {"op":"smd_bones","bones":[[[cp],[cp]|null]…]} → {"r":[[cp]…]|null}       (bone names in the index order Mesh.export gives them)
  {"op":"smd_vertex","v":{"x","y","z","nx","ny","nz","u","v":[cp],"links":[[[cp],[cp]]…]},"known":[[cp]…]}
        → {"line":[cp…],"parsed":V|null,"norm":V}                         (one vertex line written, read back, normVertex)
  {"op":"vmt_export","m":VMT,"fold":[[cp,[cp]]]} → {"text","toks","lexed","lexok","parsed"}   (Material.export text, the tokens it denotes,
        the tokens the tokenizer model finds in it, Material.parse of it);  VMT = {"shader":[cp],"params":[[[cp],[cp]]],"blocks":[KV],"proxies":[KV]}
  {"op":"vmt_parse","text":[cp],"fold":…}  → {"r":VMT|null}                     (Material.parse on any text)
  {"op":"snd_export","sound":SND}          → {"text":[cp…],"kv":KV,"norm":OUT}   (Sound.export text, the tree it denotes, normSnd)
  {"op":"snd_parse","kv":KV,"env":ENV}     → {"r":OUT|{"err":…}}                 (Sound.parse_one on a Keyvalues tree)
        KV = ["l",[cp],[cp]] | ["b",[cp],[KV…]]
  {"op":"img_save","version":N,"entries":[{"crc","dur","last","sounds":[hex],"comp":hex,"scene":S|null,
        "lazy":null|[poolId,[hex…],hex]}…]}      → {"r":hex|null}   (save_scenes_image_sync on a mix of parsed and lazy entries)
  S = {"crc","events":[E],"actors":[{"name","active","channels":[{"name","active","events":[E]}]}],"ramp":[[t,Q]],"ip"}
  E = {"extra":["plain",t]|["gesture",d]|["loop","c"]|["speak",cc,hex,b,b,b],"name","start","stop","p":[hex×3],
       "ramp","flags","dist","rel","timing","absP","absS":[[hex,Q]],"tn","tw":hex|null,"flex":[F]}
  F = {"name","active","min","max","mag":[[t,Q,c1,c2]],"dir":null|[…]};  Q = "decimal string of the float64 bit pattern"
-/
open Lean C20

def hexDigit (c : Char) : Option Nat :=
  if '0' ≤ c ∧ c ≤ '9' then some (c.toNat - 48)
  else if 'a' ≤ c ∧ c ≤ 'f' then some (c.toNat - 87)
  else if 'A' ≤ c ∧ c ≤ 'F' then some (c.toNat - 55)
  else none

def unhexAux : List Char → List UInt8 → Except String (List UInt8)
  | [], acc => pure acc.reverse
  | [_], _ => throw "odd hex length"
  | a :: b :: rest, acc =>
    match hexDigit a, hexDigit b with
    | some x, some y => unhexAux rest (UInt8.ofNat (16 * x + y) :: acc)
    | _, _ => throw "bad hex digit"

def unhex (j : Json) : Except String Bytes := do
  let s ← j.getStr?
  unhexAux s.toList []

def hexChar (n : Nat) : Char := if n < 10 then Char.ofNat (48 + n) else Char.ofNat (87 + n)

def hex (b : Bytes) : Json :=
  Json.str (String.ofList (b.flatMap fun x => [hexChar (x.toNat / 16), hexChar (x.toNat % 16)]))

def hexOpt : Option Bytes → Json
  | some b => hex b
  | none => Json.null

def cmdOf (j : Json) : Except String Cmd := do
  let e ← j.getObjVal? "exe"
  let ea ← e.getArr?
  let kind ← (ea[0]!).getStr?
  let exe ← if kind == "str" then (unhex ea[1]!).map Exe.str else (ea[1]!).getNat? |>.map Exe.special
  let ens ← j.getObjVal? "ensure"
  let ensure ← if ens.isNull then pure none else (unhex ens).map some
  pure { exe, args := ← unhex (← j.getObjVal? "args"), enabled := ← j.getObjValAs? Bool "enabled",
         ensure, useProcWin := ← j.getObjValAs? Bool "upw", noWait := ← j.getObjValAs? Bool "nowait" }

def cmdJson (c : Cmd) : Json :=
  Json.mkObj [
    ("exe", match c.exe with
      | .str s => Json.arr #[Json.str "str", hex s]
      | .special k => Json.arr #[Json.str "special", Json.num (JsonNumber.fromNat k)]),
    ("args", hex c.args), ("enabled", Json.bool c.enabled), ("ensure", hexOpt c.ensure),
    ("upw", Json.bool c.useProcWin), ("nowait", Json.bool c.noWait)]

def fileOf (j : Json) : Except String CmdFile := do
  let a ← j.getArr?
  a.toList.mapM fun p => do
    let q ← p.getArr?
    let cmds ← (← (q[1]!).getArr?).toList.mapM cmdOf
    pure (← unhex q[0]!, cmds)

def fileJson (f : CmdFile) : Json :=
  Json.arr (f.map fun (n, cs) => Json.arr #[hex n, Json.arr (cs.map cmdJson).toArray]).toArray

def hexList (j : Json) : Except String (List Bytes) := do
  (← j.getArr?).toList.mapM unhex

def entryOf (j : Json) : Except String Entry := do
  pure { crc := ← j.getObjValAs? Nat "crc", durMs := ← j.getObjValAs? Nat "dur",
         lastMs := ← j.getObjValAs? Nat "last", sounds := ← hexList (← j.getObjVal? "sounds"),
         strs := ← hexList (← j.getObjVal? "strs"), raw := ← unhex (← j.getObjVal? "raw"),
         comp := ← unhex (← j.getObjVal? "comp") }

def nat (n : Nat) : Json := Json.num (JsonNumber.fromNat n)

def intOfStr (j : Json) : Except String Int := do
  let s ← j.getStr?
  match s.toInt? with
  | some i => pure i
  | none => throw s!"bad integer {s}"

namespace BJ
open C20.Bvcd

/-- a quantised value travels as the decimal string of its float64 bit pattern -/
def qOf (j : Json) : Except String QVal := do
  pure (B64.decode (UInt64.ofNat (← intOfStr j).toNat))

def qJ (q : QVal) : Json := Json.str (toString (B64.encode q).toNat)

def arrOf {α : Type} (f : Json → Except String α) (j : Json) : Except String (List α) := do
  (← j.getArr?).toList.mapM f

def arrJ {α : Type} (f : α → Json) (l : List α) : Json := Json.arr (l.map f).toArray

def rampOf (j : Json) : Except String RampSample := do
  let a ← j.getArr?
  pure { time := ← (a[0]!).getNat?, value := ← qOf a[1]! }

def rampJ (s : RampSample) : Json := Json.arr #[nat s.time, qJ s.value]

def fsOf (j : Json) : Except String FlexSample := do
  let a ← j.getArr?
  pure { time := ← (a[0]!).getNat?, value := ← qOf a[1]!, c1 := ← (a[2]!).getNat?, c2 := ← (a[3]!).getNat? }

def fsJ (s : FlexSample) : Json := Json.arr #[nat s.time, qJ s.value, nat s.c1, nat s.c2]

def tagOf (j : Json) : Except String Tag := do
  let a ← j.getArr?
  pure { name := ← unhex a[0]!, value := ← qOf a[1]! }

def tagJ (t : Tag) : Json := Json.arr #[hex t.name, qJ t.value]

def optHex (j : Json) : Except String (Option Bytes) :=
  if j.isNull then pure none else (unhex j).map some

def flexOf (j : Json) : Except String Flex := do
  let d ← j.getObjVal? "dir"
  pure { name := ← unhex (← j.getObjVal? "name"), active := ← j.getObjValAs? Bool "active",
         min := ← j.getObjValAs? Nat "min", max := ← j.getObjValAs? Nat "max",
         mag := ← arrOf fsOf (← j.getObjVal? "mag"),
         dir := ← (if d.isNull then pure none else (arrOf fsOf d).map some) }

def flexJ (f : Flex) : Json :=
  Json.mkObj [("name", hex f.name), ("active", Json.bool f.active), ("min", nat f.min), ("max", nat f.max),
    ("mag", arrJ fsJ f.mag), ("dir", match f.dir with | none => Json.null | some d => arrJ fsJ d)]

def extraOf (j : Json) : Except String Extra := do
  let a ← j.getArr?
  let k ← (a[0]!).getStr?
  match k with
  | "plain" => pure (.plain (← (a[1]!).getNat?))
  | "gesture" => pure (.gesture (← (a[1]!).getNat?))
  | "loop" => pure (.loop (← intOfStr a[1]!))
  | "speak" => pure (.speak (← (a[1]!).getNat?) (← unhex a[2]!) (← (a[3]!).getBool?) (← (a[4]!).getBool?)
      (← (a[5]!).getBool?))
  | _ => throw "bad extra"

def extraJ : Extra → Json
  | .plain t => Json.arr #[Json.str "plain", nat t]
  | .gesture d => Json.arr #[Json.str "gesture", nat d]
  | .loop c => Json.arr #[Json.str "loop", Json.str (toString c)]
  | .speak cc tok a b c => Json.arr #[Json.str "speak", nat cc, hex tok, Json.bool a, Json.bool b, Json.bool c]

def eventOf (j : Json) : Except String Event := do
  let p ← (← j.getObjVal? "p").getArr?
  pure { extra := ← extraOf (← j.getObjVal? "extra"), name := ← unhex (← j.getObjVal? "name"),
         start := ← j.getObjValAs? Nat "start", stop := ← j.getObjValAs? Nat "stop",
         p1 := ← unhex p[0]!, p2 := ← unhex p[1]!, p3 := ← unhex p[2]!,
         ramp := ← arrOf rampOf (← j.getObjVal? "ramp"), flags := ← j.getObjValAs? Nat "flags",
         dist := ← j.getObjValAs? Nat "dist", rel := ← arrOf tagOf (← j.getObjVal? "rel"),
         timing := ← arrOf tagOf (← j.getObjVal? "timing"), absP := ← arrOf tagOf (← j.getObjVal? "absP"),
         absS := ← arrOf tagOf (← j.getObjVal? "absS"), tagName := ← optHex (← j.getObjVal? "tn"),
         tagWav := ← optHex (← j.getObjVal? "tw"), flex := ← arrOf flexOf (← j.getObjVal? "flex") }

def eventJ (e : Event) : Json :=
  Json.mkObj [("extra", extraJ e.extra), ("name", hex e.name), ("start", nat e.start), ("stop", nat e.stop),
    ("p", Json.arr #[hex e.p1, hex e.p2, hex e.p3]), ("ramp", arrJ rampJ e.ramp), ("flags", nat e.flags),
    ("dist", nat e.dist), ("rel", arrJ tagJ e.rel), ("timing", arrJ tagJ e.timing), ("absP", arrJ tagJ e.absP),
    ("absS", arrJ tagJ e.absS), ("tn", hexOpt e.tagName), ("tw", hexOpt e.tagWav), ("flex", arrJ flexJ e.flex)]

def channelOf (j : Json) : Except String Channel := do
  pure { name := ← unhex (← j.getObjVal? "name"), active := ← j.getObjValAs? Bool "active",
         events := ← arrOf eventOf (← j.getObjVal? "events") }

def channelJ (c : Channel) : Json :=
  Json.mkObj [("name", hex c.name), ("active", Json.bool c.active), ("events", arrJ eventJ c.events)]

def actorOf (j : Json) : Except String Actor := do
  pure { name := ← unhex (← j.getObjVal? "name"), active := ← j.getObjValAs? Bool "active",
         channels := ← arrOf channelOf (← j.getObjVal? "channels") }

def actorJ (a : Actor) : Json :=
  Json.mkObj [("name", hex a.name), ("active", Json.bool a.active), ("channels", arrJ channelJ a.channels)]

def sceneOf (j : Json) : Except String Scene := do
  pure { crc := ← j.getObjValAs? Nat "crc", events := ← arrOf eventOf (← j.getObjVal? "events"),
         actors := ← arrOf actorOf (← j.getObjVal? "actors"), ramp := ← arrOf rampOf (← j.getObjVal? "ramp"),
         ignorePhonemes := ← j.getObjValAs? Bool "ip" }

def sceneJ (s : Scene) : Json :=
  Json.mkObj [("crc", nat s.crc), ("events", arrJ eventJ s.events), ("actors", arrJ actorJ s.actors),
    ("ramp", arrJ rampJ s.ramp), ("ip", Json.bool s.ignorePhonemes)]

end BJ

namespace SJ
open C20.Snd C01

def strOf (j : Json) : Except String (List Char) := Wire.strOfCodes j
def strJ (s : List Char) : Json := Wire.codesOfStr s

partial def kvOf (j : Json) : Except String KV := do
  let a ← j.getArr?
  let k ← (a[0]!).getStr?
  if k == "l" then pure (KV.leaf (← strOf a[1]!) (← strOf a[2]!))
  else do
    let cs ← (← (a[2]!).getArr?).toList.mapM kvOf
    pure (KV.block (← strOf a[1]!) cs)

partial def kvJ : KV → Json
  | KV.leaf n v => Json.arr #[Json.str "l", strJ n, strJ v]
  | KV.block n cs => Json.arr #[Json.str "b", strJ n, Json.arr (cs.map kvJ).toArray]

def valOf (j : Json) : Except String Val := do
  let a ← j.getArr?
  let k ← (a[0]!).getStr?
  if k == "enum" then pure (Val.enum (← strOf a[1]!)) else pure (Val.num (← strOf a[1]!))

def valJ : Val → Json
  | .enum n => Json.arr #[Json.str "enum", strJ n]
  | .num t => Json.arr #[Json.str "num", strJ t]

def pairOf (j : Json) : Except String Pair := do
  let a ← j.getArr?
  pure { lo := ← valOf a[0]!, hi := ← valOf a[1]!, same := ← (a[2]!).getBool? }

def chanOf (j : Json) : Except String Chan := do
  let a ← j.getArr?
  let k ← (a[0]!).getStr?
  if k == "enum" then pure (Chan.enum (← strOf a[1]!)) else pure (Chan.int (← strOf a[1]!))

def chanJ : Chan → Json
  | .enum n => Json.arr #[Json.str "enum", strJ n]
  | .int t => Json.arr #[Json.str "int", strJ t]

def kvsOf (j : Json) : Except String (List KV) := do (← j.getArr?).toList.mapM kvOf

def soundOf (j : Json) : Except String SoundIn := do
  pure { name := ← strOf (← j.getObjVal? "name"),
         waves := ← (← (← j.getObjVal? "waves").getArr?).toList.mapM strOf,
         volume := ← pairOf (← j.getObjVal? "volume"), volDefault := ← j.getObjValAs? Bool "volDefault",
         pitch := ← pairOf (← j.getObjVal? "pitch"), pitchDefault := ← j.getObjValAs? Bool "pitchDefault",
         level := ← pairOf (← j.getObjVal? "level"), channel := ← chanOf (← j.getObjVal? "channel"),
         forceV2 := ← j.getObjValAs? Bool "forceV2", start := ← kvsOf (← j.getObjVal? "start"),
         update := ← kvsOf (← j.getObjVal? "update"), stop := ← kvsOf (← j.getObjVal? "stop") }

def pairsOf (j : Json) : Except String (List (List Char × List Char)) := do
  (← j.getArr?).toList.mapM fun p => do
    let a ← p.getArr?
    pure (← strOf a[0]!, ← strOf a[1]!)

def envOf (j : Json) : Except String Env := do
  let fold ← (← (← j.getObjVal? "fold").getArr?).toList.mapM fun p => do
    let a ← p.getArr?
    pure (Char.ofNat (← (a[0]!).getNat?), ← strOf a[1]!)
  pure { fold := fun c => match fold.find? (·.1 == c) with | some p => p.2 | none => [c],
         volumes := ← pairsOf (← j.getObjVal? "volumes"), pitches := ← pairsOf (← j.getObjVal? "pitches"),
         levels := ← pairsOf (← j.getObjVal? "levels"),
         channels := ← (← (← j.getObjVal? "channels").getArr?).toList.mapM strOf,
         canon := ← pairsOf (← j.getObjVal? "canon") }

def vvJ (p : Val × Val) : Json := Json.arr #[valJ p.1, valJ p.2]

def outJ (s : SoundOut) : Json :=
  Json.mkObj [("name", strJ s.name), ("waves", Json.arr (s.waves.map strJ).toArray), ("volume", vvJ s.volume),
    ("pitch", vvJ s.pitch), ("level", vvJ s.level), ("channel", chanJ s.channel), ("v2", Json.bool s.v2),
    ("stacks", match s.stacks with
      | none => Json.null
      | some (a, b, c) => Json.arr #[Json.arr (a.map kvJ).toArray, Json.arr (b.map kvJ).toArray,
                                     Json.arr (c.map kvJ).toArray])]
end SJ

def foldOfJ (j : Json) : Except String (Char → List Char) := do
  let fold ← (← j.getArr?).toList.mapM fun p => do
    let a ← p.getArr?
    pure (Char.ofNat (← (a[0]!).getNat?), ← Wire.strOfCodes a[1]!)
  pure fun c => match fold.find? (·.1 == c) with | some p => p.2 | none => [c]

namespace VJ
open C20.Vmt

def vmtOf (j : Json) : Except String Vmt := do
  let ps ← (← (← j.getObjVal? "params").getArr?).toList.mapM fun p => do
    let a ← p.getArr?
    pure (← SJ.strOf a[0]!, ← SJ.strOf a[1]!)
  pure { shader := ← SJ.strOf (← j.getObjVal? "shader"), params := ps,
         blocks := ← SJ.kvsOf (← j.getObjVal? "blocks"), proxies := ← SJ.kvsOf (← j.getObjVal? "proxies") }

def vmtJ (m : Vmt) : Json :=
  Json.mkObj [("shader", SJ.strJ m.shader),
    ("params", Json.arr (m.params.map fun p => Json.arr #[SJ.strJ p.1, SJ.strJ p.2]).toArray),
    ("blocks", Json.arr (m.blocks.map SJ.kvJ).toArray), ("proxies", Json.arr (m.proxies.map SJ.kvJ).toArray)]

def tksJ (l : List Tk) : Json := Json.arr (l.map fun t => Json.arr #[nat t.1, SJ.strJ t.2]).toArray
end VJ

def handle (j : Json) : Except String Json := do
  let op ← j.getObjValAs? String "op"
  let r (x : Json) := Json.mkObj [("r", x)]
  match op with
  | "pad" => pure (r (hexOpt (pad (← unhex (← j.getObjVal? "s")) (← j.getObjValAs? Nat "n"))))
  | "strip" => pure (r (hexOpt (strip (← unhex (← j.getObjVal? "s")))))
  | "cmd_write" =>
    pure (r (hexOpt (write Gen.C20.cmdTables (← fileOf (← j.getObjVal? "seqs")))))
  | "cmd_parse" =>
    pure (r (match parse Gen.C20.cmdTables (← unhex (← j.getObjVal? "b")) with
      | some f => fileJson f
      | none => Json.null))
  | "img_build" =>
    let es ← (← (← j.getObjVal? "entries").getArr?).toList.mapM entryOf
    pure (r (hex (buildImage (← j.getObjValAs? Nat "version") es)))
  | "img_parse" =>
    pure (r (match parseImage (← unhex (← j.getObjVal? "b")) with
      | none => Json.null
      | some (v, es) => Json.arr #[nat v, Json.arr (es.map fun e =>
          Json.arr #[nat e.crc, nat e.durMs, nat e.lastMs, Json.arr (e.sounds.map hex).toArray,
                     hex e.data]).toArray]))
  | "bsearch" =>
    let keys ← Wire.natList (← j.getObjVal? "keys")
    pure (r (match bsearch keys (← j.getObjValAs? Nat "k") with
      | some i => nat i
      | none => Json.null))
  | "round" =>
    let num ← intOfStr (← j.getObjVal? "num")
    let den ← intOfStr (← j.getObjVal? "den")
    pure (r (Json.str (toString (roundHE num den.toNat))))
  | "encq" =>
    let num ← intOfStr (← j.getObjVal? "num")
    let den ← intOfStr (← j.getObjVal? "den")
    pure (r (nat (encQ (← j.getObjValAs? Nat "hi") num den.toNat)))
  | "sorted_set" =>
    pure (r (Json.arr ((sortedSet (← hexList (← j.getObjVal? "l"))).map hex).toArray))
  | "snd_quote" =>
    pure (r (Wire.codesOfStr (sndQuote Gen.Tok.tables (← Wire.strOfCodes (← j.getObjVal? "s")))))
  | "vmt_quote" =>
    pure (r (Wire.codesOfStr (vmtQuote Gen.Tok.tables Gen.C20.vmtLead
      (← Wire.strOfCodes (← j.getObjVal? "s")))))
  | "smd_bones" =>
    let bs ← (← (← j.getObjVal? "bones").getArr?).toList.mapM fun b => do
      let a ← b.getArr?
      let p := a[1]!
      pure ({ name := ← SJ.strOf a[0]!, parent := ← (if p.isNull then pure none else (SJ.strOf p).map some) } : C20.Smd.Bone)
    pure (r (match C20.Smd.numberBones bs with
      | some l => Json.arr (l.map SJ.strJ).toArray
      | none => Json.null))
  | "smd_vertex" =>
    let vj ← j.getObjVal? "v"
    let f (k : String) : Except String (List Char) := do SJ.strOf (← vj.getObjVal? k)
    let ls ← (← (← vj.getObjVal? "links").getArr?).toList.mapM fun l => do
      let a ← l.getArr?
      pure (← SJ.strOf a[0]!, ← SJ.strOf a[1]!)
    let vx : C20.Smd.Vertex := { pos := (← f "x", ← f "y", ← f "z"), norm := (← f "nx", ← f "ny", ← f "nz"),
                                 u := ← f "u", v := ← f "v", links := ls }
    let known ← (← (← j.getObjVal? "known").getArr?).toList.mapM SJ.strOf
    let vJ (x : C20.Smd.Vertex) : Json := Json.mkObj [("x", SJ.strJ x.pos.1), ("y", SJ.strJ x.pos.2.1), ("z", SJ.strJ x.pos.2.2),
      ("nx", SJ.strJ x.norm.1), ("ny", SJ.strJ x.norm.2.1), ("nz", SJ.strJ x.norm.2.2), ("u", SJ.strJ x.u), ("v", SJ.strJ x.v),
      ("links", Json.arr (x.links.map fun l => Json.arr #[SJ.strJ l.1, SJ.strJ l.2]).toArray)]
    let line := C20.Smd.vertexLine vx
    pure (Json.mkObj [("line", Wire.codesOfStr line),
      ("parsed", match C20.Smd.parseVertexLine (fun b => known.contains b) line with
        | some x => vJ x
        | none => Json.null),
      ("norm", vJ (C20.Smd.normVertex vx))])
  | "vmt_export" =>
    let m ← VJ.vmtOf (← j.getObjVal? "m")
    let fold ← foldOfJ (← j.getObjVal? "fold")
    let text := C20.Vmt.exportVmt Gen.Tok.tables Gen.C20.vmtLead m
    let run := Tok.run Gen.Tok.tables C20.vmtOpts fold text
    pure (Json.mkObj [("text", Wire.codesOfStr text), ("toks", VJ.tksJ (C20.Vmt.toksVmt m)),
      ("lexed", VJ.tksJ (run.toks.map fun o => (o.kind, o.value))), ("lexok", Json.bool run.err.isNone),
      ("parsed", match C20.Vmt.parseVmtRun fold run with | some x => VJ.vmtJ x | none => Json.null)])
  | "vmt_parse" =>
    let fold ← foldOfJ (← j.getObjVal? "fold")
    pure (r (match C20.Vmt.parseVmtText Gen.Tok.tables fold (← Wire.strOfCodes (← j.getObjVal? "text")) with
      | some x => VJ.vmtJ x
      | none => Json.null))
  | "snd_export" =>
    let snd ← SJ.soundOf (← j.getObjVal? "sound")
    pure (Json.mkObj [("text", Wire.codesOfStr (C20.Snd.exportSndText Gen.Tok.tables Gen.Kvser.cfg snd)),
      ("kv", SJ.kvJ (C20.Snd.exportSndKV snd)), ("norm", SJ.outJ (C20.Snd.normSnd snd))])
  | "snd_parse" =>
    let env ← SJ.envOf (← j.getObjVal? "env")
    pure (r (match C20.Snd.parseSnd env (← SJ.kvOf (← j.getObjVal? "kv")) with
      | .ok o => SJ.outJ o
      | .error e => Json.mkObj [("err", Json.str (reprStr e))]))
  | "img_save" =>
    let es ← (← (← j.getObjVal? "entries").getArr?).toList.mapM fun e => do
      let lz ← e.getObjVal? "lazy"
      let src ← if lz.isNull then (BJ.sceneOf (← e.getObjVal? "scene")).map C20.Bvcd.Src.scene
        else do
          let a ← lz.getArr?
          pure (C20.Bvcd.Src.lazy (← (a[0]!).getNat?) (← hexList a[1]!) (← unhex a[2]!))
      pure ({ crc := ← e.getObjValAs? Nat "crc", durMs := ← e.getObjValAs? Nat "dur",
              lastMs := ← e.getObjValAs? Nat "last", sounds := ← hexList (← e.getObjVal? "sounds"),
              src := src, comp := ← unhex (← e.getObjVal? "comp") } : C20.Bvcd.MEntry)
    pure (r (hexOpt (C20.Bvcd.saveImage (← j.getObjValAs? Nat "version") es)))
  | "bvcd_enc" =>
    let sc ← BJ.sceneOf (← j.getObjVal? "scene")
    let pool0 ← hexList (← j.getObjVal? "pool0")
    let strs := C20.Bvcd.sceneStrs sc
    let pool := addAll pool0 strs
    pure (Json.mkObj [("r", hex (C20.Bvcd.encScene (poolIndex pool) sc)),
      ("pool", Json.arr (pool.map hex).toArray), ("strs", Json.arr (strs.map hex).toArray)])
  | "bvcd_dec" =>
    let pool ← hexList (← j.getObjVal? "pool")
    pure (r (match C20.Bvcd.decodeScene pool (← unhex (← j.getObjVal? "b")) with
      | some sc => BJ.sceneJ sc
      | none => Json.null))
  | _ => throw s!"unknown op {op}"

def main : IO Unit := Wire.main handle
