import Srctools.Wire
import Srctools.Model.C11
import Srctools.Gen.Bspfmt
import Srctools.Model.C11Ent
import Srctools.Model.C11Lumps
import Srctools.Gen.Tok
/-! Driver for the C11 models (struct codec, RLE, index builders, lump encoders).
requests (bytes are arrays of 0..255, text arrays of code points):
  {"op":"rle_enc","d":[b…]}                              → {"r":[b…]}
  {"op":"rle_dec","d":[b…],"start":n,"max":n|null}       → {"r":[b…]} | {"err":"truncated"}
  {"op":"foi","mod":m,"init":[n…],"calls":[n…]}          → {"idx":[n…],"list":[n…]}      key = x % m (m=0: identity)
  {"op":"texdata","ids":[n…]}                            → {"idx":[n…],"order":[n…]}   texdata table of _lmp_write_texinfo (key = object)
  {"op":"foe","mod":m,"bounded":b|null,"init":[n…],"calls":[[n…]…]} → {"idx":[n…],"list":[n…]}   (null: as extracted from the source)
  {"op":"pack","fmt":[cp…],"vals":[v…]}                  → {"r":[b…]} | {"err":e}       v = {"i":n}|{"f":bits}|{"d":bits}|{"b":bool}|{"s":[b…]}
  {"op":"unpack","fmt":[cp…],"d":[b…]}                   → {"vals":[v…]} | {"err":e}
  {"op":"recs","rec":name,"layout":name,"rows":[[v…]…]}  → {"r":[b…]} | {"err":e}        record formats from Gen (writer side)
  {"op":"recs_read","rec":name,"layout":name,"d":[b…]}   → {"rows":[[v…]…]} | {"err":e}  (reader side)
  {"op":"tex","names":[[b…]…]}                           → {"data":[b…],"table":[b…]} | {"err":e}
  {"op":"tex_read","data":[b…],"offs":[n…]}              → {"names":[[b…]…]} | {"err":e}
  {"op":"vis","pvs":[[b…]…],"pas":[[b…]…]}               → {"r":[b…]} | {"err":e}
  {"op":"vis_read","d":[b…]}                             → {"pvs":[[b…]…],"pas":[[b…]…]} | {"err":e}
  {"op":"name","fn":string,"name":[b…]}                  → {"r":[b…]} | {"err":e}        128s dictionary entry of that writer
  {"op":"prop","version":[cp…],"vals":[v…]}              → {"r":[b…],"size":n} | {"err":e}  one static-prop record (writer segments)
  {"op":"prop_read","version":[cp…],"d":[b…]}            → {"vals":[v…]} | {"err":e}       (reader segments)
  {"op":"ent_write","ents":[[line…]…]}                   → {"r":[cp…]}    line = [key, value] | [name, target, input, params, delay, times, comma]
  {"op":"ent_read","s":[cp…]}                            → {"ents":[[[key],[value],kind, null|[target,input,params,delay,times,comma]]…]…]} | {"err":…}
  {"op":"x_faces","layout":L,"useOrig":b,"tabs":{texinfo,planes,surfedges,prims,origFaces},"faces":[{…}]}
        → {"bytes":[b…],"faceids":[b…],"tabs":{…}} | {"err":e}      faces writer with its finder closures (object numbers)
  {"op":"x_brushes","layout":L,"vitamin":b,"tabs":{planes,texinfo},"sides":[[id,{…}]…],"brushes":[{contents,sides}]}
        → {"brushes":[b…],"sides":[b…],"tabs":{…}}
  {"op":"x_leafs","layout":L,"cfg":{vitamin,hasAmbient,areaOff},"tabs":{faces,brushes},"leafs":[{…}]}
        → {"leafs":[b…],"leaffaces":[b…],"leafbrushes":[b…],"mindist":[b…],"tabs":{…}}
  {"op":"x_nodes","layout":L,"tabs":{planes,leafs,faces},"nodes":[id…],"nd":[[id,{…}]…],"fuel":n}
        → {"bytes":[b…],"nodes":[id…],"tabs":{…}} | {"err":"fuel"}
  {"op":"x_prims","layout":L,"prims":[{typ,indices,verts:[[bits×3]…]}]} → {"prims":[b…],"indices":[b…],"verts":[b…]}
  {"op":"x_texinfo","layout":L,"vitamin":b,"textures":[name id…],"fold":[[name id, class]…],"tdv":[[id,{mat,r,w,h}]…],"infos":[{f,flags,td}]}
        → {"texinfo":[b…],"texdata":[b…],"textures":[name id…]}
  {"op":"x_overlays","texinfo":[id…],"overlays":[{id,texinfo,faces,ro,floats:[22 bits],fmin,fmax,levels:[4]}]}
        → {"overlays":[b…],"fades":[b…],"levels":[b…],"texinfo":[id…]} | {"err":e}
  {"op":"x_surfedges","layout":L,"verts":[id…],"zeros":[id…],"fresh":id,"dummy":id,"ed":[[edge,a,b]…],"ss":[[edge,reversed]…]}
        → {"surfedges":[b…],"edges":[b…],"verts":[id…]}
  {"op":"x_water","layout":L,"texinfo":[id…],"items":[{sz,mz,texinfo}]} → {"bytes":[b…],"texinfo":[id…]}
  {"op":"x_vfaces","tabs":{texinfo,planes,surfedges},"faces":[{plane,texinfo,dispinfo,edges,lm,flags}]} → {"bytes":[b…],"tabs":{…}}
  {"op":"x_bmodels","nodes":[id…],"faces":[id…],"world":id,"entModels":[id…],"md":[[id,{floats,node,faces,kv:[b…]|null,solids:[[b…]…]}]…]}
        → {"idx":[n…],"bytes":[b…],"phys":[b…],"models":[id…],"nodes":[id…],"faces":[id…]} | {"err":e}
  {"op":"x_detail","names":[[name id,[b…]]…],"props":[{f6,leaf,lighting,styles,styleCount,sway,orient, model | rect,scale[,cross,ang,size]}]}
        → {"bytes":[b…]} | {"err":e}                      the whole detail-prop game lump
  {"op":"x_propidx","visleafs":[id…],"props":[{model: name id, leafs:[id…]}]} → {"recs":[[first,count,model index]…],"leafArray":[n…],"models":[…],"visleafs":[…]}
  {"op":"gen"}                                           → facts extracted from the source
-/
open Lean StructCodec C11

def bytesOf (j : Json) : Except String Bytes := do
  let l ← Wire.natList j
  pure (l.map UInt8.ofNat)

def ofBytes (b : Bytes) : Json := Wire.ofNatList (b.map UInt8.toNat)

def valOf (j : Json) : Except String Val := do
  match j.getObjVal? "i" with
  | .ok x => pure (.int (← x.getInt?))
  | .error _ =>
  match j.getObjVal? "f" with
  | .ok x => pure (.f32 (UInt32.ofNat (← x.getNat?)))
  | .error _ =>
  match j.getObjVal? "d" with
  | .ok x => pure (.f64 (UInt64.ofNat (← x.getNat?)))
  | .error _ =>
  match j.getObjVal? "b" with
  | .ok x => pure (.bool (← x.getBool?))
  | .error _ =>
  match j.getObjVal? "s" with
  | .ok x => pure (.bytes (← bytesOf x))
  | .error _ => throw "bad value"

def ofVal : Val → Json
  | .int v => Json.mkObj [("i", Json.num (JsonNumber.fromInt v))]
  | .f32 b => Json.mkObj [("f", Json.num (JsonNumber.fromNat b.toNat))]
  | .f64 b => Json.mkObj [("d", Json.num (JsonNumber.fromNat b.toNat))]
  | .bool b => Json.mkObj [("b", Json.bool b)]
  | .bytes b => Json.mkObj [("s", ofBytes b)]

def valsOf (j : Json) : Except String (List Val) := do
  let a ← j.getArr?
  a.toList.mapM valOf

def errJson (e : String) : Json := Json.mkObj [("err", Json.str e)]

def structErr : StructCodec.Err → String
  | .arity => "arity" | .type => "type" | .range => "range" | .size => "size"

def lumpErr : LumpErr → String
  | .tooLong => "tooLong" | .range => "range" | .badString => "badString" | .badData => "badData"
  | .badEnum => "badEnum" | .mismatch => "mismatch" | .rle => "rle"

def wireOf (s : List Char) : Option Fmt := (parseFmt s).bind Parsed.wire

def wireCat : List (List Char) → Option Fmt
  | [] => some []
  | s :: ss => match wireOf s, wireCat ss with
    | some a, some b => some (a ++ b)
    | _, _ => none

def findPair (rec layout : String) : Option Gen.Bspfmt.Pair :=
  Gen.Bspfmt.pairs.find? (fun p => p.record == rec && (p.layout == layout || p.layout == "*"))

def keyOf (m : Nat) (x : Nat) : Nat := if m = 0 then x else x % m

def foiRun (m : Nat) (init calls : List Nat) : List Nat × List Nat :=
  let f0 : Finder Nat Nat := Finder.mk' (keyOf m) init
  let (idx, f) := calls.foldl (fun (acc : List Nat × Finder Nat Nat) x =>
    let r := acc.2.call (keyOf m) x
    (acc.1 ++ [r.1], r.2)) ([], f0)
  (idx, f.list)

def foeRun (bounded : Bool) (m : Nat) (init : List Nat) (calls : List (List Nat)) : List Nat × List Nat :=
  let f0 : EFinder Nat Nat := EFinder.mk' (keyOf m) init
  let (idx, f) := calls.foldl (fun (acc : List Nat × EFinder Nat Nat) xs =>
    let r := acc.2.call bounded (keyOf m) xs
    (acc.1 ++ [r.1], r.2)) ([], f0)
  (idx, f.list)

def segWire (segs : List (PropCond × List Char)) : Option (List (PropCond × Fmt)) :=
  segs.mapM (fun s => (wireOf s.2).map (fun f => (s.1, f)))

def propFmt (segs : List (PropCond × List Char)) (name : List Char) : Option Fmt := do
  let v ← Gen.Bspfmt.propVersions.find? (fun v => v.name == name)
  let w ← segWire segs
  propRecord v w

def nameGuard (fn : String) : Option (Nat × Bool) :=
  match Gen.Bspfmt.strSites.find? (fun s => s.1 == fn && (match wireOf s.2.1 with | some [FieldFmt.str _] => true | _ => false)) with
  | some s => some (s.2.2.1, s.2.2.2.1)
  | none => none


def natsOf (j : Json) (k : String) : Except String (List Nat) := do Wire.natList (← j.getObjVal? k)
def intOf (j : Json) (k : String) : Except String Int := do (← j.getObjVal? k).getInt?
def natOf (j : Json) (k : String) : Except String Nat := do (← j.getObjVal? k).getNat?
def boolOf (j : Json) (k : String) : Except String Bool := do (← j.getObjVal? k).getBool?
def optNatOf (j : Json) (k : String) : Except String (Option Nat) := do
  match j.getObjVal? k with
  | .ok Json.null => pure none
  | .ok x => pure (some (← x.getNat?))
  | .error _ => pure none
def optIntOf (j : Json) (k : String) : Except String (Option Int) := do
  match j.getObjVal? k with
  | .ok Json.null => pure none
  | .ok x => pure (some (← x.getInt?))
  | .error _ => pure none

def packRecs (rec layout : String) (rows : List (List Val)) : Except String Json :=
  match (findPair rec layout).bind (fun p => wireCat p.writer) with
  | none => throw s!"no format for {rec}/{layout}"
  | some fmt =>
    match packMany fmt rows with
    | .ok b => pure (ofBytes b)
    | .error e => pure (errJson (structErr e))

def val6 (j : Json) : Except String (Val × Val × Val × Val × Val × Val) := do
  let a ← valsOf (← j.getObjVal? "b")
  match a with
  | [b0, b1, b2, b3, b4, b5] => pure (b0, b1, b2, b3, b4, b5)
  | _ => throw "need 6 bounds"

def childOf (j : Json) : Except String ChildV := do
  match j.getObjVal? "leaf" with
  | .ok x => pure (.leaf (← x.getNat?))
  | .error _ => pure (.node (← (← j.getObjVal? "node").getNat?))

def lookupD {α : Type} (tbl : List (Nat × α)) (d : α) (k : Nat) : α :=
  match tbl.find? (·.1 == k) with
  | some p => p.2
  | none => d

def bytesList (j : Json) : Except String (List Bytes) := do
  let a ← j.getArr?
  a.toList.mapM bytesOf

def handle (j : Json) : Except String Json := do
  let op ← j.getObjValAs? String "op"
  match op with
  | "rle_enc" =>
    let d ← bytesOf (← j.getObjVal? "d")
    pure (Json.mkObj [("r", ofBytes (rleEncode d))])
  | "rle_dec" =>
    let d ← bytesOf (← j.getObjVal? "d")
    let start ← j.getObjValAs? Nat "start"
    let mx : Option Nat := match j.getObjVal? "max" with
      | .ok (Json.num n) => some n.mantissa.toNat
      | _ => none
    match rleDecode d start mx with
    | .ok r => pure (Json.mkObj [("r", ofBytes r)])
    | .error _ => pure (errJson "truncated")
  | "foi" =>
    let m ← j.getObjValAs? Nat "mod"
    let init ← Wire.natList (← j.getObjVal? "init")
    let calls ← Wire.natList (← j.getObjVal? "calls")
    let (idx, l) := foiRun m init calls
    pure (Json.mkObj [("idx", Wire.ofNatList idx), ("list", Wire.ofNatList l)])
  | "texdata" =>
    -- texdata index per texinfo + order of the texdata records; items are object numbers (identity key)
    let ids ← Wire.natList (← j.getObjVal? "ids")
    let r := texdataTable (fun (x : Nat) => x) ids
    pure (Json.mkObj [("idx", Wire.ofNatList r.1), ("order", Wire.ofNatList r.2)])
  | "foe" =>
    let m ← j.getObjValAs? Nat "mod"
    let bounded : Bool := match j.getObjVal? "bounded" with
      | .ok (Json.bool b) => b
      | _ => Gen.Bspfmt.findOrExtendBounded
    let init ← Wire.natList (← j.getObjVal? "init")
    let callsJ ← (← j.getObjVal? "calls").getArr?
    let calls ← callsJ.toList.mapM Wire.natList
    let (idx, l) := foeRun bounded m init calls
    pure (Json.mkObj [("idx", Wire.ofNatList idx), ("list", Wire.ofNatList l)])
  | "pack" =>
    let fs ← Wire.strOfCodes (← j.getObjVal? "fmt")
    let vs ← valsOf (← j.getObjVal? "vals")
    match wireOf fs with
    | none => pure (errJson "format")
    | some fmt =>
      match pack fmt vs with
      | .ok b => pure (Json.mkObj [("r", ofBytes b)])
      | .error e => pure (errJson (structErr e))
  | "unpack" =>
    let fs ← Wire.strOfCodes (← j.getObjVal? "fmt")
    let d ← bytesOf (← j.getObjVal? "d")
    match wireOf fs with
    | none => pure (errJson "format")
    | some fmt =>
      match unpack fmt d with
      | .ok vs => pure (Json.mkObj [("vals", Json.arr (vs.map ofVal).toArray)])
      | .error e => pure (errJson (structErr e))
  | "recs" =>
    let rec ← j.getObjValAs? String "rec"
    let layout ← j.getObjValAs? String "layout"
    let rowsJ ← (← j.getObjVal? "rows").getArr?
    let rows ← rowsJ.toList.mapM valsOf
    match (findPair rec layout).bind (fun p => wireCat p.writer) with
    | none => pure (errJson "format")
    | some fmt =>
      match packMany fmt rows with
      | .ok b => pure (Json.mkObj [("r", ofBytes b)])
      | .error e => pure (errJson (structErr e))
  | "recs_read" =>
    let rec ← j.getObjValAs? String "rec"
    let layout ← j.getObjValAs? String "layout"
    let d ← bytesOf (← j.getObjVal? "d")
    match (findPair rec layout).bind (fun p => wireCat p.reader) with
    | none => pure (errJson "format")
    | some fmt =>
      match unpackMany fmt d with
      | .ok rs => pure (Json.mkObj [("rows", Json.arr (rs.map (fun r => Json.arr (r.map ofVal).toArray)).toArray)])
      | .error e => pure (errJson (structErr e))
  | "tex" =>
    let names ← bytesList (← j.getObjVal? "names")
    match texWrite Gen.Bspfmt.textureWriteLimit names with
    | .error e => pure (errJson (lumpErr e))
    | .ok (data, offs) =>
      match offsTable offs with
      | .ok t => pure (Json.mkObj [("data", ofBytes data), ("table", ofBytes t)])
      | .error e => pure (errJson (lumpErr e))
  | "tex_read" =>
    let data ← bytesOf (← j.getObjVal? "data")
    let offs ← Wire.natList (← j.getObjVal? "offs")
    match texRead Gen.Bspfmt.textureReadLimit data offs with
    | .ok ns => pure (Json.mkObj [("names", Json.arr (ns.map ofBytes).toArray)])
    | .error e => pure (errJson (lumpErr e))
  | "vis" =>
    let pvs ← bytesList (← j.getObjVal? "pvs")
    let pas ← bytesList (← j.getObjVal? "pas")
    match visWrite pvs pas with
    | .ok b => pure (Json.mkObj [("r", ofBytes b)])
    | .error e => pure (errJson (lumpErr e))
  | "vis_read" =>
    let d ← bytesOf (← j.getObjVal? "d")
    match visRead d with
    | .ok (p, a) => pure (Json.mkObj [("pvs", Json.arr (p.map ofBytes).toArray), ("pas", Json.arr (a.map ofBytes).toArray)])
    | .error e => pure (errJson (lumpErr e))
  | "name" =>
    let fn ← j.getObjValAs? String "fn"
    let name ← bytesOf (← j.getObjVal? "name")
    match nameGuard fn with
    | none => pure (errJson "format")
    | some (n, g) =>
      match nameWrite g n name with
      | .ok b => pure (Json.mkObj [("r", ofBytes b), ("back", ofBytes (nameRead b))])
      | .error e => pure (errJson (lumpErr e))
  | "prop" =>
    let ver ← Wire.strOfCodes (← j.getObjVal? "version")
    let vs ← valsOf (← j.getObjVal? "vals")
    match propFmt Gen.Bspfmt.propWriterSegs ver with
    | none => pure (errJson "format")
    | some fmt =>
      match pack fmt vs with
      | .ok b => pure (Json.mkObj [("r", ofBytes b), ("size", Json.num (JsonNumber.fromNat (size fmt)))])
      | .error e => pure (errJson (structErr e))
  | "prop_read" =>
    let ver ← Wire.strOfCodes (← j.getObjVal? "version")
    let d ← bytesOf (← j.getObjVal? "d")
    match propFmt Gen.Bspfmt.propReaderSegs ver with
    | none => pure (errJson "format")
    | some fmt =>
      match unpack fmt d with
      | .ok vs => pure (Json.mkObj [("vals", Json.arr (vs.map ofVal).toArray)])
      | .error e => pure (errJson (structErr e))
  | "ent_write" =>
    let entsJ ← (← j.getObjVal? "ents").getArr?
    let ents ← entsJ.toList.mapM fun e => do
      let ls ← e.getArr?
      ls.toList.mapM fun l => do
        let a ← l.getArr?
        if a.size == 2 then
          pure (C11Ent.Line.kv (← Wire.strOfCodes a[0]!) (← Wire.strOfCodes a[1]!))
        else if a.size == 7 then
          let f0 ← Wire.strOfCodes a[0]!
          let f1 ← Wire.strOfCodes a[1]!
          let f2 ← Wire.strOfCodes a[2]!
          let f3 ← Wire.strOfCodes a[3]!
          let f4 ← Wire.strOfCodes a[4]!
          let f5 ← Wire.strOfCodes a[5]!
          let c ← (a[6]!).getBool?
          pure (C11Ent.Line.out { name := f0, target := f1, input := f2, params := f3, delay := f4, times := f5, commaSep := c })
        else throw "line: need [key, value] or [name, target, input, params, delay, times, comma]"
    pure (Json.mkObj [("r", Wire.codesOfStr (C11Ent.entWrite Gen.Tok.tables ents))])
  | "ent_read" =>
    let s ← Wire.strOfCodes (← j.getObjVal? "s")
    match C11Ent.entRead Gen.Tok.tables (fun c => [c]) s with
    | .ok ents =>
      pure (Json.mkObj [("ents", Json.arr (ents.map (fun e => Json.arr (e.map (fun l =>
        Json.arr #[Wire.codesOfStr l.key, Wire.codesOfStr l.value, Json.num (JsonNumber.fromNat l.kind),
          (if l.kind = 0 then Json.null else match C11Ent.parseOut l.value with
            | some (t, i, p, d, n, c) => Json.arr #[Wire.codesOfStr t, Wire.codesOfStr i, Wire.codesOfStr p,
                Wire.codesOfStr d, Wire.codesOfStr n, Json.bool c]
            | none => Json.null)])).toArray)).toArray)])
    | .error e => pure (errJson (reprStr e))
  | "x_faces" =>
    let layout ← j.getObjValAs? String "layout"
    let uo ← boolOf j "useOrig"
    let tj ← j.getObjVal? "tabs"
    let t : FaceTabs := FaceTabs.mk (← natsOf tj "texinfo") (← natsOf tj "planes") (← natsOf tj "surfedges")
      (← natsOf tj "prims") (← natsOf tj "origFaces")
    let fj ← (← j.getObjVal? "faces").getArr?
    let fs ← fj.toList.mapM fun f => do
      let lm ← Wire.intList (← f.getObjVal? "lm")
      let ls ← bytesOf (← f.getObjVal? "ls")
      pure (FaceV.mk (← natOf f "plane") (← boolOf f "sameDir") (← boolOf f "onNode")
              (← natsOf f "edges") (← optNatOf f "texinfo") (← intOf f "dispinfo")
              (← intOf f "fog") ls (← intOf f "lightOff")
              (UInt32.ofNat (← natOf f "area")) lm[0]! lm[1]! lm[2]! lm[3]!
              (← optNatOf f "orig") (← natsOf f "prims") (← boolOf f "dyn")
              (← intOf f "smoothing") (← optIntOf f "hid"))
    match writeFaces Gen.Bspfmt.findOrExtendBounded uo t fs with
    | .error e => pure (errJson (lumpErr e))
    | .ok (recs, hids, t') =>
      pure (Json.mkObj [("bytes", ← packRecs "faces" layout recs),
        ("faceids", ← packRecs "faceids" layout (hids.map (fun h => [Val.int h]))),
        ("tabs", Json.mkObj [("texinfo", Wire.ofNatList t'.texinfo), ("planes", Wire.ofNatList t'.planes),
          ("surfedges", Wire.ofNatList t'.surfedges), ("prims", Wire.ofNatList t'.prims), ("origFaces", Wire.ofNatList t'.origFaces)])])
  | "x_brushes" =>
    let layout ← j.getObjValAs? String "layout"
    let vit ← boolOf j "vitamin"
    let tj ← j.getObjVal? "tabs"
    let t : BrushTabs := { planes := ← natsOf tj "planes", texinfo := ← natsOf tj "texinfo" }
    let sj ← (← j.getObjVal? "sides").getArr?
    let sides ← sj.toList.mapM fun p => do
      let a ← p.getArr?
      let o := a[1]!
      pure ((← (a[0]!).getNat?), SideV.mk (← natOf o "plane") (← natOf o "texinfo") (← intOf o "dispinfo")
             (← boolOf o "bevel") (← natOf o "bits"))
    let bj ← (← j.getObjVal? "brushes").getArr?
    let bs ← bj.toList.mapM fun b => do
      pure ({ contents := ← intOf b "contents", sides := ← natsOf b "sides" } : BrushV)
    let r := writeBrushes Gen.Bspfmt.findOrExtendBounded vit (lookupD sides ⟨0, 0, 0, false, 0⟩) t bs
    pure (Json.mkObj [("brushes", ← packRecs "brushes" layout r.1), ("sides", ← packRecs "brushsides" layout r.2.1),
      ("tabs", Json.mkObj [("planes", Wire.ofNatList r.2.2.planes), ("texinfo", Wire.ofNatList r.2.2.texinfo)])])
  | "x_leafs" =>
    let layout ← j.getObjValAs? String "layout"
    let cj ← j.getObjVal? "cfg"
    let c : LeafCfg := { vitamin := ← boolOf cj "vitamin", hasAmbient := ← boolOf cj "hasAmbient", areaOff := ← natOf cj "areaOff" }
    let tj ← j.getObjVal? "tabs"
    let t : LeafTabs := { faces := ← natsOf tj "faces", brushes := ← natsOf tj "brushes" }
    let lj ← (← j.getObjVal? "leafs").getArr?
    let ls ← lj.toList.mapM fun l => do
      let (b0, b1, b2, b3, b4, b5) ← val6 l
      pure (LeafV.mk (← intOf l "contents") (← intOf l "cluster") (← natOf l "area") (← natOf l "flags")
              b0 b1 b2 b3 b4 b5 (← natsOf l "faces") (← natsOf l "brushes")
              (← intOf l "water") (← bytesOf (← l.getObjVal? "ambient")) (← intOf l "minDist"))
    let r := writeLeafs c t ls
    let ints (l : List Nat) : List (List Val) := l.map (fun (n : Nat) => [Val.int (n : Int)])
    pure (Json.mkObj [("leafs", ← packRecs "leafs" layout r.1), ("leaffaces", ← packRecs "leaffaces" layout (ints r.2.1)),
      ("leafbrushes", ← packRecs "leafbrushes" layout (ints r.2.2.1)),
      ("mindist", ← packRecs "leafmindisttowater" layout (r.2.2.2.1.map (fun d => [Val.int d]))),
      ("tabs", Json.mkObj [("faces", Wire.ofNatList r.2.2.2.2.faces), ("brushes", Wire.ofNatList r.2.2.2.2.brushes)])])
  | "x_nodes" =>
    let layout ← j.getObjValAs? String "layout"
    let tj ← j.getObjVal? "tabs"
    let t : NodeTabs := { planes := ← natsOf tj "planes", leafs := ← natsOf tj "leafs", faces := ← natsOf tj "faces" }
    let nodes ← natsOf j "nodes"
    let fuel ← natOf j "fuel"
    let nj ← (← j.getObjVal? "nd").getArr?
    let nds ← nj.toList.mapM fun p => do
      let a ← p.getArr?
      let o := a[1]!
      let (b0, b1, b2, b3, b4, b5) ← val6 o
      pure ((← (a[0]!).getNat?), NodeV.mk (← natOf o "plane") b0 b1 b2 b3 b4 b5
             (← natsOf o "faces") (← intOf o "area") (← childOf (← o.getObjVal? "neg"))
             (← childOf (← o.getObjVal? "pos")))
    let dflt : NodeV := ⟨0, .int 0, .int 0, .int 0, .int 0, .int 0, .int 0, [], 0, .leaf 0, .leaf 0⟩
    match writeNodes Gen.Bspfmt.findOrExtendBounded (lookupD nds dflt) fuel nodes t with
    | none => pure (errJson "fuel")
    | some (recs, nodes', t') =>
      pure (Json.mkObj [("bytes", ← packRecs "nodes" layout recs), ("nodes", Wire.ofNatList nodes'),
        ("tabs", Json.mkObj [("planes", Wire.ofNatList t'.planes), ("leafs", Wire.ofNatList t'.leafs), ("faces", Wire.ofNatList t'.faces)])])
  | "x_prims" =>
    let layout ← j.getObjValAs? String "layout"
    let pj ← (← j.getObjVal? "prims").getArr?
    let ps ← pj.toList.mapM fun q => do
      let vj ← (← q.getObjVal? "verts").getArr?
      let vs ← vj.toList.mapM fun v => do
        let a ← Wire.natList v
        pure (UInt32.ofNat a[0]!, UInt32.ofNat a[1]!, UInt32.ofNat a[2]!)
      pure (PrimV.mk (← intOf q "typ") (← Wire.intList (← q.getObjVal? "indices")) vs)
    let r := writePrims [] [] ps
    pure (Json.mkObj [("prims", ← packRecs "primitives" layout r.1),
      ("indices", ← packRecs "primindices" layout (r.2.1.map (fun i => [Val.int i]))),
      ("verts", ← packRecs "primverts" layout (r.2.2.map (fun v => [Val.f32 v.1, Val.f32 v.2.1, Val.f32 v.2.2])))])
  | "x_texinfo" =>
    let layout ← j.getObjValAs? String "layout"
    let vit ← boolOf j "vitamin"
    let textures ← natsOf j "textures"
    let fj ← (← j.getObjVal? "fold").getArr?
    let foldT ← fj.toList.mapM fun q => do
      let a ← Wire.natList q
      pure (a[0]!, a[1]!)
    let dj ← (← j.getObjVal? "tdv").getArr?
    let tds ← dj.toList.mapM fun q => do
      let a ← q.getArr?
      let o := a[1]!
      let r ← Wire.natList (← o.getObjVal? "r")
      pure ((← (a[0]!).getNat?), TexDataV.mk (← natOf o "mat") (UInt32.ofNat r[0]!) (UInt32.ofNat r[1]!) (UInt32.ofNat r[2]!)
        (← intOf o "w") (← intOf o "h"))
    let ij ← (← j.getObjVal? "infos").getArr?
    let infos ← ij.toList.mapM fun q => do
      let f ← Wire.natList (← q.getObjVal? "f")
      pure (TexInfoV.mk (f.map UInt32.ofNat) (← intOf q "flags") (← natOf q "td"))
    let fold (n : Nat) : Nat := match foldT.find? (·.1 == n) with
      | some p => p.2
      | none => n
    let r := writeTexinfo vit fold (lookupD tds ⟨0, 0, 0, 0, 0, 0⟩) textures infos
    pure (Json.mkObj [("texinfo", ← packRecs "texinfo" layout r.1), ("texdata", ← packRecs "texdata" layout r.2.1),
      ("textures", Wire.ofNatList r.2.2)])
  | "x_overlays" =>
    let texinfo ← natsOf j "texinfo"
    let oj ← (← j.getObjVal? "overlays").getArr?
    let os ← oj.toList.mapM fun q => do
      let fl ← Wire.natList (← q.getObjVal? "floats")
      let lv ← Wire.intList (← q.getObjVal? "levels")
      pure (OverlayV.mk (← intOf q "id") (← natOf q "texinfo") (← Wire.intList (← q.getObjVal? "faces")) (← natOf q "ro")
        (fl.map UInt32.ofNat) (UInt32.ofNat (← natOf q "fmin")) (UInt32.ofNat (← natOf q "fmax")) lv[0]! lv[1]! lv[2]! lv[3]!)
    match writeOverlays Gen.Bspfmt.overlayFaceCount (Finder.mk' idKey texinfo) os with
    | .error e => pure (errJson (lumpErr e))
    | .ok (rs, fs, ls, f') =>
      -- the writer packs head, the faces with its per-count format (pad bytes), then the floats
      let mut out : Bytes := []
      for (o, r) in List.zip os rs do
        let facesFmt := (Gen.Bspfmt.overlayWriterFaces.find? (·.1 == o.faces.length)).map (·.2)
        match facesFmt with
        | none => throw "no face format"
        | some ff =>
          match wireCat (Gen.Bspfmt.overlayWriterHead :: ff :: Gen.Bspfmt.overlayWriterTail) with
          | none => throw "overlay format"
          | some fmt =>
            match pack fmt (r.take 3 ++ o.faces.map Val.int ++ o.floats.map Val.f32) with
            | .ok b => out := out ++ b
            | .error e => throw (structErr e)
      pure (Json.mkObj [("overlays", ofBytes out), ("fades", ← packRecs "overlay_fades" "*" fs),
        ("levels", ← packRecs "overlay_levels" "*" ls), ("texinfo", Wire.ofNatList f'.list)])
  | "x_surfedges" =>
    let layout ← j.getObjValAs? String "layout"
    let verts ← natsOf j "verts"
    let zeros ← natsOf j "zeros"
    let fresh ← natOf j "fresh"
    let dummy ← natOf j "dummy"
    let ej ← (← j.getObjVal? "ed").getArr?
    let eds ← ej.toList.mapM fun q => do
      let a ← Wire.natList q
      pure (a[0]!, (a[1]!, a[2]!))
    let sj ← (← j.getObjVal? "ss").getArr?
    let ss ← sj.toList.mapM fun q => do
      let a ← q.getArr?
      pure (SurfEdgeV.mk (← (a[0]!).getNat?) (← (a[1]!).getBool?))
    let r := writeSurfedges (fun v => zeros.contains v) fresh dummy (lookupD eds (0, 0)) verts ss
    pure (Json.mkObj [("surfedges", ← packRecs "surfedges" "*" (r.1.map (fun i => [Val.int i]))),
      ("edges", ← packRecs "edges" layout r.2.1), ("verts", Wire.ofNatList r.2.2)])
  | "x_water" =>
    let layout ← j.getObjValAs? String "layout"
    let texinfo ← natsOf j "texinfo"
    let wj ← (← j.getObjVal? "items").getArr?
    let ws ← wj.toList.mapM fun q => do
      pure (WaterV.mk (UInt32.ofNat (← natOf q "sz")) (UInt32.ofNat (← natOf q "mz")) (← natOf q "texinfo"))
    let r := writeWater (Finder.mk' idKey texinfo) ws
    pure (Json.mkObj [("bytes", ← packRecs "leafwaterdata" layout r.1), ("texinfo", Wire.ofNatList r.2.list)])
  | "x_vfaces" =>
    let tj ← j.getObjVal? "tabs"
    let fj ← (← j.getObjVal? "faces").getArr?
    let fs ← fj.toList.mapM fun f => do
      let lm ← Wire.intList (← f.getObjVal? "lm")
      pure (VFaceV.mk (← natOf f "plane") (← optNatOf f "texinfo") (← intOf f "dispinfo") (← natsOf f "edges")
        lm[0]! lm[1]! lm[2]! lm[3]! (← intOf f "flags"))
    let s0 : VFaceSt := VFaceSt.mk (Finder.mk' idKey (← natsOf tj "texinfo")) (Finder.mk' idKey (← natsOf tj "planes"))
      (EFinder.mk' idKey (← natsOf tj "surfedges"))
    let r := writeVFaces Gen.Bspfmt.findOrExtendBounded s0 fs
    pure (Json.mkObj [("bytes", ← packRecs "faces" "LUMP_LAYOUT_VITAMIN" r.1),
      ("tabs", Json.mkObj [("texinfo", Wire.ofNatList r.2.fTex.list), ("planes", Wire.ofNatList r.2.fPlane.list),
        ("surfedges", Wire.ofNatList r.2.eEdges.list)])])
  | "x_bmodels" =>
    let nodes ← natsOf j "nodes"
    let faces ← natsOf j "faces"
    let world ← natOf j "world"
    let entModels ← natsOf j "entModels"
    let mj ← (← j.getObjVal? "md").getArr?
    let mds ← mj.toList.mapM fun q => do
      let a ← q.getArr?
      let o := a[1]!
      let fl ← Wire.natList (← o.getObjVal? "floats")
      let kv : Option Bytes ← (match o.getObjVal? "kv" with
        | .ok Json.null => pure none
        | .ok x => do pure (some (← bytesOf x))
        | .error _ => pure none)
      pure ((← (a[0]!).getNat?), BModelV.mk (fl.map UInt32.ofNat) (← natOf o "node") (← natsOf o "faces") kv (← bytesList (← o.getObjVal? "solids")))
    match writeBModels Gen.Bspfmt.findOrExtendBounded (lookupD mds ⟨[], 0, [], none, []⟩) nodes faces world entModels with
    | .error e => pure (errJson (lumpErr e))
    | .ok (idx, recs, phys, ml, nodes', faces') =>
      pure (Json.mkObj [("idx", Wire.ofNatList idx), ("bytes", ← packRecs "models" "*" recs), ("phys", ofBytes phys),
        ("models", Wire.ofNatList ml), ("nodes", Wire.ofNatList nodes'), ("faces", Wire.ofNatList faces')])
  | "x_detail" =>
    let nj ← (← j.getObjVal? "names").getArr?
    let names ← nj.toList.mapM fun q => do
      let a ← q.getArr?
      pure ((← (a[0]!).getNat?), (← bytesOf a[1]!))
    let dj ← (← j.getObjVal? "props").getArr?
    let ds ← dj.toList.mapM fun q => do
      let f6 ← Wire.natList (← q.getObjVal? "f6")
      let li ← Wire.intList (← q.getObjVal? "lighting")
      let kind ← j.getObjValAs? String "op"
      let k : DetailKind ← (match q.getObjVal? "model" with
        | .ok x => do pure (DetailKind.model (← x.getNat?))
        | .error _ => do
          let rect ← Wire.natList (← q.getObjVal? "rect")
          let scale := UInt32.ofNat (← natOf q "scale")
          match q.getObjVal? "cross" with
          | .ok c => pure (DetailKind.shape (rect.map UInt32.ofNat) scale (← c.getBool?) (← intOf q "ang") (← intOf q "size"))
          | .error _ => pure (DetailKind.sprite (rect.map UInt32.ofNat) scale))
      let _ := kind
      pure (DetailV.mk (f6.map UInt32.ofNat) (← intOf q "leaf") li[0]! li[1]! li[2]! li[3]! (← intOf q "styles") (← intOf q "styleCount")
        (← intOf q "sway") (← intOf q "orient") k)
    let r := writeDetails ⟨Finder.mk' idKey [], Finder.mk' rectKey []⟩ ds
    let guard := nameGuard "_lmp_write_detail_props"
    let mut out : Bytes := []
    match pi32 r.2.fModel.list.length with
    | .ok b => out := out ++ b
    | .error e => throw (lumpErr e)
    for m in r.2.fModel.list do
      match guard with
      | none => throw "no guard info"
      | some (n, g) =>
        match nameWrite g n (lookupD names [] m) with
        | .ok b => out := out ++ b
        | .error e => return errJson (lumpErr e)
    match pi32 r.2.fSprite.list.length with
    | .ok b => out := out ++ b
    | .error e => throw (lumpErr e)
    match (findPair "detail_sprite" "*").bind (fun p => wireCat p.writer) with
    | none => throw "sprite format"
    | some fmt =>
      for sp in r.2.fSprite.list do
        match pack fmt (sp.map Val.f32) with
        | .ok b => out := out ++ b
        | .error e => throw (structErr e)
    match pi32 ds.length with
    | .ok b => out := out ++ b
    | .error e => throw (lumpErr e)
    match (findPair "detail_prop" "*").bind (fun p => wireCat p.writer) with
    | none => throw "detail format"
    | some fmt =>
      match packMany fmt r.1 with
      | .ok b => out := out ++ b
      | .error e => return errJson (structErr e)
    pure (Json.mkObj [("bytes", ofBytes out)])
  | "x_propidx" =>
    let visleafs ← natsOf j "visleafs"
    let pj ← (← j.getObjVal? "props").getArr?
    let ps ← pj.toList.mapM fun q => do pure (PropRefV.mk (← natOf q "model") (← natsOf q "leafs"))
    let r := writePropIdx ⟨Finder.mk' idKey [], Finder.mk' idKey visleafs, []⟩ ps
    pure (Json.mkObj [("recs", Json.arr (r.1.map (fun t => Wire.ofNatList [t.1, t.2.1, t.2.2])).toArray),
      ("leafArray", Wire.ofNatList r.2.leafArray), ("models", Wire.ofNatList r.2.fModel.list), ("visleafs", Wire.ofNatList r.2.fLeaf.list)])
  | "gen" =>
    pure (Json.mkObj [
      ("findOrExtendBounded", Json.bool Gen.Bspfmt.findOrExtendBounded),
      ("textureWriteLimit", Json.num (JsonNumber.fromNat Gen.Bspfmt.textureWriteLimit)),
      ("nameGuards", Json.arr (Gen.Bspfmt.strSites.map (fun s =>
        Json.arr #[Json.str s.1, Json.num (JsonNumber.fromNat s.2.2.1), Json.bool s.2.2.2.1])).toArray),
      ("propVersions", Json.arr (Gen.Bspfmt.propVersions.map (fun v =>
        Json.arr #[Json.str (String.ofList v.name), Json.num (JsonNumber.fromNat v.version), Json.num (JsonNumber.fromNat v.size)])).toArray),
      ("detailOrder", Json.arr (Gen.Bspfmt.detailIsinstanceOrder.map Json.str).toArray)])
  | _ => throw s!"unknown op {op}"

def main : IO Unit := Wire.main handle
