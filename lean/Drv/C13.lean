import Srctools.Wire
import Srctools.Model.C13
/-! Driver for the VPK model (C13).
requests:
  {"op":"run","single":b,"ops":[op…]}   → {"obs":[result…]}      (one result per operation)
      op: ["open",mode,limit|null] ["new",name] ["add",name,data,idx|null] ["write",name,data,idx|null]
          ["del",name] ["flush"] ["exit",exc:bool] ["has",name] ["check"] ["plant","hex"]
      name: ["s",[cp…]] | ["p",[cp…],[cp…]] | ["t",[cp…],[cp…],[cp…]]
      data: ["g",seed,size] | ["x","hex"]
      result: "ok" | "yes" | "no" | error code | observation object (for "check")
  {"op":"decode","hex":"…"}             → {"err":code} | {"version":n,"entries":[…],"footer":[len,crc]}
  {"op":"parts","name":name}            → {"parts":[[cp…],[cp…],[cp…]]}
-/
open C13
open Lean (Json JsonNumber)

/-! real CRC-32 (zlib polynomial), table driven -/
def crcTable : Array UInt32 := Id.run do
  let mut t : Array UInt32 := Array.mkEmpty 256
  for n in [0:256] do
    let mut c : UInt32 := n.toUInt32
    for _ in [0:8] do
      c := if c &&& 1 != 0 then (c >>> 1) ^^^ 0xEDB88320 else c >>> 1
    t := t.push c
  return t

def crc32 (bs : List Nat) : Nat :=
  let c := bs.foldl (fun (c : UInt32) b =>
    crcTable[((c ^^^ b.toUInt32) &&& 0xFF).toNat]! ^^^ (c >>> 8)) 0xFFFFFFFF
  (c ^^^ 0xFFFFFFFF).toNat

def genBytes (seed size : Nat) : List Nat :=
  (List.range size).map fun i => ((i * i + seed * (2 * i + 1)) / 4) % 256

def hexVal (c : Char) : Nat :=
  if '0' ≤ c ∧ c ≤ '9' then c.toNat - 48
  else if 'a' ≤ c ∧ c ≤ 'f' then c.toNat - 87
  else if 'A' ≤ c ∧ c ≤ 'F' then c.toNat - 55 else 0

def unhex (s : String) : List Nat :=
  let rec go : List Char → List Nat → List Nat
    | a :: b :: rest, acc => go rest ((hexVal a * 16 + hexVal b) :: acc)
    | _, acc => acc.reverse
  go s.toList []

def num (n : Nat) : Json := Json.num (JsonNumber.fromNat n)
def digest (b : List Nat) : Json := Json.arr #[num b.length, num (crc32 b)]

def errCode : Err → String
  | .readonly => "readonly" | .nonascii => "nonascii" | .exists => "exists" | .missing => "missing"
  | .nofile => "nofile" | .struct => "struct" | .v2 => "v2" | .badsig => "badsig"
  | .badversion => "badversion" | .badterm => "badterm" | .eof => "exc:Exception" | .nohandle => "nohandle"

def optNat (j : Json) : Except String (Option Nat) :=
  if j.isNull then pure none else do pure (some (← j.getNat?))

def nameOf (j : Json) : Except String Name := do
  let a ← j.getArr?
  let k ← (a[0]!).getStr?
  match k with
  | "s" => pure (.str (← Wire.natList a[1]!))
  | "p" => pure (.pair (← Wire.natList a[1]!) (← Wire.natList a[2]!))
  | "t" => pure (.triple (← Wire.natList a[1]!) (← Wire.natList a[2]!) (← Wire.natList a[3]!))
  | _ => throw s!"bad name kind {k}"

def dataOf (j : Json) : Except String (List Nat) := do
  let a ← j.getArr?
  let k ← (a[0]!).getStr?
  match k with
  | "g" => pure (genBytes (← (a[1]!).getNat?) (← (a[2]!).getNat?))
  | "x" => pure (unhex (← (a[1]!).getStr?))
  | _ => throw s!"bad data kind {k}"

def modeOf (s : String) : Except String Mode :=
  match s with
  | "r" => pure .r | "w" => pure .w | "a" => pure .a
  | _ => throw s!"bad mode {s}"

def strLe (a b : Str) : Bool := !strLt b a

def keyLe (a b : Key) : Bool :=
  if a.dir ≠ b.dir then strLt a.dir b.dir
  else if a.name ≠ b.name then strLt a.name b.name
  else strLe a.ext b.ext

def resJson : Res → Json
  | .ok => Json.str "ok" | .yes => Json.str "yes" | .no => Json.str "no"
  | .err e => Json.str (errCode e)

def observe (w : World) : Json :=
  match w.vpk with
  | none => Json.mkObj [("nohandle", Json.bool true)]
  | some v =>
    let ents := (v.tree.entries.toArray.qsort (fun a b => keyLe a.1 b.1 && a.1 ≠ b.1)).toList
    let reads := ents.map fun (_, i) =>
      match readInfo w.archs v.footer i with
      | .ok d => digest d
      | .error e => Json.str (errCode e)
    let ver := match verifyAll crc32 w.archs v.footer v.tree.entries with
      | .ok b => Json.bool b
      | .error e => Json.str (errCode e)
    let names := (ents.map fun (k, _) => joinFileParts k).toArray.qsort (fun a b => strLt a b)
    let archs := (w.archs.toArray.qsort (fun a b => a.1 < b.1)).toList
    Json.mkObj [
      ("triples", Json.arr (ents.map fun (k, _) =>
          Json.arr #[Wire.ofNatList k.dir, Wire.ofNatList k.name, Wire.ofNatList k.ext]).toArray),
      ("filenames", Json.arr (names.map Wire.ofNatList)),
      ("reads", Json.arr reads.toArray),
      ("verify", ver),
      ("len", num ents.length),
      ("spell", Json.arr (ents.map fun (k, _) =>
          let de : Str := if k.ext = [] then [] else DOT :: k.ext
          let names := [Name.str (joinFileParts k), Name.pair k.dir (k.name ++ de), Name.triple k.dir k.name k.ext,
            if k.ext = [] then Name.triple k.dir k.name k.ext else Name.triple k.dir (k.name ++ de) []]
          Json.arr (names.map fun nm =>
            Json.bool (decide (getFileParts nm = k) && (v.tree.lookup (getFileParts nm)).isSome)).toArray).toArray),
      ("dirfile", match w.dirFile with | none => Json.null | some b => digest b),
      ("arch", Json.arr (archs.map fun (i, b) => Json.arr #[num i, digest b]).toArray)]

def runOps (single : Bool) (ops : List Json) : Except String (List Json) := do
  let mut w := World.init single
  let mut out : Array Json := #[]
  for j in ops do
    let a ← j.getArr?
    let k ← (a[0]!).getStr?
    if k == "check" then
      out := out.push (observe w)
    else if k == "plant" then
      w := { w with dirFile := some (unhex (← (a[1]!).getStr?)), vpk := none }
      out := out.push (Json.str "ok")
    else
      let op : Op ← match k with
        | "open" => do pure (Op.openVpk (← modeOf (← (a[1]!).getStr?)) (← optNat a[2]!))
        | "new" => do pure (Op.newFile (← nameOf a[1]!))
        | "add" => do pure (Op.addFile (← nameOf a[1]!) (← dataOf a[2]!) (← optNat a[3]!))
        | "write" => do pure (Op.write (← nameOf a[1]!) (← dataOf a[2]!) (← optNat a[3]!))
        | "del" => do pure (Op.del (← nameOf a[1]!))
        | "flush" => pure Op.flush
        | "exit" => do pure (Op.exit (← (a[1]!).getBool?))
        | "has" => do pure (Op.has (← nameOf a[1]!))
        | _ => throw s!"bad op {k}"
      let (w', r) := step crc32 w op
      w := w'
      out := out.push (resJson r)
  pure out.toList

def handle (j : Json) : Except String Json := do
  let op ← j.getObjValAs? String "op"
  match op with
  | "run" =>
    let single ← j.getObjValAs? Bool "single"
    let ops ← (← j.getObjVal? "ops").getArr?
    pure (Json.mkObj [("obs", Json.arr (← runOps single ops.toList).toArray)])
  | "decode" =>
    let b := unhex (← j.getObjValAs? String "hex")
    match decodeDir b with
    | .error e => pure (Json.mkObj [("err", Json.str (errCode e))])
    | .ok l =>
      pure (Json.mkObj [
        ("version", num l.version),
        ("entries", Json.arr (l.tree.entries.map fun (k, i) =>
          Json.arr #[Wire.ofNatList k.ext, Wire.ofNatList k.dir, Wire.ofNatList k.name, num i.crc,
            digest i.startData, (match i.archIndex with | none => Json.null | some n => num n),
            num i.offset, num i.archLen]).toArray),
        ("footer", digest l.footer)])
  | "parts" =>
    let k := getFileParts (← nameOf (← j.getObjVal? "name"))
    pure (Json.mkObj [("parts", Json.arr #[Wire.ofNatList k.dir, Wire.ofNatList k.name, Wire.ofNatList k.ext])])
  | _ => throw s!"unknown op {op}"

def main : IO Unit := Wire.main handle
