import Srctools.Wire
/-! stub driver (echo) — replaced when the property's model exists. -/
def main : IO Unit := Wire.main fun j => pure j
