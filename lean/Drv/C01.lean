import Srctools.Wire
import Srctools.Model.Tok
import Srctools.Model.TokC
import Srctools.Model.C01
import Srctools.Gen.Tok
import Srctools.Gen.Kvser
/-! Driver for the C01 model (Keyvalues serialise / parse).
trees:  leaf = [0,[cp…name],[cp…value]]   block = [1,[cp…name],[tree…]]
requests:
  {"op":"ser","root":b,"trees":[tree…],"indent":[cp…],"braces":b,"start":[cp…]}
      → {"r":[cp…]}        root=false: trees has ONE element, `kv.serialise(...)`;
                           root=true: `Keyvalues.root(*trees).serialise(...)`
  {"op":"parse","s":[cp…],"flags":[[[cp…],b]…],"defaults":[[[cp…],b]…],
   "nk":b,"nv":b,"esc":b,"sl":b,"sb":b,"fold":[[cp,[cp…]]…]}
      optional "chunks":[[cp…]…] — then the text is delivered as that chunk list and tokenized by
      the concrete chunk-cursor model TokC (what `C01_roundtrip_chunks` speaks about); "s" is ignored
      → {"k":"root","trees":[tree…],"lines":[n…]} | {"k":"single","trees":[tree]}
        | {"k":"err","err":[id,a,b],"line":n|null}
  {"op":"toks","s":[cp…],"esc":b,"fold":[…]}  → tokens of the text under parse()'s tokenizer options
      {"toks":[[kind,[cp…],line]…],"err":null|[id,arg,line]}
-/
open Lean C01

def foldOf (j : Json) : Except String (Char → List Char) := do
  let a ← j.getArr?
  let pairs ← a.toList.mapM fun p => do
    let q ← p.getArr?
    let k ← (q[0]!).getNat?
    let v ← Wire.strOfCodes (q[1]!)
    pure (Char.ofNat k, v)
  pure fun c => match pairs.find? (·.1 == c) with
    | some p => p.2
    | none => [c]

partial def treeOf (j : Json) : Except String KV := do
  let a ← j.getArr?
  if a.size != 3 then throw "tree: need 3 elements"
  let tag ← (a[0]!).getNat?
  let name ← Wire.strOfCodes (a[1]!)
  if tag == 0 then
    pure (.leaf name (← Wire.strOfCodes (a[2]!)))
  else
    let cs ← (a[2]!).getArr?
    pure (.block name (← cs.toList.mapM treeOf))

mutual
def treeJson : KV → Json
  | .leaf n v => Json.arr #[Json.num (JsonNumber.fromNat 0), Wire.codesOfStr n, Wire.codesOfStr v]
  | .block n cs => Json.arr #[Json.num (JsonNumber.fromNat 1), Wire.codesOfStr n, Json.arr (treesJson cs).toArray]
def treesJson : List KV → List Json
  | [] => []
  | t :: ts => treeJson t :: treesJson ts
end

def envOf (j : Json) : Except String (List (List Char × Bool)) := do
  let a ← j.getArr?
  a.toList.mapM fun p => do
    let q ← p.getArr?
    pure (← Wire.strOfCodes (q[0]!), ← (q[1]!).getBool?)

def handle (j : Json) : Except String Json := do
  let op ← j.getObjValAs? String "op"
  match op with
  | "ser" =>
    let root ← j.getObjValAs? Bool "root"
    let ts ← (← (← j.getObjVal? "trees").getArr?).toList.mapM treeOf
    let o : SerOpts := { indent := ← Wire.strOfCodes (← j.getObjVal? "indent"),
                         indentBraces := ← j.getObjValAs? Bool "braces",
                         startIndent := ← Wire.strOfCodes (← j.getObjVal? "start") }
    if root then
      pure (Json.mkObj [("r", Wire.codesOfStr (serialiseRoot Gen.Tok.tables Gen.Kvser.cfg o ts))])
    else match ts with
      | [t] => pure (Json.mkObj [("r", Wire.codesOfStr (serialise Gen.Tok.tables Gen.Kvser.cfg o t))])
      | _ => throw "ser: root=false needs exactly one tree"
  | "parse" =>
    let s ← Wire.strOfCodes (← j.getObjVal? "s")
    let f ← foldOf (← j.getObjVal? "fold")
    let po : ParseOpts := {
      flags := ← envOf (← j.getObjVal? "flags"), defaults := ← envOf (← j.getObjVal? "defaults"),
      newlineKeys := ← j.getObjValAs? Bool "nk", newlineValues := ← j.getObjValAs? Bool "nv",
      allowEscapes := ← j.getObjValAs? Bool "esc", singleLine := ← j.getObjValAs? Bool "sl",
      singleBlock := ← j.getObjValAs? Bool "sb",
      guardFlagBlock := Gen.Kvser.parseGuards.1, guardFlagLeaf := Gen.Kvser.parseGuards.2 }
    let r ← match j.getObjVal? "chunks" with
      | .ok cj => do
        let cs ← (← cj.getArr?).toList.mapM Wire.strOfCodes
        pure (TokC.run Gen.Tok.tables (tokOpts po) f (TokC.Src.ofChunks cs))
      | .error _ => pure (Tok.run Gen.Tok.tables (tokOpts po) f s)
    match parseRun po f r with
    | .root cs =>
      pure (Json.mkObj [("k", Json.str "root"), ("trees", Json.arr (treesJson cs).toArray),
                        ("lines", Wire.ofNatList (nameLines po f initState r.toks))])
    | .single kv => pure (Json.mkObj [("k", Json.str "single"), ("trees", Json.arr #[treeJson kv])])
    | .err e l =>
      pure (Json.mkObj [("k", Json.str "err"), ("err", Wire.ofNatList [e.code.1, e.code.2.1, e.code.2.2]),
                        ("line", match l with | some n => Json.num (JsonNumber.fromNat n) | none => Json.null)])
  | "toks" =>
    let s ← Wire.strOfCodes (← j.getObjVal? "s")
    let f ← foldOf (← j.getObjVal? "fold")
    let esc ← j.getObjValAs? Bool "esc"
    let r := Tok.run Gen.Tok.tables (tokOpts { allowEscapes := esc }) f s
    pure (Json.mkObj [
      ("toks", Json.arr (r.toks.map fun t =>
        Json.arr #[Json.num (JsonNumber.fromNat t.kind), Wire.codesOfStr t.value,
                   Json.num (JsonNumber.fromNat t.line)]).toArray),
      ("err", match r.err with
        | none => Json.null
        | some (e, l) => Wire.ofNatList [e.code.1, e.code.2, l])])
  | _ => throw s!"unknown op {op}"

def main : IO Unit := Wire.main handle
