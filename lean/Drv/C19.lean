import Srctools.Wire
import Srctools.Model.C19
import Srctools.Gen.Fsys
import Srctools.Gen.Fswalk
/-! Driver for the filesystem-backend model (C19).  Strings are code point arrays.
  {"op":"cfg"} → [virtRootFix, sepMatch, foldMatch]          (from Gen.Fswalk)
  {"op":"fs","fold":[[cp,[cp…]]…],"cwd":s,"cfg":null|[b,b,b],
   "sets":[{"files":[[name,id]…],"root":s}…],"queries":[s…],"folders":[s…],
   "single":[setIndex…],"chains":[[[kind,setIndex,pfx]…]…]}           kind ∈ "V" "Z" "P" "R"
  → {"single":[{"V":{"lookup":[L…],"walk":[W…]},"Z":…,"P":…,"R":…}…],
     "chains":[{"lookup":[L…],"walkrep":[W…],"walk":[W…]}…]}
  L = [path,id] | "notfound" | "escape";  W = [[path,id]…] | "escape"
  {"op":"hist", fold, cwd, cfg, sets as above,
   "ops":[["add",kind,setIndex,pfx,priority] | ["pop",i] | ["lookup",q] | ["walk",d] | ["walkrep",d] …]}
  → [ "done" | "poperror" | L | W … ]      one observation per operation, on ONE chain object starting empty
-/
open Lean Path C19

def strArr (j : Json) : Except String (List Str) := do
  let a ← j.getArr?
  a.toList.mapM Wire.strOfCodes

def foldOf (j : Json) : Except String (Char → List Char) := do
  let a ← j.getArr?
  let pairs ← a.toList.mapM fun p => do
    let q ← p.getArr?
    let k ← (q[0]!).getNat?
    let v ← Wire.strOfCodes (q[1]!)
    pure (Char.ofNat k, v)
  pure fun c => match pairs.find? (·.1 == c) with
    | some p => p.2
    | none => [c]

def sJ (s : Str) : Json := Wire.codesOfStr s
def nJ (n : Nat) : Json := Json.num (JsonNumber.fromNat n)
def lJ {α} (f : α → Json) (l : List α) : Json := Json.arr (l.map f).toArray

def errJ : C18.Err → Json
  | .escape => Json.str "escape"
  | .notFound => Json.str "notfound"

def exJ {α} (f : α → Json) : Except C18.Err α → Json
  | .ok a => f a
  | .error e => errJ e

def pairJ (x : Str × Nat) : Json := Json.arr #[sJ x.1, nJ x.2]

def setOf (j : Json) : Except String (FileSet × Str) := do
  let fs ← (← j.getObjVal? "files").getArr?
  let files ← fs.toList.mapM fun e => do
    let q ← e.getArr?
    let n ← Wire.strOfCodes (q[0]!)
    let i ← (q[1]!).getNat?
    pure (⟨n, i⟩ : FEnt)
  let root ← Wire.strOfCodes (← j.getObjVal? "root")
  pure (files, root)

def kindOf (s : String) : Except String Kind :=
  match s with
  | "V" => pure .virt | "Z" => pure .zip | "P" => pure .vpk | "R" => pure .raw
  | _ => throw "kind?"

def handle (j : Json) : Except String Json := do
  let op ← j.getObjValAs? String "op"
  match op with
  | "cfg" =>
    let c := Gen.Fswalk.walkCfg
    pure (Json.arr #[Json.bool c.virtRootFix, Json.bool c.sepMatch, Json.bool c.foldMatch])
  | "fs" =>
    let fold ← foldOf (← j.getObjVal? "fold")
    let cwd ← Wire.strOfCodes (← j.getObjVal? "cwd")
    let cfg ← match (j.getObjVal? "cfg").toOption.getD Json.null with
      | Json.null => pure Gen.Fswalk.walkCfg
      | c => do
        let a ← c.getArr?
        pure (⟨← (a[0]!).getBool?, ← (a[1]!).getBool?, ← (a[2]!).getBool?⟩ : WalkCfg)
    let E : Env := ⟨cfg, Gen.Fsys.cfg, fold, cwd⟩
    let sets ← (← (← j.getObjVal? "sets").getArr?).toList.mapM setOf
    let qs ← strArr (← j.getObjVal? "queries")
    let ds ← strArr (← j.getObjVal? "folders")
    let single ← Wire.natList (← j.getObjVal? "single")
    let backend (k : Kind) (i : Nat) : Backend :=
      let s := sets.getD i ([], [])
      ⟨k, s.1, s.2⟩
    let one (b : Backend) : Json := Json.mkObj [
      ("lookup", lJ (fun q => exJ pairJ (lookup E b q)) qs),
      ("walk", lJ (fun d => exJ (lJ pairJ) (walkB E b d)) ds)]
    let singles := single.map fun i => Json.mkObj [
      ("V", one (backend .virt i)), ("Z", one (backend .zip i)),
      ("P", one (backend .vpk i)), ("R", one (backend .raw i))]
    let chainsJ ← (← (← j.getObjVal? "chains").getArr?).toList.mapM fun c => do
      let ms ← (← c.getArr?).toList.mapM fun m => do
        let a ← m.getArr?
        let k ← kindOf (← (a[0]!).getStr?)
        let i ← (a[1]!).getNat?
        let p ← Wire.strOfCodes (a[2]!)
        pure (⟨backend k i, p⟩ : Member)
      pure (Json.mkObj [
        ("lookup", lJ (fun q => exJ pairJ (chainLookup E q ms)) qs),
        ("walkrep", lJ (fun d => exJ (lJ pairJ) (chainWalkRepeat E d ms)) ds),
        ("walk", lJ (fun d => exJ (lJ pairJ) (chainWalk E d ms)) ds)])
    pure (Json.mkObj [("single", Json.arr singles.toArray), ("chains", Json.arr chainsJ.toArray)])
  | "hist" =>
    let fold ← foldOf (← j.getObjVal? "fold")
    let cwd ← Wire.strOfCodes (← j.getObjVal? "cwd")
    let cfg ← match (j.getObjVal? "cfg").toOption.getD Json.null with
      | Json.null => pure Gen.Fswalk.walkCfg
      | c => do
        let a ← c.getArr?
        pure (⟨← (a[0]!).getBool?, ← (a[1]!).getBool?, ← (a[2]!).getBool?⟩ : WalkCfg)
    let E : Env := ⟨cfg, Gen.Fsys.cfg, fold, cwd⟩
    let sets ← (← (← j.getObjVal? "sets").getArr?).toList.mapM setOf
    let ops ← (← (← j.getObjVal? "ops").getArr?).toList.mapM fun o => do
      let a ← o.getArr?
      let tag ← (a[0]!).getStr?
      match tag with
      | "add" =>
        let k ← kindOf (← (a[1]!).getStr?)
        let i ← (a[2]!).getNat?
        let p ← Wire.strOfCodes (a[3]!)
        let pr ← (a[4]!).getBool?
        let s := sets.getD i ([], [])
        pure (Op.add ⟨⟨k, s.1, s.2⟩, p⟩ pr)
      | "pop" => pure (Op.pop (← (a[1]!).getNat?))
      | "lookup" => pure (Op.lookup (← Wire.strOfCodes (a[1]!)))
      | "walk" => pure (Op.walk (← Wire.strOfCodes (a[1]!)))
      | "walkrep" => pure (Op.walkRepeat (← Wire.strOfCodes (a[1]!)))
      | _ => throw "hist op?"
    let obsJ : Obs → Json
      | .done => Json.str "done"
      | .popError => Json.str "poperror"
      | .look r => exJ pairJ r
      | .listing r => exJ (lJ pairJ) r
    pure (lJ obsJ (runHist E [] ops))
  | _ => throw s!"unknown op {op}"

def main : IO Unit := Wire.main handle
