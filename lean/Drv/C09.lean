import Srctools.Wire
import Srctools.Model.Heap
import Srctools.Model.C09
import Srctools.Gen.Copy
/-! Driver for C09 (copies on the heap model, driven by the table extracted from the source).

store  = [obj…]            obj = [cls, mut(0/1), [[field, kind(0 val /1 ref), x]…]]
cls    = "Side" (a class of Gen.Copy.table) | integer >= 1000 (builtin: list/set/dict/Vec/…)
field  = "planes" (declared field of the class) | integer (element index / interned key)

requests
  {"op":"table"}                                   → {"classes":[[name,[field…]]…],"addTarget":"self"|"copy",…}
  {"op":"copy","heap":store,"root":l,"fuel":n}     → {"ok":b,"closed":b,"immClosed":b,"wellKinded":b,"adequate":b,
                                                      "tree":T(new root),"absEq":b,"origSame":b}
  {"op":"frame","before":store,"after":store,"other":l,"fuel":n}
                                                   → {"absEq":b,"changed":[l…],"confined":b}
  {"op":"kvadd","heap":store,"a":l,"b":l,"bl":l,"fuel":n} → {"ok":b,"a":T,"b":T,"res":T}
  {"op":"kviadd","which":"iadd"|"extend","heap":store,"a":l,"b":l,"bl":l,"fuel":n} → {"ok":b,"a":T,"b":T}
     (bl = the list object iterated: b's children list, or b itself when b is a plain list)
T (labelled tree) = atom int | "cut" | "dangling" | [cls, label, mut, [[field, T]…]]
   label = the location when it is < k (an object that existed before the operation), else -1
-/
open Lean Heap C09

def T := Gen.Copy.table

def clsOf (j : Json) : Except String Nat :=
  match j with
  | .str s =>
    match T.findIdx? (fun c => c.name == s) with
    | some i => pure (i + 1)
    | none => throw s!"unknown class {s}"
  | _ => do
    let n ← j.getNat?
    if n < 1000 then throw "builtin class ids start at 1000" else pure n

def fieldOf (cid : Nat) (pos : Nat) (j : Json) : Except String Nat :=
  match j with
  | .str s =>
    match T[cid - 1]? with
    | some cs =>
      match cs.fields.findIdx? (fun f => f.name == s) with
      | some i => pure i
      | none => pure (1000 + pos)
    | none => throw s!"field name {s} on a builtin object"
  | _ => j.getNat?

def slotOf (a : Array Json) : Except String Slot := do
  let k ← (a[1]!).getNat?
  if k == 0 then pure (.val (← (a[2]!).getInt?)) else pure (.ref (← (a[2]!).getNat?))

def objOf (j : Json) : Except String Obj := do
  let a ← j.getArr?
  if a.size != 3 then throw "obj: need [cls, mut, fields]"
  let cid ← clsOf a[0]!
  let m ← (a[1]!).getNat?
  let fs ← (a[2]!).getArr?
  let mut out : List (Nat × Slot) := []
  let mut pos := 0
  for f in fs do
    let fa ← f.getArr?
    if fa.size != 3 then throw "field: need [name, kind, x]"
    let fid ← fieldOf cid pos fa[0]!
    out := (fid, ← slotOf fa) :: out
    pos := pos + 1
  pure { cls := cid, mu := m != 0, fields := out.reverse }

def storeOf (j : Json) : Except String Store := do
  let a ← j.getArr?
  a.toList.mapM objOf

def clsJson (c : Nat) : Json :=
  if c == 0 || c > T.length then Json.num (JsonNumber.fromNat c)
  else match T[c - 1]? with
    | some cs => Json.str cs.name
    | none => Json.num (JsonNumber.fromNat c)

def fieldJson (c f : Nat) : Json :=
  match T[c - 1]? with
  | some cs => if c == 0 then Json.num (JsonNumber.fromNat f) else
    match cs.fields[f]? with
    | some fs => Json.str fs.name
    | none => Json.num (JsonNumber.fromNat f)
  | none => Json.num (JsonNumber.fromNat f)

/-- Labelled tree: like `abs`, plus the location of every node that is older than `k`. -/
def labJson (k : Nat) : Nat → Store → Nat → Json
  | 0, _, _ => Json.str "cut"
  | n + 1, h, l =>
    match h[l]? with
    | none => Json.str "dangling"
    | some o =>
      Json.arr #[clsJson o.cls,
        (if l < k then Json.num (JsonNumber.fromNat l) else Json.num (JsonNumber.fromInt (-1))),
        Json.bool o.mu,
        Json.arr (o.fields.map fun p =>
          Json.arr #[fieldJson o.cls p.1,
            match p.2 with
            | .val v => Json.num (JsonNumber.fromInt v)
            | .ref r => labJson k n h r]).toArray]

/-- `abs` as JSON (no labels): used to compare pure values. -/
def absJson (n : Nat) (h : Store) (l : Nat) : Json := labJson 0 n h l

def gtreatStr : GTreat → String
  | .deep => "deep" | .fresh => "fresh" | .immutable => "immutable" | .shared => "shared"
  | .missing => "missing" | .reset => "reset" | .unknown => "unknown"

def tr := Table.treat T

/-- field id of `Keyvalues._value` -/
def vf : Nat :=
  match T.find? (fun c => c.name == "Keyvalues") with
  | some cs => (cs.fields.findIdx? (fun f => f.name == "_value")).getD 0
  | none => 0

def handle (j : Json) : Except String Json := do
  let op ← j.getObjValAs? String "op"
  match op with
  | "table" =>
    pure (Json.mkObj [
      ("classes", Json.arr (T.map fun c => Json.arr #[Json.str c.name,
          Json.arr (c.fields.map fun f => Json.arr #[Json.str f.name, Json.str (gtreatStr f.treat)]).toArray]).toArray),
      ("addTarget", Json.str (match Gen.Copy.kvAddTarget with | .self => "self" | .copy => "copy")),
      ("tableOK", Json.bool (tableOK T)),
      ("copies", Json.arr #[Json.bool Gen.Copy.kvAddCopies, Json.bool Gen.Copy.kvIAddCopies, Json.bool Gen.Copy.kvExtendCopies])])
  | "copy" =>
    let h ← storeOf (← j.getObjVal? "heap")
    let l ← j.getObjValAs? Nat "root"
    let n ← j.getObjValAs? Nat "fuel"
    let bad := h.foldl (fun acc o => if !o.mu then acc else
        o.fields.foldl (fun acc p => if slotOKB h (tr o.cls p.1) p.2 then acc else
          let e := Json.arr #[clsJson o.cls, fieldJson o.cls p.1]
          if acc.contains e then acc else acc ++ [e]) acc) ([] : List Json)
    let flags := [("closed", Json.bool (closedB h)), ("immClosed", Json.bool (immClosedB h)),
                  ("wellKinded", Json.bool (wellKindedB T h)), ("adequate", Json.bool (adequateB tr h)),
                  ("inadequate", Json.arr bad.toArray)]
    match copyWith tr n h l with
    | none => pure (Json.mkObj (("ok", Json.bool false) :: flags))
    | some (h1, l') =>
      pure (Json.mkObj ([("ok", Json.bool true),
        ("tree", labJson h.length n h1 l'),
        ("absEq", Json.bool (absJson n h1 l' == absJson n h l)),
        ("origSame", Json.bool (absJson n h1 l == absJson n h l))] ++ flags))
  | "frame" =>
    let b ← storeOf (← j.getObjVal? "before")
    let a ← storeOf (← j.getObjVal? "after")
    let l ← j.getObjValAs? Nat "other"
    let n ← j.getObjValAs? Nat "fuel"
    let changed := (List.range a.length).filter fun i => decide (b[i]? ≠ a[i]?)
    let reach := reachList b l
    let conf := changed.all fun i => !(reach.contains i) ||
      (match b[i]? with | some o => !o.mu && a[i]? == some o | none => false)
    pure (Json.mkObj [("absEq", Json.bool (absJson n a l == absJson n b l)),
      ("changed", Wire.ofNatList changed), ("confined", Json.bool conf)])
  | "kvadd" =>
    let h ← storeOf (← j.getObjVal? "heap")
    let a ← j.getObjValAs? Nat "a"
    let b ← j.getObjValAs? Nat "b"
    let n ← j.getObjValAs? Nat "fuel"
    let bl ← j.getObjValAs? Nat "bl"
    match kvAdd Gen.Copy.kvAddTarget tr n vf h a bl with
    | none => pure (Json.mkObj [("ok", Json.bool false)])
    | some (h2, c) =>
      pure (Json.mkObj [("ok", Json.bool true), ("a", labJson h.length n h2 a), ("b", labJson h.length n h2 b),
        ("res", labJson h.length n h2 c)])
  | "kviadd" =>
    let h ← storeOf (← j.getObjVal? "heap")
    let a ← j.getObjValAs? Nat "a"
    let b ← j.getObjValAs? Nat "b"
    let n ← j.getObjValAs? Nat "fuel"
    let which ← j.getObjValAs? String "which"
    let cp := if which == "iadd" then Gen.Copy.kvIAddCopies else Gen.Copy.kvExtendCopies
    let bl ← j.getObjValAs? Nat "bl"
    match kvIAdd cp tr n vf h a bl with
    | none => pure (Json.mkObj [("ok", Json.bool false)])
    | some h2 =>
      pure (Json.mkObj [("ok", Json.bool true), ("a", labJson h.length n h2 a), ("b", labJson h.length n h2 b)])
  | _ => throw s!"unknown op {op}"

def main : IO Unit := Wire.main handle
