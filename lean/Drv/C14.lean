import Srctools.Wire
import Srctools.Model.C14
import Srctools.Model.C14Kv2
import Srctools.Model.C14Kv2Wf
import Srctools.Model.C14Text
import Srctools.Gen.Dmx
import Srctools.Gen.Tok
/-! Driver for the DMX model (C14).
requests (byte strings and texts are arrays of numbers):
  {"op":"tables"}                                    → the extracted tables that matter
  {"op":"codes"}                                     → [[type, arr, code, decodedType|-1, decodedArr]…]
  {"op":"encode","v":n,"uni":b,"g":G}                → {"bytes":[…]} | {"err":[id,arg]}
  {"op":"decode","v":n,"uni":b,"bytes":[…]}          → {"g":G} | {"err":[id,arg]}
  {"op":"kv2","flat":b,"cull":b,"g":G2,"fold":[[cp,[cp…]]…]} → {"text":[…],"hyp":b (hypotheses of C14_kv2),"orderOK":b,"order":[…]}
  {"op":"kv2parse","text":[cp…],"fold":[[cp,[cp…]]…]}→ {"g":G2'} | {"err":…}
  {"op":"number","g":G (any order; refs are positions),"root":n} → {"order":[loc…],"g":G indexed,"closed":b}
  {"op":"valtext","t":"int|bool|color|binary","v":…} → {"text":[cp…]} ; {"op":"valparse","t":…,"text":[cp…],"fold":[…]} → {"v":… | null}
  {"op":"kv1","t":K,"fold":[[[cp…],[cp…]]…]}         → {"e":E,"back":K}
G  = {"elems":[{"type":[…],"name":[…],"uuid":[16],"attrs":[{"name":[…],"t":0..13,"arr":b,"vals":[V…]}]}]}
V  = ["n"] | ["s",[uuid text]] | ["i",idx] | ["f",[ints]] | ["t",[bytes]] | ["b",[bytes]]
-/
open Lean C14

def T := Gen.Dmx.tables

def bytesOf (j : Json) : Except String Bytes := do
  let l ← Wire.natList j
  pure (l.map UInt8.ofNat)

def jsonOfBytes (b : Bytes) : Json := Wire.ofNatList (b.map UInt8.toNat)

def valOf (j : Json) : Except String Val := do
  let a ← j.getArr?
  let tag ← (a[0]!).getStr?
  match tag with
  | "n" => pure (.ref .null)
  | "s" => pure (.ref (.stub (← bytesOf a[1]!)))
  | "i" => pure (.ref (.idx (← (a[1]!).getNat?)))
  | "f" => pure (.fixed (← Wire.intList a[1]!))
  | "t" => pure (.str (← bytesOf a[1]!))
  | "b" => pure (.bin (← bytesOf a[1]!))
  | _ => throw s!"bad value tag {tag}"

def jsonOfVal : Val → Json
  | .ref .null => Json.arr #[Json.str "n"]
  | .ref (.stub u) => Json.arr #[Json.str "s", jsonOfBytes u]
  | .ref (.idx i) => Json.arr #[Json.str "i", Json.num (JsonNumber.fromNat i)]
  | .fixed xs => Json.arr #[Json.str "f", Wire.ofIntList xs]
  | .str s => Json.arr #[Json.str "t", jsonOfBytes s]
  | .bin b => Json.arr #[Json.str "b", jsonOfBytes b]

def attrOf (j : Json) : Except String Attr := do
  let name ← bytesOf (← j.getObjVal? "name")
  let tn ← j.getObjValAs? Nat "t"
  let some t := VT.ofNat? tn | throw "bad type number"
  let arr ← j.getObjValAs? Bool "arr"
  let vs ← (← j.getObjVal? "vals").getArr?
  let vals ← vs.toList.mapM valOf
  pure { name, type := t, isArray := arr, vals }

def jsonOfAttr (a : Attr) : Json :=
  Json.mkObj [("name", jsonOfBytes a.name), ("t", Json.num (JsonNumber.fromNat a.type.toNat)),
    ("arr", Json.bool a.isArray), ("vals", Json.arr (a.vals.map jsonOfVal).toArray)]

def graphOf (j : Json) : Except String Graph := do
  let es ← (← j.getObjVal? "elems").getArr?
  let elems ← es.toList.mapM fun e => do
    let type ← bytesOf (← e.getObjVal? "type")
    let name ← bytesOf (← e.getObjVal? "name")
    let uuid ← bytesOf (← e.getObjVal? "uuid")
    let as ← (← e.getObjVal? "attrs").getArr?
    let attrs ← as.toList.mapM attrOf
    pure ({ type, name, uuid, attrs } : Elem)
  pure { elems }

def jsonOfGraph (g : Graph) : Json :=
  Json.mkObj [("elems", Json.arr (g.elems.map fun e =>
    Json.mkObj [("type", jsonOfBytes e.type), ("name", jsonOfBytes e.name), ("uuid", jsonOfBytes e.uuid),
      ("attrs", Json.arr (e.attrs.map jsonOfAttr).toArray)]).toArray)]

def jsonOfErr (e : Err) : Json :=
  Json.mkObj [("err", Json.arr #[Json.num (JsonNumber.fromNat e.code.1), Json.num (JsonNumber.fromInt e.code.2)])]

/-! KV1 trees: K = ["l",[name],[value]] | ["b",null|[name],[K…]] ; E = [type 0/1/2,[name],[[k,v]…],null|[E…]] -/
partial def kvOf (j : Json) : Except String KV := do
  let a ← j.getArr?
  let tag ← (a[0]!).getStr?
  if tag == "l" then
    pure (.leaf (← Wire.strOfCodes a[1]!) (← Wire.strOfCodes a[2]!))
  else
    let n ← (if (a[1]!).isNull then pure none else do pure (some (← Wire.strOfCodes a[1]!)))
    let cs ← (← (a[2]!).getArr?).toList.mapM kvOf
    pure (.block n cs)

partial def jsonOfKv : KV → Json
  | .leaf n v => Json.arr #[Json.str "l", Wire.codesOfStr n, Wire.codesOfStr v]
  | .block n cs => Json.arr #[Json.str "b", (match n with | none => Json.null | some s => Wire.codesOfStr s),
      Json.arr (cs.map jsonOfKv).toArray]

partial def jsonOfETree : ETree → Json
  | .mk ty n attrs sub =>
    Json.arr #[Json.num (JsonNumber.fromNat (match ty with | .leafT => 0 | .blockT => 1 | .rootT => 2)),
      Wire.codesOfStr n,
      Json.arr (attrs.map fun p => Json.arr #[Wire.codesOfStr p.1, Wire.codesOfStr p.2]).toArray,
      (match sub with | none => Json.null | some l => Json.arr (l.map jsonOfETree).toArray)]

/-- casefold given as a finite table on whole strings (every name of the request is listed). -/
def strFoldOf (j : Json) : Except String (Str → Str) := do
  let a ← j.getArr?
  let pairs ← a.toList.mapM fun p => do
    let q ← p.getArr?
    pure ((← Wire.strOfCodes q[0]!), (← Wire.strOfCodes q[1]!))
  pure fun s => match pairs.find? (·.1 == s) with
    | some p => p.2
    | none => s

def charFoldOf (j : Json) : Except String (Char → List Char) := do
  let a ← j.getArr?
  let pairs ← a.toList.mapM fun p => do
    let q ← p.getArr?
    let k ← (q[0]!).getNat?
    let v ← Wire.strOfCodes (q[1]!)
    pure (Char.ofNat k, v)
  pure fun c => match pairs.find? (·.1 == c) with
    | some p => p.2
    | none => [c]

/-! KV2: G2 = {"elems":[{"type":[cp],"name":[cp],"uuid":[cp],"attrs":[{"name":[cp],"t":n,"arr":b,"vals":[W…]}]}]},
W = ["n"] | ["s",[cp]] | ["i",k] | ["x",[cp]] -/
def tvalOf (j : Json) : Except String Kv2.TVal := do
  let a ← j.getArr?
  let tag ← (a[0]!).getStr?
  match tag with
  | "n" => pure (.ref .null)
  | "s" => pure (.ref (.stub (← Wire.strOfCodes a[1]!)))
  | "i" => pure (.ref (.idx (← (a[1]!).getNat?)))
  | "x" => pure (.text (← Wire.strOfCodes a[1]!))
  | _ => throw s!"bad text value tag {tag}"

def tgraphOf (j : Json) : Except String Kv2.TGraph := do
  let es ← (← j.getObjVal? "elems").getArr?
  let elems ← es.toList.mapM fun e => do
    let type ← Wire.strOfCodes (← e.getObjVal? "type")
    let name ← Wire.strOfCodes (← e.getObjVal? "name")
    let uuid ← Wire.strOfCodes (← e.getObjVal? "uuid")
    let as ← (← e.getObjVal? "attrs").getArr?
    let attrs ← as.toList.mapM fun a => do
      let an ← Wire.strOfCodes (← a.getObjVal? "name")
      let tn ← a.getObjValAs? Nat "t"
      let some t := VT.ofNat? tn | throw "bad type number"
      let arr ← a.getObjValAs? Bool "arr"
      let vs ← (← a.getObjVal? "vals").getArr?
      let vals ← vs.toList.mapM tvalOf
      pure ({ name := an, type := t, isArray := arr, vals } : Kv2.TAttr)
    pure ({ type, name, uuid, attrs } : Kv2.TElem)
  pure { elems }

def jsonOfFVal : Kv2.FVal → Json
  | .null => Json.arr #[Json.str "n"]
  | .uuid u => Json.arr #[Json.str "s", Wire.codesOfStr u]
  | .node k => Json.arr #[Json.str "i", Json.num (JsonNumber.fromNat k)]
  | .text s => Json.arr #[Json.str "x", Wire.codesOfStr s]

def jsonOfNodes (ns : List Kv2.FNode) : Json :=
  Json.arr (ns.map fun n => Json.mkObj [
    ("type", Wire.codesOfStr n.type), ("name", Wire.codesOfStr n.name),
    ("uuid", match n.uuid with | none => Json.null | some u => Wire.codesOfStr u),
    ("attrs", Json.arr (n.attrs.map fun a => Json.mkObj [
      ("name", Wire.codesOfStr a.name), ("t", Json.num (JsonNumber.fromNat a.type.toNat)),
      ("arr", Json.bool a.isArray), ("vals", Json.arr (a.vals.map jsonOfFVal).toArray)]).toArray)]).toArray

def handle (j : Json) : Except String Json := do
  let op ← j.getObjValAs? String "op"
  match op with
  | "tables" =>
    pure (Json.mkObj [
      ("arrayOffset", Json.num (JsonNumber.fromNat T.arrayOffset)),
      ("cmp", Json.str (match T.decodeCmp with | .ge => "ge" | .gt => "gt")),
      ("stubWrite", Json.str (match T.stubWrite with | .none => "none" | .uuidText => "uuidText")),
      ("codesOK", Json.bool (codesOK T)), ("layoutOK", Json.bool (layoutOK T)), ("sizesOK", Json.bool (sizesOK T))])
  | "codes" =>
    pure (Json.arr (VT.all.flatMap fun t => [false, true].map fun arr =>
      let c := encodeType T t arr
      let d := decodeType T c
      Json.arr #[Json.num (JsonNumber.fromNat t.toNat), Json.bool arr, Json.num (JsonNumber.fromNat c),
        (match d with | some (t', _) => Json.num (JsonNumber.fromNat t'.toNat) | none => Json.num (JsonNumber.fromInt (-1))),
        Json.bool (match d with | some (_, a) => a | none => false)]).toArray)
  | "encode" =>
    let c : Cfg := { v := ← j.getObjValAs? Nat "v", uni := ← j.getObjValAs? Bool "uni" }
    let g ← graphOf (← j.getObjVal? "g")
    match exportError c g with
    | some e => pure (jsonOfErr e)
    | none => pure (Json.mkObj [("bytes", jsonOfBytes (encodeBin T c g)), ("ok", Json.bool (graphOK T c g))])
  | "decode" =>
    let c : Cfg := { v := ← j.getObjValAs? Nat "v", uni := ← j.getObjValAs? Bool "uni" }
    let bs ← bytesOf (← j.getObjVal? "bytes")
    match decodeBin T c bs with
    | .error e => pure (jsonOfErr e)
    | .ok g => pure (Json.mkObj [("g", jsonOfGraph g)])
  | "kv2" =>
    let flat ← j.getObjValAs? Bool "flat"
    let cull ← j.getObjValAs? Bool "cull"
    let g ← tgraphOf (← j.getObjVal? "g")
    let f ← charFoldOf (← j.getObjVal? "fold")
    -- the decidable hypotheses of C14_kv2 on this graph
    let hyp := Kv2.graphWf T (fun s => s.flatMap f) g flat && Kv2.uuidsOK g && Kv2.nestAllOK g flat &&
      !g.elems.isEmpty && (Kv2.nameChars T).all (fun c => f c == [c])
    pure (Json.mkObj [("text", Wire.codesOfStr (Kv2.emit Gen.Tok.tables T flat cull g)),
      ("hyp", Json.bool hyp), ("orderOK", Json.bool (Kv2.orderOK g flat)), ("bfs", Json.bool (Kv2.bfsOrdered g)),
      ("order", Wire.ofNatList (Kv2.order g flat))])
  | "kv2parse" =>
    let s ← Wire.strOfCodes (← j.getObjVal? "text")
    let f ← charFoldOf (← j.getObjVal? "fold")
    match Kv2.parse Gen.Tok.tables T f s with
    | .error e => pure (Json.mkObj [("err", Json.str e)])
    | .ok ns => pure (Json.mkObj [("nodes", jsonOfNodes ns)])
  | "number" =>
    let g ← graphOf (← j.getObjVal? "g")
    let root ← j.getObjValAs? Nat "root"
    pure (Json.mkObj [("order", Wire.ofNatList (number g root)), ("g", jsonOfGraph (indexed g root)),
      ("closed", Json.bool (heapClosed g))])
  | "valtext" =>
    -- {"t":"int","v":i} | {"t":"bool","v":0/1} | {"t":"color","v":[r,g,b,a]} | {"t":"binary","v":[bytes]}
    let t ← j.getObjValAs? String "t"
    let v ← j.getObjVal? "v"
    let text ← (match t with
      | "int" => do pure (Text.fmtInt (← v.getInt?))
      | "bool" => do pure (Text.fmtBool ((← v.getNat?) != 0))
      | "color" => do
        let l ← Wire.natList v
        pure (Text.fmtColor l[0]! l[1]! l[2]! l[3]!)
      | "binary" => do pure (Text.fmtHex (← bytesOf v))
      | _ => throw s!"unknown value type {t}")
    pure (Json.mkObj [("text", Wire.codesOfStr text)])
  | "valparse" =>
    let t ← j.getObjValAs? String "t"
    let text ← Wire.strOfCodes (← j.getObjVal? "text")
    let f ← charFoldOf (← j.getObjVal? "fold")
    match t with
    | "int" => pure (Json.mkObj [("v", match Text.parseInt text with | some i => Json.num (JsonNumber.fromInt i) | none => Json.null)])
    | "bool" => pure (Json.mkObj [("v", match Text.parseBool T (fun s => s.flatMap f) text with | some b => Json.num (JsonNumber.fromNat (if b then 1 else 0)) | none => Json.null)])
    | "color" => pure (Json.mkObj [("v", match Text.parseColor text with | some (r, g, b, a) => Wire.ofNatList [r, g, b, a] | none => Json.null)])
    | "binary" => pure (Json.mkObj [("v", match Text.parseHex text with | some bs => jsonOfBytes bs | none => Json.null)])
    | _ => throw s!"unknown value type {t}"
  | "kv1" =>
    let t ← kvOf (← j.getObjVal? "t")
    let f ← strFoldOf (← j.getObjVal? "fold")
    let e := fromKv1 f t
    pure (Json.mkObj [("e", jsonOfETree e), ("back", jsonOfKv (toKv1 e)), ("ok", Json.bool t.ok)])
  | _ => throw s!"unknown op {op}"

def main : IO Unit := Wire.main handle
